"""Controlled thread scheduler: real threads, exactly one runs at a time.

Every scheduling point (``sched.point(label)``, ``sched.wait(pred, label)``, or
a traced source line of a named function) hands control back to the controller,
which asks the ``Chooser`` which enabled thread runs next.  Enabled threads are
offered in canonical order: the thread that was running first if it is still
enabled (choice 0 = no context switch), then ascending thread index.  Switching
away from a still-enabled thread costs one deviation (= preemption, iterative
context bounding); choosing among the others when the running thread is blocked
or finished is free.
"""
from __future__ import annotations
import sys
import threading


class _Abort(BaseException):
    pass


class Deadlock(Exception):
    pass


class _T:
    __slots__ = ("idx", "name", "fn", "thread", "sem", "state", "pred", "label", "exc", "result")

    def __init__(self, idx, name, fn):
        self.idx, self.name, self.fn = idx, name, fn
        self.sem = threading.Semaphore(0)
        self.state = "new"      # new / ready / blocked / done
        self.pred = None
        self.label = None
        self.exc = None
        self.result = None
        self.thread = None


class Sched:
    def __init__(self, chooser, max_steps=5000, trace_codes=None):
        self.ch = chooser
        self.threads = []
        self.ctl = threading.Semaphore(0)
        self.current = None
        self.aborting = False
        self.steps = 0
        self.max_steps = max_steps
        self.trace_codes = set(trace_codes or ())
        self.log = []            # (thread name, label) for every resumed step
        self.horizon_hit = False
        self.deadlock = None
        self.multi_enabled_points = 0
        self._tls = threading.local()

    # -- API used by harness bodies (inside threads) -------------------------
    def spawn(self, name, fn):
        t = _T(len(self.threads), name, fn)
        self.threads.append(t)
        t.thread = threading.Thread(target=self._body, args=(t,), daemon=True)
        t.state = "ready"
        t.label = "start"
        t.thread.start()
        return t

    def me(self):
        return getattr(self._tls, "t", None)

    def point(self, label=None):
        """Scheduling point: the calling thread stays enabled."""
        t = self.me()
        if t is None:
            return
        t.state, t.label, t.pred = "ready", label, None
        self._yield(t)

    def wait(self, pred, label=None):
        """Block the calling thread until pred() holds (evaluated by the controller)."""
        t = self.me()
        if t is None:
            if not pred():
                raise Deadlock("main thread would block at %r" % (label,))
            return
        t.state, t.label, t.pred = "blocked", label, pred
        self._yield(t)

    def _yield(self, t):
        self.ctl.release()
        t.sem.acquire()
        if self.aborting:
            raise _Abort()

    # -- internals -------------------------------------------------------------
    def _tracer(self, frame, event, arg):
        if frame.f_code in self.trace_codes:
            return self._line
        return None

    def _line(self, frame, event, arg):
        if event == "line":
            self.point("%s:%d" % (frame.f_code.co_name, frame.f_lineno))
        return self._line

    def _body(self, t):
        self._tls.t = t
        t.sem.acquire()
        try:
            if self.aborting:
                return
            if self.trace_codes:
                sys.settrace(self._tracer)
            t.result = t.fn()
        except _Abort:
            pass
        except BaseException as e:  # noqa
            t.exc = e
        finally:
            sys.settrace(None)
            t.state = "done"
            self.ctl.release()

    def _enabled(self):
        out = []
        for t in self.threads:
            if t.state == "ready":
                out.append(t)
            elif t.state == "blocked" and t.pred():
                out.append(t)
        return out

    def run(self):
        """Run to completion.  Returns None; inspect .deadlock / .horizon_hit / thread.exc."""
        try:
            while True:
                en = self._enabled()
                if not en:
                    if any(t.state != "done" for t in self.threads):
                        self.deadlock = [(t.name, t.label) for t in self.threads if t.state != "done"]
                    return
                if self.steps >= self.max_steps:
                    self.horizon_hit = True
                    return
                cur = self.current
                if cur is not None and cur in en:
                    order = [cur] + [t for t in en if t is not cur]
                    free = False
                else:
                    order = en
                    free = True
                if len(order) > 1:
                    self.multi_enabled_points += 1
                    k = self.ch.choose(len(order), "sched", free=free)
                else:
                    k = 0
                nxt = order[k]
                self.current = nxt
                self.steps += 1
                self.log.append((nxt.name, nxt.label))
                nxt.state = "running"
                nxt.sem.release()
                self.ctl.acquire()
        finally:
            self._kill()

    def _kill(self):
        self.aborting = True
        for t in self.threads:
            if t.state != "done":
                t.sem.release()
        for t in self.threads:
            t.thread.join(5)

    def errors(self):
        return [(t.name, t.exc) for t in self.threads if t.exc is not None]


class CoopLock:
    """Cooperative replacement for threading.Lock under a Sched."""

    def __init__(self, sched, name="lock"):
        self.s, self.name, self.owner = sched, name, None

    def acquire(self, blocking=True, timeout=-1):
        self.s.point(self.name + ".acquire")
        if self.owner is not None:
            if not blocking:
                return False
            self.s.wait(lambda: self.owner is None, self.name + ".acquire-wait")
        self.owner = self.s.me() or "main"
        return True

    def release(self):
        if self.owner is None:
            raise RuntimeError("release unlocked lock")
        self.owner = None
        self.s.point(self.name + ".release")

    def locked(self):
        return self.owner is not None

    __enter__ = acquire

    def __exit__(self, *a):
        self.release()


class CoopQueue:
    """Cooperative replacement for queue.Queue (unbounded)."""

    def __init__(self, sched, name="queue"):
        self.s, self.name, self.items = sched, name, []

    def put(self, item):
        self.s.point(self.name + ".put")
        self.items.append(item)

    def get(self):
        self.s.point(self.name + ".get")
        if not self.items:
            self.s.wait(lambda: bool(self.items), self.name + ".get-wait")
        return self.items.pop(0)
