"""Explicit-state breadth-first search over *real* objects.

A state is identified by the event history that reaches it (live Twisted
objects rarely copy).  ``initial()`` builds fresh real objects; ``apply(st, ev)``
executes one event on them; ``enabled(st)`` is the finite menu of next events;
``canon(st)`` is the hashable, property-relevant projection used to merge states;
``invariant(st, hist)`` returns an iterable of (signature, detail) violations
and is evaluated after every transition.
"""
from __future__ import annotations
import collections


class BFSResult:
    def __init__(self):
        self.states = 0
        self.transitions = 0
        self.max_depth = 0
        self.violations = []  # (sig, detail, history)
        self.samples = []
        self.capped = False
        self.terminal = 0
        self.per_sig = {}


def build(initial, apply, hist):
    st = initial()
    for ev in hist:
        apply(st, ev)
    return st


def bfs(initial, apply, enabled, canon, invariant, max_depth,
        max_states=None, max_violations=20, on_state=None, sample_every=997):
    res = BFSResult()
    st0 = initial()
    for v in invariant(st0, []) or ():
        res.violations.append((v[0], v[1], []))
    seen = {canon(st0)}
    frontier = collections.deque([[]])
    res.states = 1
    while frontier:
        hist = frontier.popleft()
        if len(hist) >= max_depth:
            continue
        st = build(initial, apply, hist)
        evs = list(enabled(st))
        if not evs:
            res.terminal += 1
        first = True
        for ev in evs:
            if not first:
                st = build(initial, apply, hist)
            first = False
            apply(st, ev)
            res.transitions += 1
            h2 = hist + [ev]
            bad = list(invariant(st, h2) or ())
            if bad:
                for v in bad:
                    # cap per signature, not globally: a known finding must not
                    # crowd out a different violation
                    n = res.per_sig.get(v[0], 0)
                    res.per_sig[v[0]] = n + 1
                    if n < 3 and len(res.per_sig) <= max(200, max_violations):
                        res.violations.append((v[0], v[1], h2))
                continue  # do not expand beyond a violating state
            k = canon(st)
            if k in seen:
                continue
            seen.add(k)
            res.states += 1
            if on_state is not None:
                on_state(st, h2)
            if len(h2) > res.max_depth:
                res.max_depth = len(h2)
            if len(h2) >= res.max_depth:
                if res.states % 7 == 0 or not res.samples or len(res.samples[-1]) < len(h2):
                    res.samples.append(h2)
                    del res.samples[:-3]
            if max_states is not None and res.states >= max_states:
                res.capped = True
                return res
            frontier.append(h2)
    if not res.samples:
        res.samples.append([])
    return res
