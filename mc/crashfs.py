"""Crash-point enumeration over a real scratch directory.

``CrashFS`` intercepts the filesystem calls the code under test makes
(builtins.open / io.open, os.open+os.fdopen, os.remove/unlink/rename/replace/
mkdir/rmdir/truncate and any extra aliases bound at import time).  Files opened
for writing are wrapped so that user-space buffering is modelled: ``write()``
only appends to a buffer; ``flush()/close()`` (or unbuffered mode) performs the
"write system call".  Every mutating system call is a numbered crash point.

plan=None records the list of mutating calls.  plan=(i, None) crashes *before*
call i; plan=(i, j) performs only the first j bytes of write call i, then
crashes.  A crash raises ``Crash`` (a BaseException); after it no intercepted
call has any effect (the process is dead: buffers are dropped, cleanup code in
``except``/``finally`` blocks cannot touch the disk).
"""
from __future__ import annotations
import builtins, io, os

_real = {
    "open": builtins.open, "os.open": os.open, "os.fdopen": os.fdopen, "os.remove": os.remove,
    "os.unlink": os.unlink, "os.rename": os.rename, "os.replace": os.replace, "os.mkdir": os.mkdir,
    "os.rmdir": os.rmdir, "os.truncate": os.truncate, "os.close": os.close,
}
real_open = _real["open"]
BUFSIZE = 8192


class Crash(BaseException):
    pass


class _File:
    """File object with modelled user-space buffering over an unbuffered real file."""

    def __init__(self, fs, raw, path, mode, buffering, encoding=None):
        self._fs, self._raw, self.name, self.mode = fs, raw, path, mode
        self._buf = bytearray()
        self._unbuffered = buffering == 0
        self._text = "b" not in mode
        self._enc = encoding or "utf-8"
        self.closed = False

    # writing
    def write(self, data):
        if self.closed:
            raise ValueError("I/O operation on closed file.")
        n = len(data)
        if self._text:
            if not isinstance(data, str):
                raise TypeError("write() argument must be str, not %s" % type(data).__name__)
            data = data.encode(self._enc)
        elif isinstance(data, str):
            raise TypeError("a bytes-like object is required, not 'str'")
        self._buf += bytes(data)
        if self._unbuffered or len(self._buf) >= BUFSIZE:
            self._sys_write()
        return n

    def writelines(self, lines):
        for l in lines:
            self.write(l)

    def _sys_write(self):
        if not self._buf:
            return
        data = bytes(self._buf)
        del self._buf[:]
        self._fs._mut("write", self.name, data, self._raw.write)

    def flush(self):
        if self._fs.crashed:
            del self._buf[:]
            return
        self._sys_write()

    def close(self):
        if self.closed:
            return
        try:
            if not self._fs.crashed:
                self._sys_write()
        finally:
            self.closed = True
            del self._buf[:]
            self._raw.close()

    def __enter__(self):
        return self

    def __exit__(self, *a):
        try:
            self.close()
        except Crash:
            if a[0] is None:
                raise

    # reading / positioning (flush first, like io.BufferedRandom)
    def _sync(self):
        if self._buf and not self._fs.crashed:
            self._sys_write()

    def read(self, n=-1):
        self._sync()
        d = self._raw.read() if n is None or n < 0 else self._raw.read(n)
        return d.decode(self._enc) if self._text else d

    def readline(self):
        self._sync()
        out = bytearray()
        while True:
            c = self._raw.read(1)
            if not c:
                break
            out += c
            if c == b"\n":
                break
        return bytes(out).decode(self._enc) if self._text else bytes(out)

    def readlines(self):
        out = []
        while True:
            l = self.readline()
            if not l:
                return out
            out.append(l)

    def __iter__(self):
        return iter(self.readlines())

    def seek(self, *a):
        self._sync()
        return self._raw.seek(*a)

    def tell(self):
        self._sync()
        return self._raw.tell()

    def truncate(self, *a):
        self._sync()
        return self._fs._mut("ftruncate", self.name, None, lambda: self._raw.truncate(*a))

    def fileno(self):
        return self._raw.fileno()

    def isatty(self):
        return False

    def readable(self):
        return True

    def writable(self):
        return True

    def seekable(self):
        return True


class CrashFS:
    def __init__(self, plan=None, aliases=(), root=None):
        """aliases: [(module, attr, kind)] names bound at import time to one of the
        intercepted functions (kind is a key such as 'open', 'os.remove')."""
        self.plan = plan
        self.aliases = list(aliases)
        self.ops = []          # (kind, path, size)
        self.crashed = False
        self.root = root
        self._saved = []
        self.files = []

    # -- core -------------------------------------------------------------------
    def _inside(self, path):
        if self.root is None:
            return True
        if isinstance(path, int):
            return False
        p = os.fsdecode(path)
        return os.path.abspath(p).startswith(self.root)

    def _mut(self, kind, path, data, do):
        if self.crashed:
            raise Crash()
        idx = len(self.ops)
        self.ops.append((kind, os.path.basename(os.fsdecode(path)) if not isinstance(path, int) else path,
                         len(data) if data is not None else None))
        if self.plan is not None and self.plan[0] == idx:
            if data is not None and self.plan[1]:
                do(data[: self.plan[1]])
            self.crashed = True
            raise Crash()
        return do(data) if data is not None else do()

    # -- intercepted calls --------------------------------------------------------
    def _open(self, file, mode="r", buffering=-1, encoding=None, errors=None, newline=None, closefd=True, opener=None):
        if isinstance(file, int) or not self._inside(file):
            return _real["open"](file, mode, buffering, encoding, errors, newline, closefd, opener)
        writing = any(c in mode for c in "wax+")
        if not writing:
            return _real["open"](file, mode, buffering, encoding, errors, newline, closefd, opener)
        bmode = mode.replace("t", "")
        if "b" not in bmode:
            bmode += "b"
        creates = ("w" in mode) or ("x" in mode) or ("a" in mode and not os.path.exists(file))
        if creates:
            raw = self._mut("open:" + mode.replace("b", ""), file, None, lambda: _real["open"](file, bmode, 0))
        else:
            raw = _real["open"](file, bmode, 0)
        f = _File(self, raw, os.fsdecode(file), mode, buffering, encoding)
        self.files.append(f)
        return f

    def _os_open(self, path, flags, mode=0o777, *, dir_fd=None):
        if not self._inside(path) or not (flags & (os.O_CREAT | os.O_TRUNC)):
            return _real["os.open"](path, flags, mode)
        return self._mut("os.open", path, None, lambda: _real["os.open"](path, flags, mode))

    def _os_fdopen(self, fd, mode="r", buffering=-1, encoding=None, *a, **kw):
        if not any(c in mode for c in "wax+"):
            return _real["os.fdopen"](fd, mode, buffering, encoding, *a, **kw)
        bmode = mode.replace("t", "")
        if "b" not in bmode:
            bmode += "b"
        raw = _real["os.fdopen"](fd, bmode, 0)
        f = _File(self, raw, "<fd>", mode, buffering, encoding)
        self.files.append(f)
        return f

    def _wrap1(self, kind):
        real = _real[kind]

        def f(path, *a, **kw):
            if not self._inside(path):
                return real(path, *a, **kw)
            return self._mut(kind, path, None, lambda: real(path, *a, **kw))
        return f

    def _wrap2(self, kind):
        real = _real[kind]

        def f(src, dst, *a, **kw):
            if not self._inside(src):
                return real(src, dst, *a, **kw)
            return self._mut("%s->%s" % (kind, os.path.basename(os.fsdecode(dst))), src, None, lambda: real(src, dst, *a, **kw))
        return f

    def __enter__(self):
        table = {
            "open": self._open, "os.open": self._os_open, "os.fdopen": self._os_fdopen,
            "os.remove": self._wrap1("os.remove"), "os.unlink": self._wrap1("os.unlink"),
            "os.mkdir": self._wrap1("os.mkdir"), "os.rmdir": self._wrap1("os.rmdir"),
            "os.truncate": self._wrap1("os.truncate"),
            "os.rename": self._wrap2("os.rename"), "os.replace": self._wrap2("os.replace"),
        }
        targets = [(builtins, "open", "open"), (io, "open", "open")]
        for k in table:
            if k.startswith("os."):
                targets.append((os, k[3:], k))
        targets += self.aliases
        for mod, attr, kind in targets:
            self._saved.append((mod, attr, getattr(mod, attr)))
            setattr(mod, attr, table[kind])
        return self

    def __exit__(self, *a):
        for mod, attr, old in reversed(self._saved):
            setattr(mod, attr, old)
        self._saved = []
        # the dead process's descriptors are closed by the kernel; buffers are lost
        self.crashed = self.crashed or False
        for f in self.files:
            if not f.closed:
                try:
                    f.closed = True
                    f._raw.close()
                except Exception:
                    pass
        return False


def crash_plans(ops, small=16, picks=(1, 2)):
    """All crash plans for a recorded op list: before every call, and inside
    every write after each prefix length (all lengths when the write is <= small
    bytes, else 1, 2, half, BUFSIZE boundaries and size-1)."""
    for i, (kind, path, size) in enumerate(ops):
        yield (i, None)
        if size:
            if size <= small:
                js = range(1, size)
            else:
                js = sorted({1, 2, size // 2, size - 1, 4095, 4096, 4097} & set(range(1, size)))
            for j in js:
                yield (i, j)


def run_with_plan(plan, fn, aliases=(), root=None):
    """Run fn() under a plan.  Returns (crashed, ops, exception or None)."""
    fs = CrashFS(plan, aliases, root)
    exc = None
    with fs:
        try:
            fn()
        except Crash:
            pass
    return fs.crashed, fs.ops
