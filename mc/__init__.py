"""Bounded exhaustive exploration engines for the Twisted properties.

mc.choice  - stateless, deviation-bounded enumeration of choice sequences
mc.bfs     - explicit-state search over real objects (state = history)
mc.runner  - runner, sharding over processes, evidence, known findings
mc.net     - in-memory transport, segmentation enumeration
mc.sched   - controlled thread scheduler (iterative context bounding)
mc.crashfs - crash-point / partial-write enumeration over a real scratch dir
"""
