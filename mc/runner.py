"""Runner: ./check <ID> [--tier quick|thorough] [--replay file] [--jobs N]

Imports checks/<ID>.py, runs its shards over worker processes, merges the
statistics, classifies violations against known_findings.json, writes
evidence/<ID>.json (validated) and exits 0 / 1 (VIOLATION) / 3 (harness error).
"""
from __future__ import annotations
import argparse, hashlib, importlib, json, multiprocessing, os, subprocess, sys, time, traceback

ROOT = os.path.dirname(os.path.dirname(os.path.abspath(__file__)))
# Checks whose thorough bounds cost well under a minute on 16 cores: their quick tier simply
# runs the thorough bounds (thorough wall <= 30 s measured while the machine was busy with other work).
QUICK_RUNS_THOROUGH_BOUNDS = {"C24", "C25", "C28", "C34", "C41", "C45", "C47", "C48"}
REPO_SRC = "/repo/src"


class Stats:
    """What one shard (or the whole run) covered."""

    def __init__(self):
        self.evaluations = 0
        self.states = 0
        self.transitions = 0
        self.traces = 0
        self.nontrivial = set()   # hashes of distinct non-trivial cases
        self.outcomes = set()     # small strings: distinct observed outcome classes
        self.samples = []
        self.violations = []      # dicts: sig, detail, witness
        self.counters = {}
        self.exhaustive = True
        self.notes = []

    def nt(self, key):
        self.nontrivial.add(key if isinstance(key, int) else hash(key))

    def outcome(self, s):
        self.outcomes.add(s)

    def sample(self, x, limit=4):
        if len(self.samples) < limit:
            self.samples.append(x)

    def count(self, name, n=1):
        self.counters[name] = self.counters.get(name, 0) + n

    def violation(self, sig, detail, witness=None):
        if sum(1 for v in self.violations if v["sig"] == sig) < 3 and len(self.violations) < 60:
            self.violations.append({"sig": sig, "detail": detail, "witness": witness})
        self.count("violating_executions")

    def add_bfs(self, res, witness_extra=None):
        self.states += res.states
        self.transitions += res.transitions
        self.traces += res.transitions
        if res.capped:
            self.exhaustive = False
        for h in res.samples:
            self.sample(h)
        for sig, detail, hist in res.violations:
            w = {"history": hist}
            if witness_extra:
                w.update(witness_extra)
            self.violation(sig, detail, w)

    def merge(self, o):
        self.evaluations += o.evaluations
        self.states += o.states
        self.transitions += o.transitions
        self.traces += o.traces
        self.nontrivial |= o.nontrivial
        self.outcomes |= o.outcomes
        for s in o.samples:
            self.sample(s, 6)
        for v in o.violations:
            if sum(1 for x in self.violations if x["sig"] == v["sig"]) < 3:
                self.violations.append(v)
        for k, n in o.counters.items():
            if k.endswith("_max"):
                self.counters[k] = max(self.counters.get(k, 0), n)
            else:
                self.counters[k] = self.counters.get(k, 0) + n
        self.exhaustive = self.exhaustive and o.exhaustive
        self.notes.extend(n for n in o.notes if n not in self.notes)


def _jsonable(x):
    if isinstance(x, (bytes, bytearray)):
        return "b:" + bytes(x).decode("latin-1")
    if isinstance(x, (list, tuple)):
        return [_jsonable(i) for i in x]
    if isinstance(x, (set, frozenset)):
        return sorted((_jsonable(i) for i in x), key=repr)
    if isinstance(x, dict):
        return {str(k if not isinstance(k, bytes) else "b:" + k.decode("latin-1")): _jsonable(v) for k, v in x.items()}
    if isinstance(x, (str, int, bool)) or x is None:
        return x
    if isinstance(x, float):
        return x if x == x and abs(x) != float("inf") else repr(x)
    return repr(x)


def unjson(x):
    """Inverse of _jsonable for bytes markers (used by replay)."""
    if isinstance(x, str) and x.startswith("b:"):
        return x[2:].encode("latin-1")
    if isinstance(x, list):
        return [unjson(i) for i in x]
    if isinstance(x, dict):
        return {k: unjson(v) for k, v in x.items()}
    return x


def _in_twisted(fn):
    return (fn.startswith("/repo/") or fn.startswith(os.environ.get("VERIF_REPO_SRC", "/repo/"))) and "/twisted/" in fn


def _crash_origin(tb):
    """(through_twisted, where).  True when the innermost frame is Twisted code, or when the
    exception was raised by a harness callback and travelled out *through* Twisted frames
    (Twisted failed to contain it)."""
    frames = []
    while tb is not None:
        frames.append(tb.tb_frame.f_code)
        tb = tb.tb_next
    if not frames:
        return False, "?"
    last = frames[-1]
    if _in_twisted(last.co_filename):
        return True, "%s:%s" % (os.path.basename(last.co_filename), last.co_name)
    tw = [c for c in frames if _in_twisted(c.co_filename)]
    if tw:
        return True, "escaped-through:%s:%s" % (os.path.basename(tw[-1].co_filename), tw[-1].co_name)
    return False, "%s:%s" % (os.path.basename(last.co_filename), last.co_name)


def _work(args):
    modname, shard, tier, seed = args
    sys.setrecursionlimit(1000)
    mod = importlib.import_module(modname)
    t0 = time.time()
    try:
        st = mod.run_shard(shard, tier, seed)
        if st is None:
            st = Stats()
    except BaseException as e:  # noqa
        st = Stats()
        in_repo, where = _crash_origin(e.__traceback__)
        tbs = traceback.format_exc()
        internal = type(e).__name__ in ("NondeterminismLeak", "_Abort", "Crash", "Deadlock", "KeyboardInterrupt", "MemoryError")
        if in_repo and not internal:
            st.violation("crash:%s@%s" % (type(e).__name__, where),
                         {"traceback": tbs[-3000:]}, {"shard": _jsonable(shard)})
        else:
            st.counters["harness_errors"] = 1
            st.notes.append("HARNESS ERROR in shard %r:\n%s" % (shard, tbs[-3000:]))
    st.counters["shard_s_max"] = time.time() - t0
    return st


def load_known(pid):
    path = os.path.join(ROOT, "known_findings.json")
    if not os.path.exists(path):
        return []
    data = json.load(open(path))
    out = [f for f in data.get("findings", []) if f.get("property") == pid]
    # per-property staging files (merged into known_findings.json by tools/merge_known.py)
    kp = os.path.join(ROOT, "known", pid + ".json")
    if os.path.exists(kp):
        out += [f for f in json.load(open(kp)).get("findings", []) if f.get("property") == pid]
    return out


def split(items, n):
    """Deal a list into n round-robin shards (lists), dropping empty ones."""
    items = list(items)
    out = [items[i::n] for i in range(n)]
    return [o for o in out if o]


def validate_evidence(path):
    schema = "/root/.vp/EVIDENCE.schema.json"
    if not os.path.exists(schema):
        schema = os.path.join(ROOT, "schemas", "EVIDENCE.schema.json")
    code = ("import json,jsonschema,sys;"
            "jsonschema.validate(json.load(open(sys.argv[1])),json.load(open(sys.argv[2])))")
    try:
        p = subprocess.run(["python3-vt", "-c", code, path, schema], capture_output=True, text=True, timeout=60)
    except (OSError, subprocess.TimeoutExpired):
        return None
    return p.returncode == 0 or p.stderr[-1500:]


def main(argv=None):
    ap = argparse.ArgumentParser()
    ap.add_argument("pid")
    ap.add_argument("--tier", default=os.environ.get("VERIF_TIER") or "quick", choices=["quick", "thorough"])
    ap.add_argument("--replay")
    ap.add_argument("--jobs", type=int, default=int(os.environ.get("VERIF_JOBS", "0")) or min(16, os.cpu_count() or 1))
    ap.add_argument("--shard", help="run only the shard with this index (debug)")
    a = ap.parse_args(argv)
    if not os.environ.get("VERIF_JOBS"):
        # development aid only: when the machine is badly oversubscribed (many
        # checks being developed at once) use fewer workers; never changes what is explored
        try:
            load = os.getloadavg()[0]
        except OSError:
            load = 0
        if load > 40:
            a.jobs = min(a.jobs, 4)
        elif load > 20:
            a.jobs = min(a.jobs, 8)
    try:
        seed = int(os.environ.get("VERIF_SEED", "0") or 0)
    except ValueError:
        seed = 0
    pid = a.pid
    sys.path.insert(0, ROOT)
    modname = "checks." + pid
    mod = importlib.import_module(modname)

    if a.replay:
        return do_replay(mod, pid, a.replay)

    t0 = time.time()
    eff_tier = "thorough" if (a.tier == "quick" and pid in QUICK_RUNS_THOROUGH_BOUNDS) else a.tier
    shards = list(mod.shards(eff_tier, seed))
    if a.shard is not None:
        shards = [shards[int(a.shard)]]
    # the seed only rotates the order in which shards are handed out
    if shards:
        r = seed % len(shards)
        shards = shards[r:] + shards[:r]
    total = Stats()
    work = [(modname, s, eff_tier, seed) for s in shards]
    if a.jobs <= 1 or len(work) <= 1:
        for w in work:
            total.merge(_work(w))
    else:
        ctx = multiprocessing.get_context("fork")
        # Overall deadline: a broken tree can make an exploration blow up or spin.  When it
        # expires the shards finished so far are reported (violations found are still violations);
        # without any violation an expired deadline is a harness error, never a pass.
        deadline = t0 + float(os.environ.get("VERIF_DEADLINE", "1500" if a.tier == "quick" else "14400"))
        with ctx.Pool(min(a.jobs, len(work))) as pool:
            it = pool.imap_unordered(_work, work, chunksize=1)
            done = 0
            while done < len(work):
                try:
                    st = it.next(timeout=max(1.0, deadline - time.time()))
                except multiprocessing.TimeoutError:
                    total.exhaustive = False
                    total.counters["shards_unfinished_at_deadline"] = len(work) - done
                    total.notes.append("DEADLINE: %d of %d shards unfinished after %.0f s" % (len(work) - done, len(work), time.time() - t0))
                    pool.terminate()
                    break
                total.merge(st)
                done += 1
    wall = time.time() - t0

    known = load_known(pid)
    exit_code = 0
    seen_sigs = {}
    for v in total.violations:
        seen_sigs.setdefault(v["sig"], v)
    unlisted = 0
    for sig, v in sorted(seen_sigs.items()):
        k = next((f for f in known if f["signature"] == sig), None)
        if k is not None:
            print("KNOWN-FINDING: property=%s %s [%s]" % (pid, k.get("what", sig), sig))
            continue
        unlisted += 1
        body = {"property": pid, "signature": sig, "detail": _jsonable(v["detail"]),
                "witness": _jsonable(v["witness"]), "tier": a.tier, "seed": seed}
        h = hashlib.sha1(json.dumps([sig, body["witness"]], sort_keys=True).encode()).hexdigest()[:10]
        os.makedirs(os.path.join(ROOT, "replays"), exist_ok=True)
        rp = os.path.join(ROOT, "replays", "%s-%s.json" % (pid, h))
        with open(rp, "w") as f:
            json.dump(body, f, indent=1, sort_keys=True)
        print("VIOLATION property=%s replay=%s" % (pid, rp))
        print("  signature: %s" % sig)
        print("  detail: %s" % json.dumps(body["detail"])[:600])
        exit_code = 1

    level = mod.LEVEL
    cov = {
        "evaluations": total.evaluations,
        "distinct_nontrivial": len(total.nontrivial),
        "rule": mod.RULE,
        "samples": _jsonable(total.samples) or ["(none)"],
        "exhaustive": bool(total.exhaustive),
        "distinct_outcomes": len(total.outcomes),
        "outcomes": sorted(total.outcomes)[:40],
        "counters": {k: (round(v, 3) if isinstance(v, float) else v) for k, v in sorted(total.counters.items())},
        "shards": len(shards),
        "bounds": getattr(mod, "BOUNDS", {}).get(eff_tier, "") + (" (the quick tier of this check runs its thorough bounds)" if eff_tier != a.tier else ""),
    }
    if level == "model_checking":
        cov["states"] = total.states
        cov["transitions"] = total.transitions
        cov["traces_validated_against_impl"] = total.traces
        if not total.evaluations:
            cov["evaluations"] = total.transitions
    ev = {
        "property_id": pid, "tier": a.tier, "seed": seed, "level": level, "coverage": cov,
        "assumptions": list(getattr(mod, "ASSUMPTIONS", [])), "wall_s": round(wall, 3),
        "violations": unlisted,
        "known_findings_reported": sorted(s for s in seen_sigs if any(f["signature"] == s for f in known)),
    }
    # a run against a scratch tree (VERIF_REPO_SRC: evaluation of a seeded change) must not replace the
    # evidence of /repo itself: its record goes to the ignored scratch/ directory
    edir = os.path.join(ROOT, "scratch", "evidence") if os.environ.get("VERIF_REPO_SRC") else os.path.join(ROOT, "evidence")
    os.makedirs(edir, exist_ok=True)
    ep = os.path.join(edir, pid + ".json")
    with open(ep, "w") as f:
        json.dump(ev, f, indent=1, sort_keys=True)
    ok = validate_evidence(ep)
    if ok not in (True, None):
        print("HARNESS ERROR: evidence does not validate: %s" % ok)
        exit_code = exit_code or 3

    for n in total.notes:
        print(n)
    if total.counters.get("shards_unfinished_at_deadline") and exit_code == 0:
        print("HARNESS ERROR: deadline expired with unfinished shards and no violation found")
        exit_code = 3
    if total.counters.get("harness_errors"):
        print("HARNESS ERROR: %d shard(s) failed inside the harness" % total.counters["harness_errors"])
        exit_code = exit_code or 3
    # vacuity guards
    mins = getattr(mod, "MIN", {}).get(eff_tier, {})
    for key, need in mins.items():
        have = {"evaluations": cov["evaluations"], "nontrivial": len(total.nontrivial),
                "outcomes": len(total.outcomes), "states": total.states,
                "transitions": total.transitions}.get(key, total.counters.get(key, 0))
        if have < need and a.shard is None:
            print("HARNESS ERROR: vacuity guard: %s=%s < %s" % (key, have, need))
            exit_code = exit_code or 3
    print("%s %s: eval=%d states=%d trans=%d nontrivial=%d outcomes=%d exhaustive=%s wall=%.1fs -> %s" % (
        pid, a.tier, cov["evaluations"], total.states, total.transitions, len(total.nontrivial),
        len(total.outcomes), total.exhaustive, wall, {0: "PASS", 1: "VIOLATION", 3: "HARNESS-ERROR"}[exit_code]))
    return exit_code


def do_replay(mod, pid, path):
    body = json.load(open(path))
    w = unjson(body["witness"])
    if not hasattr(mod, "replay"):
        print("check %s has no replay()" % pid)
        return 3
    r1 = _jsonable(mod.replay(w))
    r2 = _jsonable(mod.replay(w))
    if r1 != r2:
        print("HARNESS ERROR: replay is not deterministic:\n%r\n%r" % (r1, r2))
        return 3
    sigs = [v[0] for v in r1]
    print("replay %s: %s" % (path, json.dumps(r1)[:2000]))
    if body["signature"] in sigs:
        print("VIOLATION property=%s replay=%s" % (pid, path))
        return 1
    print("replay: violation %r not reproduced (got %r)" % (body["signature"], sigs))
    return 0


if __name__ == "__main__":
    sys.exit(main())
