"""In-memory transports and helpers shared by protocol-level checks."""
from __future__ import annotations
from zope.interface import implementer
from twisted.internet import interfaces
from twisted.internet.address import IPv4Address


@implementer(interfaces.ITCPTransport, interfaces.IConsumer, interfaces.IPushProducer)
class MemTransport:
    """Recording transport.  ``written`` collects bytes written while connected;
    ``disconnecting`` mirrors a real TCP transport; producers are recorded and
    can be driven by the harness (``pull()`` calls resumeProducing on a pull
    producer until it unregisters or ``limit`` calls have been made)."""

    def __init__(self, host=None, peer=None):
        self.written = []          # chunks
        self.disconnecting = False
        self.disconnected = False
        self.aborted = False
        self.producer = None
        self.streaming = None
        self.producerState = "producing"   # of *this transport as a producer for the protocol*
        self.events = []           # ("write", n) / ("lose",) / ("abort",) / pause / resume
        self.host = host or IPv4Address("TCP", "10.0.0.1", 1234)
        self.peer = peer or IPv4Address("TCP", "10.0.0.2", 4321)
        self.protocol = None
        self.closeWrites = 0

    # ITransport
    def write(self, data):
        if not isinstance(data, (bytes, bytearray)):
            raise TypeError("Data must be bytes")
        if self.disconnected or self.disconnecting:
            self.events.append(("write-after-close", len(data)))
            return
        if data:
            self.written.append(bytes(data))

    def writeSequence(self, seq):
        self.write(b"".join(seq))

    def loseConnection(self):
        self.events.append(("lose",))
        self.disconnecting = True

    def abortConnection(self):
        self.events.append(("abort",))
        self.disconnecting = True
        self.aborted = True

    def loseWriteConnection(self):
        self.closeWrites += 1
        self.events.append(("losewrite",))

    def getPeer(self):
        return self.peer

    def getHost(self):
        return self.host

    def getTcpNoDelay(self):
        return False

    def setTcpNoDelay(self, enabled):
        pass

    def getTcpKeepAlive(self):
        return False

    def setTcpKeepAlive(self, enabled):
        pass

    # IConsumer
    def registerProducer(self, producer, streaming):
        if self.producer is not None:
            raise RuntimeError("Cannot register producer %r, because producer %r was never unregistered" % (producer, self.producer))
        self.producer = producer
        self.streaming = streaming
        self.events.append(("registerProducer", bool(streaming)))

    def unregisterProducer(self):
        self.producer = None
        self.streaming = None
        self.events.append(("unregisterProducer",))

    def pull(self, limit=10000):
        n = 0
        while self.producer is not None and not self.streaming and n < limit:
            self.producer.resumeProducing()
            n += 1
        return n

    # IPushProducer (towards the protocol reading from us)
    def pauseProducing(self):
        self.producerState = "paused"
        self.events.append(("pauseProducing",))

    def resumeProducing(self):
        self.producerState = "producing"
        self.events.append(("resumeProducing",))

    def stopProducing(self):
        self.producerState = "stopped"
        self.events.append(("stopProducing",))

    # helpers
    def value(self):
        return b"".join(self.written)

    def clear(self):
        self.written[:] = []


def connect(protocol, transport=None):
    t = transport or MemTransport()
    t.protocol = protocol
    protocol.makeConnection(t)
    return t


def deliver(protocol, transport, segments, stop_on_close=True):
    """Deliver segments one by one; like a real reactor, stop delivering once
    the protocol asked to close.  Returns number of segments delivered."""
    n = 0
    for seg in segments:
        if stop_on_close and (transport.disconnecting or transport.disconnected):
            break
        protocol.dataReceived(seg)
        n += 1
    return n
