"""Stateless, deviation-bounded enumeration (the guidance idiom).

A harness is ``run(ch)``; every nondeterministic decision inside it is
``ch.choose(n, label, free=False)``.  Index 0 is the default answer.  ``explore``
replays a prefix, takes 0 afterwards, and recurses over every later point and
every alternative.  A non-free alternative costs one deviation; executions
whose deviations would exceed ``bound`` are not generated.  ``bound=None``
enumerates the full tree.
"""
from __future__ import annotations


class NondeterminismLeak(Exception):
    """A replayed prefix asked for a choice that is out of range: the harness
    is not deterministic given its choices.  Hard error, never a violation."""


class Chooser:
    __slots__ = ("prefix", "trace", "labels")

    def __init__(self, prefix=()):
        self.prefix = list(prefix)
        self.trace = []  # (n, chosen, free)
        self.labels = []

    def choose(self, n, label=None, free=False):
        if n <= 0:
            raise ValueError("choose(n) needs n >= 1")
        i = len(self.trace)
        if i < len(self.prefix):
            c = self.prefix[i]
            if c >= n:
                raise NondeterminismLeak(
                    "choice %d: replay wants %d of %d (%r)" % (i, c, n, label)
                )
        else:
            c = 0
        self.trace.append((n, c, free))
        self.labels.append(label)
        return c

    def pick(self, seq, label=None, free=False):
        return seq[self.choose(len(seq), label, free)]

    @property
    def choices(self):
        return [t[1] for t in self.trace]

    @property
    def deviations(self):
        return sum(1 for (n, c, free) in self.trace if c and not free)


def explore(run, bound=None, prefix=(), prefix_dev=0):
    """Yield ``(chooser, result)`` for every execution of ``run`` within the
    deviation bound.  Depth-first, no state kept besides the work stack."""
    stack = [(list(prefix), prefix_dev)]
    while stack:
        pre, dev = stack.pop()
        ch = Chooser(pre)
        res = run(ch)
        if len(ch.trace) < len(pre):
            raise NondeterminismLeak("execution shorter than its replayed prefix")
        yield ch, res
        tr = ch.trace
        # push in reverse so that alternatives are visited simplest-first
        for i in range(len(tr) - 1, len(pre) - 1, -1):
            n, c, free = tr[i]
            d = dev if free else dev + 1
            if bound is not None and d > bound:
                continue
            base = [t[1] for t in tr[:i]]
            for alt in range(n - 1, 0, -1):
                stack.append((base + [alt], d))


def first_level(run):
    """Number of alternatives at the first choice point (for sharding)."""
    ch = Chooser(())
    run(ch)
    return ch.trace[0][0] if ch.trace else 1


def compositions(n):
    """All compositions of n (ordered tuples of positive ints summing to n)."""
    if n == 0:
        yield ()
        return
    for mask in range(1 << (n - 1)):
        parts, run_ = [], 1
        for b in range(n - 1):
            if mask >> b & 1:
                parts.append(run_)
                run_ = 1
            else:
                run_ += 1
        parts.append(run_)
        yield tuple(parts)


def cuts(data, k):
    """Every way to cut ``data`` at exactly 0..k interior positions."""
    import itertools

    n = len(data)
    yield (data,)
    for r in range(1, k + 1):
        for pos in itertools.combinations(range(1, n), r):
            out, last = [], 0
            for p in pos:
                out.append(data[last:p])
                last = p
            out.append(data[last:])
            yield tuple(out)


def segmentations(data, k=1, full_below=12):
    """All compositions when short, else whole + byte-at-a-time + <=k cuts."""
    n = len(data)
    if n == 0:
        yield (data,)
        return
    if n <= full_below:
        for comp in compositions(n):
            out, i = [], 0
            for c in comp:
                out.append(data[i : i + c])
                i += c
            yield tuple(out)
        return
    seen_bytewise = False
    for seg in cuts(data, k):
        yield seg
    yield tuple(data[i : i + 1] for i in range(n))


def shard_prefixes(run, depth, bound=None):
    """Partition the execution tree below the root into disjoint sub-trees given
    by choice prefixes of length <= depth.  Returns [(prefix, deviations)]; feed each
    to ``explore(run, bound, prefix, deviations)``.  Executions shorter than
    ``depth`` become their own (complete) prefix."""
    out = []
    stack = [([], 0)]
    while stack:
        pre, dev = stack.pop()
        ch = Chooser(pre)
        run(ch)
        tr = ch.trace
        cut = min(depth, len(tr))
        out.append(([t[1] for t in tr[:cut]], dev))
        for i in range(cut - 1, len(pre) - 1, -1):
            n, c, free = tr[i]
            d = dev if free else dev + 1
            if bound is not None and d > bound:
                continue
            base = [t[1] for t in tr[:i]]
            for alt in range(n - 1, 0, -1):
                stack.append((base + [alt], d))
    return out
