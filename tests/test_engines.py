"""Self-tests of the exploration engines on toy systems with a known answer.
Run: cd /verif && PYTHONPATH=/verif /venv/bin/python -m pytest -q tests/test_engines.py"""
import os, shutil, sys
sys.path.insert(0, os.path.dirname(os.path.dirname(os.path.abspath(__file__))))
from mc.choice import Chooser, explore, shard_prefixes, compositions, cuts, NondeterminismLeak
from mc.bfs import bfs
from mc.sched import Sched, CoopLock
from mc.crashfs import CrashFS, Crash, crash_plans


def test_explore_enumerates_the_full_tree_and_bounds_deviations():
    def run(ch):
        return (ch.choose(3, "a"), ch.choose(2, "b"))
    assert sorted(r for _, r in explore(run, None)) == [(a, b) for a in range(3) for b in range(2)]
    assert sorted(r for _, r in explore(run, 1)) == [(0, 0), (0, 1), (1, 0), (2, 0)]
    assert sorted(r for _, r in explore(run, 0)) == [(0, 0)]


def test_shard_prefixes_partition_the_tree():
    def run(ch):
        n = 2 + ch.choose(2, "len")
        return tuple(ch.choose(2, "x") for _ in range(n))
    whole = sorted(r for _, r in explore(run, None))
    parts = []
    for pre, dev in shard_prefixes(run, 2, None):
        parts += [r for _, r in explore(run, None, prefix=pre, prefix_dev=dev)]
    assert sorted(parts) == whole and len(parts) == len(set(parts))


def test_replay_of_an_impossible_choice_is_a_hard_error():
    import pytest
    with pytest.raises(NondeterminismLeak):
        Chooser([5]).choose(2, "x")


def test_compositions_and_cuts_counts():
    assert len(list(compositions(6))) == 32
    assert len(list(cuts(b"abcdef", 1))) == 6 and len(list(cuts(b"abcdef", 2))) == 16


def test_sched_finds_the_lost_update_with_one_preemption_and_not_with_zero():
    def run(ch):
        s = Sched(ch)
        x = {"v": 0}

        def w():
            s.point("read")
            t = x["v"]
            s.point("write")
            x["v"] = t + 1
        s.spawn("a", w)
        s.spawn("b", w)
        s.run()
        return x["v"]
    assert {r for _, r in explore(run, 0)} == {2}
    assert {r for _, r in explore(run, 1)} == {1, 2}
    assert len(list(explore(run, None))) == 20


def test_sched_lock_removes_the_race_and_reports_deadlock():
    def run(ch):
        s = Sched(ch)
        x = {"v": 0}
        lock = CoopLock(s)

        def w():
            with lock:
                t = x["v"]
                s.point("mid")
                x["v"] = t + 1
        s.spawn("a", w)
        s.spawn("b", w)
        s.run()
        return x["v"]
    assert {r for _, r in explore(run, None)} == {2}

    def dead(ch):
        s = Sched(ch)
        l1, l2 = CoopLock(s, "l1"), CoopLock(s, "l2")

        def a():
            with l1:
                with l2:
                    pass

        def b():
            with l2:
                with l1:
                    pass
        s.spawn("a", a)
        s.spawn("b", b)
        s.run()
        return s.deadlock is not None
    assert {r for _, r in explore(dead, None)} == {True, False}


def test_bfs_finds_the_shortest_violation():
    # counter that may be incremented or doubled; invariant: never 6
    res = bfs(lambda: {"v": 1}, lambda st, ev: st.__setitem__("v", st["v"] + 1 if ev == "inc" else st["v"] * 2),
              lambda st: ["inc", "dbl"], lambda st: st["v"], lambda st, h: [("six", h)] if st["v"] == 6 else [], 6)
    assert res.violations and len(res.violations[0][2]) == 3      # 1 -> 2 -> 3 -> 6


def test_crashfs_sees_unflushed_data_lost_and_rename_before_close():
    base = "/dev/shm/verif-selftest-%d" % os.getpid()
    shutil.rmtree(base, ignore_errors=True)
    os.makedirs(base)
    try:
        def bad_replace():
            with open(os.path.join(base, "t.new"), "wb") as f:
                f.write(b"new")
                os.rename(os.path.join(base, "t.new"), os.path.join(base, "t"))   # before the data is flushed

        def run(plan):
            for n in os.listdir(base):
                os.remove(os.path.join(base, n))
            with open(os.path.join(base, "t"), "wb") as f:
                f.write(b"old")
            fs = CrashFS(plan, root=base)
            with fs:
                try:
                    bad_replace()
                except Crash:
                    pass
            with open(os.path.join(base, "t"), "rb") as f:
                return fs.ops, f.read()
        ops, final = run(None)
        assert final == b"new"
        seen = {run(p)[1] for p in crash_plans(ops)}
        assert b"" in seen or b"n" in seen        # a crash after the early rename exposes a partial file
    finally:
        shutil.rmtree(base, ignore_errors=True)
