"""Plain replay of the C13 known finding (passes while the defect is present): with a loop clock that
does not advance, three callFromThread calls on the asyncio reactor run out of order."""
from twisted.internet.asyncioreactor import AsyncioSelectorReactor


class Loop:
    def __init__(self):
        self.ready, self.timers = [], []

    def time(self):
        return 50.0

    def call_soon_threadsafe(self, cb, *a):
        self.ready.append(lambda: cb(*a))

    def call_at(self, when, cb, *a):
        h = type("H", (), {"cancel": lambda self: None})()
        self.timers.append(lambda: cb(*a))
        return h

    def add_reader(self, *a): pass
    def remove_reader(self, *a): return True
    def add_writer(self, *a): pass
    def remove_writer(self, *a): return True
    def stop(self): pass


def test_equal_timestamps_reorder_calls_from_one_thread():
    loop = Loop()

    class R(AsyncioSelectorReactor):
        def installWaker(self):
            pass

        def seconds(self):
            return 50.0

    r = R(loop)
    ran = []
    for i in range(4):
        r.callFromThread(ran.append, i)
    while loop.ready:
        loop.ready.pop(0)()
    loop.timers[-1]()
    assert sorted(ran) == [0, 1, 2, 3]
    assert ran != [0, 1, 2, 3], ran      # defect: issue order is not preserved
