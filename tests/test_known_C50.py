"""Plain replay (no explorer) of the C50 known finding: two processes both acquire a
FilesystemLock when they break the same stale lock.  Run: /venv/bin/python -m pytest -q /verif/tests/test_known_C50.py
The test PASSES while the defect is present (it asserts the defective behaviour) and is the
minimal schedule the check reports as KNOWN-FINDING."""
import errno
from twisted.python import lockfile


def test_two_processes_both_acquire_after_breaking_a_stale_lock(monkeypatch):
    links = {"L": "999"}            # stale lock of dead pid 999
    alive = {101, 102}
    cur = {"pid": 102}
    log = []

    def symlink(value, name):
        if name in links:
            raise OSError(errno.EEXIST, "exists")
        links[name] = value

    def readlink(name):
        if name not in links:
            raise OSError(errno.ENOENT, "gone")
        return links[name]

    def kill(pid, sig):
        if pid not in alive:
            raise OSError(errno.ESRCH, "dead")

    state = {"nested": False}

    def rmlink(name):
        # P2 has read the dead pid and is about to remove the stale link.  Before it does,
        # P1 runs its whole lock(): breaks the stale lock and acquires.
        if cur["pid"] == 102 and not state["nested"]:
            state["nested"] = True
            cur["pid"] = 101
            p1 = lockfile.FilesystemLock("L")
            assert p1.lock() is True
            log.append("P1 acquired")
            cur["pid"] = 102
        if name not in links:
            raise OSError(errno.ENOENT, "gone")
        log.append("pid %d removes link of %s" % (cur["pid"], links[name]))
        del links[name]

    class OS:
        def getpid(self):
            return cur["pid"]

        def __getattr__(self, n):
            import os
            return getattr(os, n)

    monkeypatch.setattr(lockfile, "symlink", symlink)
    monkeypatch.setattr(lockfile, "readlink", readlink)
    monkeypatch.setattr(lockfile, "kill", kill)
    monkeypatch.setattr(lockfile, "rmlink", rmlink)
    monkeypatch.setattr(lockfile, "os", OS())
    p2 = lockfile.FilesystemLock("L")
    got = p2.lock()
    # defect: P2 removed P1's *live* lock and acquired as well
    assert got is True
    assert log == ["pid 101 removes link of 999", "P1 acquired", "pid 102 removes link of 101"]
