CONSTANTS
  Procs = {100, 101}
  Stale = TRUE
INIT Init
NEXT Next
