\* Machine without prepareConnection and without whenConnected() before the first start:
\* every invariant holds (TLC: no error).
SPECIFICATION Spec
CONSTANTS
  MaxW = 2
  MaxS = 2
  MaxFails = 3
  MaxOrphans = 1
  Prepare = FALSE
  InitWaiters = FALSE
INVARIANTS
  TypeOK
  NoRejectedEvent
  AtMostOne
  Coherent
  StoppedIsQuiet
  StopsOnlyWhileClosing
  WaitersOnlyWhileNotConnected
