---------------------- MODULE C50_FilesystemLock ----------------------
(* Cross-model of twisted.python.lockfile.FilesystemLock.lock()/unlock() for C50.
   One process = the straight-line code of lock() followed (when it returned True) by a
   critical section and unlock().  Every action is exactly one intercepted filesystem call
   (symlink / readlink / kill / rmlink) or the critical-section point, as in checks/C50.py.
   `log` is a history variable: the sequence of <<process, call, outcome>> -- the terminal
   states therefore enumerate every complete behaviour of the model, and checks/_c50_tla.py
   compares that set with the set of call logs produced by the real code under the
   controlled scheduler (both directions). *)
EXTENDS Naturals, Sequences, FiniteSets

CONSTANTS Procs, Stale        \* Procs: set of pids (100, 101, ...); Stale: BOOLEAN
Dead == 999

VARIABLES link, pc, rd, log
vars == <<link, pc, rd, log>>

Init == /\ link = IF Stale THEN Dead ELSE 0
        /\ pc = [p \in Procs |-> "symlink"]
        /\ rd = [p \in Procs |-> 0]
        /\ log = <<>>

Alive(x) == x \in Procs

Symlink(p) == /\ pc[p] = "symlink"
              /\ IF link = 0
                   THEN /\ link' = p
                        /\ pc' = [pc EXCEPT ![p] = "critical"]
                        /\ log' = Append(log, <<p, "symlink", "ok">>)
                   ELSE /\ link' = link
                        /\ pc' = [pc EXCEPT ![p] = "readlink"]
                        /\ log' = Append(log, <<p, "symlink", "EEXIST">>)
              /\ rd' = rd

Readlink(p) == /\ pc[p] = "readlink"
               /\ IF link = 0
                    THEN /\ pc' = [pc EXCEPT ![p] = "symlink"]
                         /\ rd' = rd
                         /\ log' = Append(log, <<p, "readlink", "ENOENT">>)
                    ELSE /\ pc' = [pc EXCEPT ![p] = "kill"]
                         /\ rd' = [rd EXCEPT ![p] = link]
                         /\ log' = Append(log, <<p, "readlink", link>>)
               /\ link' = link

Kill(p) == /\ pc[p] = "kill"
           /\ IF Alive(rd[p])
                THEN /\ pc' = [pc EXCEPT ![p] = "failed"]       \* lock() returns False
                     /\ log' = Append(log, <<p, "kill", "ok">>)
                ELSE /\ pc' = [pc EXCEPT ![p] = "rmlink"]
                     /\ log' = Append(log, <<p, "kill", "ESRCH">>)
           /\ UNCHANGED <<link, rd>>

Rmlink(p) == /\ pc[p] = "rmlink"
             /\ IF link = 0
                  THEN /\ link' = link
                       /\ log' = Append(log, <<p, "rmlink", "ENOENT">>)
                  ELSE /\ link' = 0
                       /\ log' = Append(log, <<p, "rmlink", link>>)
             /\ pc' = [pc EXCEPT ![p] = "symlink"]
             /\ rd' = rd

Critical(p) == /\ pc[p] = "critical"
               /\ pc' = [pc EXCEPT ![p] = "u_readlink"]
               /\ UNCHANGED <<link, rd, log>>

UReadlink(p) == /\ pc[p] = "u_readlink"
                /\ IF link = 0
                     THEN /\ pc' = [pc EXCEPT ![p] = "unlock_failed"]
                          /\ log' = Append(log, <<p, "readlink", "ENOENT">>)
                     ELSE /\ pc' = [pc EXCEPT ![p] = IF link = p THEN "u_rmlink" ELSE "unlock_failed"]
                          /\ log' = Append(log, <<p, "readlink", link>>)
                /\ UNCHANGED <<link, rd>>

URmlink(p) == /\ pc[p] = "u_rmlink"
              /\ IF link = 0
                   THEN /\ link' = link
                        /\ pc' = [pc EXCEPT ![p] = "unlock_failed"]
                        /\ log' = Append(log, <<p, "rmlink", "ENOENT">>)
                   ELSE /\ link' = 0
                        /\ pc' = [pc EXCEPT ![p] = "done"]
                        /\ log' = Append(log, <<p, "rmlink", link>>)
              /\ rd' = rd

Next == \E p \in Procs : Symlink(p) \/ Readlink(p) \/ Kill(p) \/ Rmlink(p)
                          \/ Critical(p) \/ UReadlink(p) \/ URmlink(p)

Spec == Init /\ [][Next]_vars

MutualExclusion == Cardinality({p \in Procs : pc[p] = "critical"}) <= 1
HolderCanRelease == \A p \in Procs : pc[p] # "unlock_failed"
=======================================================================
