CONSTANTS
  Procs = {100, 101}
  Stale = FALSE
INIT Init
NEXT Next
INVARIANTS MutualExclusion HolderCanRelease
