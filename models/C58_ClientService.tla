------------------------- MODULE C58_ClientService -------------------------
(* Secondary cross-model of twisted.application._client_service.makeMachine  *)
(* (Twisted 24.7.0.post0).  The deciding verdict for C58 is the invariant    *)
(* evaluated by /verif/checks/C58.py on states reached by the REAL code;     *)
(* this model only documents the transition table and lets TLC confirm the   *)
(* same invariants / the same counterexamples on the abstract machine.       *)
(*                                                                           *)
(* Abstractions: Deferred.cancel() of a pending attempt fails it at once     *)
(* (so Connecting --stop--> Disconnecting --_connectionFailed--> Stopped is  *)
(* one step); waiters are counted per remaining-failure class; the failure   *)
(* counter saturates at MaxFails.                                            *)
EXTENDS Naturals

CONSTANTS MaxW,        \* waiters per class
          MaxS,        \* pending stopService Deferreds
          MaxFails,    \* saturation of failedAttempts
          MaxOrphans,  \* connections the machine has forgotten
          Prepare,     \* TRUE: a prepareConnection hook exists (may fail / pend)
          InitWaiters  \* TRUE: whenConnected() may be called before the first start

VARIABLES state, running, attempt, cur, orphans, timer, fails,
          wN, w1, w2, stops, rejected

vars == <<state, running, attempt, cur, orphans, timer, fails, wN, w1, w2, stops, rejected>>

States == {"Init", "Connecting", "Waiting", "Connected", "Disconnecting", "Restarting", "Stopped"}

Init == /\ state = "Init" /\ running = FALSE /\ attempt = "none" /\ cur = "none"
        /\ orphans = 0 /\ timer = FALSE /\ fails = 0
        /\ wN = 0 /\ w1 = 0 /\ w2 = 0 /\ stops = 0 /\ rejected = FALSE

Inc(n) == IF n < MaxFails THEN n + 1 ELSE n

(* ---- outputs ---------------------------------------------------------- *)
CancelWaiters == wN' = 0 /\ w1' = 0 /\ w2' = 0
KeepWaiters   == UNCHANGED <<wN, w1, w2>>
Reject        == rejected' = TRUE /\ UNCHANGED <<state, timer, fails, wN, w1, w2, stops>>

(* ---- machine inputs (the environment part of each action sets attempt/cur/orphans) *)
\* _connectionMade
ConnectionMade ==
    IF state = "Connecting"
    THEN /\ state' = "Connected" /\ fails' = 0 /\ CancelWaiters   \* unawait(protocol)
         /\ UNCHANGED <<timer, stops, rejected>>
    ELSE Reject

\* _connectionFailed
ConnectionFailed ==
    CASE state = "Connecting" ->
            /\ state' = "Waiting" /\ fails' = Inc(fails) /\ timer' = TRUE
            /\ w1' = w2 /\ w2' = 0 /\ wN' = wN                   \* failedWhenConnecting
            /\ UNCHANGED <<stops, rejected>>
      [] state = "Connected" ->
            /\ state' = "Waiting" /\ fails' = Inc(fails) /\ timer' = TRUE
            /\ KeepWaiters /\ UNCHANGED <<stops, rejected>>
      [] state = "Disconnecting" ->
            /\ state' = "Stopped" /\ CancelWaiters /\ stops' = 0
            /\ UNCHANGED <<timer, fails, rejected>>
      [] OTHER -> Reject

\* _clientDisconnected (the machine cannot tell which connection was lost)
ClientDisconnected ==
    CASE state = "Connected" ->
            /\ state' = "Waiting" /\ fails' = Inc(fails) /\ timer' = TRUE
            /\ KeepWaiters /\ UNCHANGED <<stops, rejected>>
      [] state = "Disconnecting" ->
            /\ state' = "Stopped" /\ CancelWaiters /\ stops' = 0
            /\ UNCHANGED <<timer, fails, rejected>>
      [] state = "Restarting" ->
            /\ state' = "Connecting" /\ stops' = 0 /\ KeepWaiters
            /\ UNCHANGED <<timer, fails, rejected>>
      [] OTHER -> Reject

(* ---- actions ------------------------------------------------------------ *)
Start ==
    /\ ~running /\ running' = TRUE           \* ClientService.startService ignores duplicates
    /\ CASE state \in {"Init", "Stopped"} ->
              /\ state' = "Connecting" /\ attempt' = "pending"
         [] state \in {"Disconnecting", "Restarting"} ->
              /\ state' = "Restarting" /\ UNCHANGED attempt
         [] OTHER -> UNCHANGED <<state, attempt>>
    /\ UNCHANGED <<cur, orphans, timer, fails, wN, w1, w2, stops, rejected>>

Stop ==
    /\ running' = FALSE
    /\ CASE state \in {"Init", "Stopped"} ->
              /\ state' = "Stopped"
              /\ UNCHANGED <<attempt, cur, orphans, timer, wN, w1, w2, stops>>
         [] state = "Connecting" ->
              \* attempt.cancel(): the attempt (or the hook's Deferred) fails at once,
              \* _connectionFailed is handled in Disconnecting
              /\ state' = "Stopped" /\ attempt' = "none" /\ CancelWaiters /\ stops' = 0
              /\ IF attempt = "preparing"
                 THEN cur' = "none" /\ orphans' = orphans + 1     \* nobody closes it
                 ELSE UNCHANGED <<cur, orphans>>
              /\ UNCHANGED timer
         [] state = "Waiting" ->
              /\ state' = "Stopped" /\ timer' = FALSE /\ CancelWaiters /\ stops' = 0
              /\ UNCHANGED <<attempt, cur, orphans>>
         [] state = "Connected" ->
              /\ state' = "Disconnecting" /\ cur' = "closing" /\ stops' = stops + 1
              /\ UNCHANGED <<attempt, orphans, timer, wN, w1, w2>>
         [] state \in {"Disconnecting", "Restarting"} ->
              /\ state' = "Disconnecting" /\ stops' = stops + 1
              /\ UNCHANGED <<attempt, cur, orphans, timer, wN, w1, w2>>
    /\ stops < MaxS
    /\ (state = "Connecting" /\ attempt = "preparing" => orphans < MaxOrphans)
    /\ UNCHANGED <<fails, rejected>>

WhenConnected(k) ==      \* k = 0: no limit
    /\ state \notin {"Connected", "Stopped"}    \* there the Deferred fires at once
    /\ (state = "Init" => InitWaiters)
    /\ CASE k = 0 -> wN < MaxW /\ wN' = wN + 1 /\ UNCHANGED <<w1, w2>>
         [] k = 1 -> w1 < MaxW /\ w1' = w1 + 1 /\ UNCHANGED <<wN, w2>>
         [] k = 2 -> w2 < MaxW /\ w2' = w2 + 1 /\ UNCHANGED <<wN, w1>>
    /\ UNCHANGED <<state, running, attempt, cur, orphans, timer, fails, stops, rejected>>

AttemptOK ==
    /\ attempt = "pending"
    /\ IF Prepare
       THEN /\ attempt' = "preparing" /\ cur' = "open"
            /\ UNCHANGED <<state, timer, fails, wN, w1, w2, stops, rejected>>
       ELSE /\ attempt' = "none" /\ cur' = "open" /\ ConnectionMade
    /\ UNCHANGED <<running, orphans>>

AttemptFail ==
    /\ attempt = "pending" /\ attempt' = "none"
    /\ ConnectionFailed
    /\ UNCHANGED <<running, cur, orphans>>

PrepareOK ==
    /\ attempt = "preparing" /\ attempt' = "none"
    /\ ConnectionMade
    /\ UNCHANGED <<running, cur, orphans>>

PrepareFail ==
    /\ attempt = "preparing" /\ attempt' = "none"
    /\ IF cur = "open" /\ orphans < MaxOrphans
       THEN cur' = "none" /\ orphans' = orphans + 1     \* rejected, never closed
       ELSE UNCHANGED <<cur, orphans>>
    /\ (cur = "open" => orphans < MaxOrphans)
    /\ ConnectionFailed
    /\ UNCHANGED running

TimerFires ==
    /\ timer /\ timer' = FALSE
    /\ IF state = "Waiting"
       THEN /\ state' = "Connecting" /\ attempt' = "pending"
            /\ UNCHANGED <<fails, wN, w1, w2, stops, rejected>>
       ELSE /\ rejected' = TRUE /\ UNCHANGED <<state, attempt, fails, wN, w1, w2, stops>>
    /\ UNCHANGED <<running, cur, orphans>>

CurLost ==
    /\ cur # "none" /\ cur' = "none"
    /\ ClientDisconnected
    /\ attempt' = IF state' = "Connecting" /\ state # "Connecting" THEN "pending" ELSE attempt
    /\ UNCHANGED <<running, orphans>>

OrphanLost ==
    /\ orphans > 0 /\ orphans' = orphans - 1
    /\ ClientDisconnected
    /\ attempt' = IF state' = "Connecting" /\ state # "Connecting" THEN "pending" ELSE attempt
    /\ UNCHANGED <<running, cur>>

Next == \/ Start \/ Stop \/ \E k \in 0..2 : WhenConnected(k)
        \/ AttemptOK \/ AttemptFail \/ PrepareOK \/ PrepareFail
        \/ TimerFires \/ CurLost \/ OrphanLost

Spec == Init /\ [][Next]_vars

(* ---- invariants ---------------------------------------------------------- *)
TypeOK == /\ state \in States /\ running \in BOOLEAN
          /\ attempt \in {"none", "pending", "preparing"}
          /\ cur \in {"none", "open", "closing"}
          /\ orphans \in 0..MaxOrphans /\ timer \in BOOLEAN /\ fails \in 0..MaxFails
          /\ wN \in 0..MaxW /\ w1 \in 0..MaxW /\ w2 \in 0..MaxW /\ stops \in 0..MaxS
          /\ rejected \in BOOLEAN

\* "no event is rejected as invalid for the service's state"
NoRejectedEvent == ~rejected

\* "never more than one open connection or attempt in progress"
AtMostOne == (IF attempt = "pending" THEN 1 ELSE 0) + (IF cur # "none" THEN 1 ELSE 0) + orphans <= 1

\* the machine's idea of the world matches the world
Coherent ==
    /\ (state = "Connected" => cur = "open" /\ attempt = "none")
    /\ (state \in {"Disconnecting", "Restarting"} => cur = "closing")
    /\ (state = "Connecting" => attempt # "none")
    /\ (timer <=> state = "Waiting")
    /\ (state \in {"Init", "Stopped", "Waiting"} => cur = "none" /\ attempt = "none")

\* "every whenConnected Deferred fires no later than ... the stop of the service";
\* "every stopService Deferred fires once any connection is closed"
StoppedIsQuiet == state = "Stopped" => wN + w1 + w2 = 0 /\ stops = 0 /\ orphans = 0
StopsOnlyWhileClosing == stops > 0 => state \in {"Disconnecting", "Restarting"}
WaitersOnlyWhileNotConnected == state = "Connected" => wN + w1 + w2 = 0
=============================================================================
