\* With a prepareConnection hook and early waiters TLC reproduces the C58 known findings
\* (expected: invariant violations; e.g. NoRejectedEvent = connection lost while preparing,
\* AtMostOne = rejected connection left open, StoppedIsQuiet = waiter from Init survives stop).
SPECIFICATION Spec
CONSTANTS
  MaxW = 1
  MaxS = 2
  MaxFails = 2
  MaxOrphans = 1
  Prepare = TRUE
  InitWaiters = TRUE
INVARIANTS
  TypeOK
  NoRejectedEvent
  AtMostOne
  StoppedIsQuiet
