"""C50 cross-model: TLC enumerates every complete behaviour of models/C50_FilesystemLock.tla (the `log`
history variable of every terminal state); the real lock()/unlock() code is explored exhaustively under
the controlled scheduler; the two sets of filesystem-call logs must be equal (each model trace is a real
trace and vice versa) and the model's verdicts (two holders / unlock failure reachable) must agree."""
import os, re, shutil, subprocess, tempfile

MODELS = os.path.join(os.path.dirname(os.path.dirname(os.path.abspath(__file__))), "models")
TERMINAL = {"done", "failed", "unlock_failed"}


def model_traces(stale):
    if shutil.which("tlc") is None:
        return None
    tmp = tempfile.mkdtemp(prefix="verif-C50-tlc-", dir="/dev/shm")
    try:
        cfg = os.path.join(tmp, "m.cfg")
        with open(cfg, "w") as f:
            f.write("CONSTANTS\n  Procs = {100, 101}\n  Stale = %s\nINIT Init\nNEXT Next\n" % ("TRUE" if stale else "FALSE"))
        shutil.copy(os.path.join(MODELS, "C50_FilesystemLock.tla"), tmp)
        p = subprocess.run(["tlc", "-workers", "2", "-deadlock", "-noGenerateSpecTE", "-metadir", os.path.join(tmp, "meta"),
                            "-config", cfg, "-dump", os.path.join(tmp, "states"), "C50_FilesystemLock.tla"],
                           cwd=tmp, capture_output=True, text=True, timeout=900)
        if "Model checking completed" not in p.stdout:
            raise RuntimeError("TLC failed: " + p.stdout[-800:] + p.stderr[-400:])
        text = open(os.path.join(tmp, "states.dump")).read()
        traces, two_holders, unlock_failed, nstates = set(), False, False, 0
        for block in text.split("State ")[1:]:
            nstates += 1
            pcs = re.findall(r':> "(\w+)"', block.split("/\\ pc =")[1].split("\n")[0])
            if pcs.count("critical") > 1:
                two_holders = True
            if "unlock_failed" in pcs:
                unlock_failed = True
            if all(x in TERMINAL for x in pcs):
                logtxt = block.split("/\\ log =")[1]
                ents = re.findall(r'<<(\d+), "(\w+)", ("?\w+"?)>>', logtxt)
                traces.add(tuple((int(a), b, c.strip('"')) for a, b, c in ents))
        return {"traces": traces, "two_holders": two_holders, "unlock_failed": unlock_failed, "states": nstates}
    finally:
        shutil.rmtree(tmp, ignore_errors=True)


def impl_traces(stale):
    from mc.choice import explore
    from checks.C50 import run_one
    traces, two, unl = set(), False, False
    n = 0
    for ch, (bad, oplog, collided, steps, nacq) in explore(lambda c: run_one(c, 2, 1, stale, False), None):
        n += 1
        traces.add(tuple((p, op, str(res)) for p, op, res in oplog))
        for sig, _ in bad:
            two = two or sig.startswith("two-holders")
            unl = unl or sig.startswith("holder-cannot-release")
    return {"traces": traces, "two_holders": two, "unlock_failed": unl, "schedules": n}


def compare(stale):
    m = model_traces(stale)
    if m is None:
        return None
    i = impl_traces(stale)
    only_model = sorted(m["traces"] - i["traces"])[:3]
    only_impl = sorted(i["traces"] - m["traces"])[:3]
    return {"stale": stale, "model_states": m["states"], "model_traces": len(m["traces"]), "impl_traces": len(i["traces"]),
            "impl_schedules": i["schedules"], "only_in_model": only_model, "only_in_impl": only_impl,
            "verdict_model": [m["two_holders"], m["unlock_failed"]], "verdict_impl": [i["two_holders"], i["unlock_failed"]],
            "agree": not only_model and not only_impl and [m["two_holders"], m["unlock_failed"]] == [i["two_holders"], i["unlock_failed"]]}


if __name__ == "__main__":
    import sys, json
    sys.path.insert(0, os.path.dirname(os.path.dirname(os.path.abspath(__file__))))
    for st in (False, True):
        print(json.dumps(compare(st), indent=1)[:1500])
