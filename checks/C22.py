"""C22 chunked transfer coding: round trip over every split, data loss on truncation, rejection of the
three malformed classes the statement names -- on the real _ChunkedTransferDecoder, oracle = strict
RFC 9112 section 7.1 reference decoder (checks/_http.py: ref_chunked) plus the generator's own ground truth."""
import itertools

from mc.runner import Stats
from checks._http import ref_chunked

ID = "C22"
LEVEL = "exploration"
TECHNIQUE = "bounded-exhaustive input x segmentation enumeration with a reference decoder"
RULE = ("valid half: every encoding from the grammar (<=3 chunks of 1/2/10/16 bytes whose data imitates chunk framing; "
        "size in lower/upper/zero-padded hex; 6 extension forms incl. quoted-string containing ';' (quoted-pair is excluded: Twisted documents the backslash as a disallowed extension byte); last-chunk 0/00; "
        "0-2 trailer fields; 4 kinds of extra bytes) x every split in the tier's cut bound (all compositions when <=12 bytes) "
        "and byte-at-a-time; plus every truncation point of every encoding (whole and byte-at-a-time) followed by noMoreData; "
        "plus size-limit probes AT the limits (longest size line / last-chunk line / trailer section accepted in one piece, and one byte shorter) with every 1- and 2-cut in the last 16 bytes. rejection half: every single-byte replacement from a "
        "17-byte alphabet, every single-byte deletion, every CRLF deletion and two insertions at every position of 64 base "
        "encodings, each delivered whole, byte-at-a-time and with every 1-cut; the reference decides ok / tolerated / "
        "must-reject(size-not-hex, no-crlf-after-data, ext-bad-byte) / incomplete. "
        "non-trivial = distinct (encoding, set of framing elements that a cut falls strictly inside) and distinct mutants "
        "that the reference puts in a must-reject class")
BOUNDS = {"quick": "18360 encodings; <=2 cuts when <=44 bytes else 1 cut, + bytewise; 64 bases x all single-site mutations x all 1-cuts (2-cuts when <=24 bytes)",
          "thorough": "18360 encodings; <=2 cuts all lengths, <=3 cuts when <=32 bytes, + bytewise; same mutation space with every 2-cut"}
ASSUMPTIONS = [
    "the caller stops delivering once finishCallback has fired (HTTPChannel does); bytes of later deliveries count as extra",
    "'rejected' = dataReceived raises (any exception) before finishCallback; 'reports data loss' = noMoreData raises",
    "size limits: the longest chunk-size line / trailer section that the real decoder accepts in ONE piece (capped by "
    "http.maxChunkSizeLineLength / the decoder's trailer limit) counts as inside the documented limit; it and the next "
    "shorter one must decode for every cut in the last 16 bytes (incl. the CR|LF cuts)",
    "constructs a sender may not emit but RFC 9112 lets a recipient tolerate (BWS, malformed-but-clean extensions or "
    "trailer lines) may be rejected or decoded; when decoded the body must be the reference's",
]
MIN = {"quick": {"evaluations": 3700000, "nontrivial": 160000, "outcomes": 9},
       "thorough": {"evaluations": 20000000, "nontrivial": 160000, "outcomes": 9}}

SIZES = [1, 2, 10, 16]
SEQS = [()] + [s for k in (1, 2, 3) for s in itertools.product(SIZES, repeat=k)]
FMTS = ["x", "X", "03x"]
EXTS = [b"", b";x", b";x=1", b';x="a b"', b';x="a;b c"', b";x;y=2"]
TRAILERS = [(), (b"A: b",), (b"A: b", b"Cc:")]
EXTRAS = [b"", b"X", b"GET /", b"\r\n"]
REPL = b"\r\n;gG \x00\x7f-+x_\t\x0b0\"\\"


def chunk_data(size, seed):
    # data that looks like chunk framing; the seed only rotates the filler letters
    a = bytes(97 + (i + seed) % 26 for i in range(5))
    return {1: b"\r", 2: b"\r\n", 10: b"0\r\n\r\n" + a, 16: b"5\r\n" + a + b"\r\n0\r\n\r\n\r"}[size]


def build(seq, fmt, ext, last, trailers, extra, seed):
    """-> (parts [(label, bytes)], body)"""
    parts, body = [], b""
    for s in seq:
        d = chunk_data(s, seed)
        body += d
        parts.append(("size", format(s, fmt).encode() + ext))
        parts.append(("size-crlf", b"\r\n"))
        parts.append(("data", d))
        parts.append(("data-crlf", b"\r\n"))
    parts.append(("last", last + ext))
    parts.append(("last-crlf", b"\r\n"))
    for t in trailers:
        parts.append(("trailer", t))
        parts.append(("trailer-crlf", b"\r\n"))
    parts.append(("final-crlf", b"\r\n"))
    if extra:
        parts.append(("extra", extra))
    return parts, body


def label_map(parts):
    """label of the element that a cut at offset p (between byte p-1 and p) falls strictly inside, or None."""
    out, off = {}, 0
    for lab, b in parts:
        for k in range(1, len(b)):
            out[off + k] = lab
        off += len(b)
    return out


def cut_sets(n, maxcuts, full_below=12):
    """Cut-position tuples: whole, bytewise, every <=maxcuts cuts (all compositions when short)."""
    if n <= 1:
        yield ()
        return
    if n <= full_below:
        for r in range(0, n):
            yield from itertools.combinations(range(1, n), r)
        return
    for r in range(0, maxcuts + 1):
        yield from itertools.combinations(range(1, n), r)
    yield tuple(range(1, n))


def segs_of(data, cuts):
    out, last = [], 0
    for p in cuts:
        out.append(data[last:p])
        last = p
    out.append(data[last:])
    return out


def decode(segs, eof=True):
    """Run the real decoder.  -> (body, fins, order_ok, err, leftover, eof_err)"""
    from twisted.web.http import _ChunkedTransferDecoder
    body, fins, late = [], [], []

    def on_data(b):
        if fins:
            late.append(b)
        body.append(bytes(b))

    d = _ChunkedTransferDecoder(on_data, lambda rest: fins.append(bytes(rest)))
    err = None
    nd = 0
    for s in segs:
        if fins:
            break
        nd += 1
        try:
            d.dataReceived(s)
        except Exception as e:  # judged below
            err = type(e).__name__
            break
    leftover = (fins[0] if fins else b"") + b"".join(segs[nd:])
    eof_err = None
    if eof and err is None:
        try:
            d.noMoreData()
        except Exception as e:
            eof_err = type(e).__name__
    return b"".join(body), fins, not late, err, leftover, eof_err


PFX = "_ChunkedTransferDecoder:"


def culprit(data, parts, cuts=()):
    """For a valid encoding that is rejected: which element completes when the decoder raises."""
    from checks._http import _parse_ext
    from twisted.web.http import _ChunkedTransferDecoder
    d = _ChunkedTransferDecoder(lambda b: None, lambda b: None)
    k = None
    for i in range(len(data)):
        try:
            d.dataReceived(data[i:i + 1])
        except Exception:
            k = i
            break
    if k is None:      # byte-at-a-time decodes: the failure depends on where the cuts fall
        lm = label_map(parts)
        return "split-in=" + ("+".join(sorted(set(lm.get(p, "boundary") for p in cuts))) or "one-piece")
    off, prev = 0, None
    for lab, b in parts:
        if off + len(b) > k:
            if lab.endswith("-crlf") and prev is not None:   # the line before the CRLF is judged when it completes
                feats = set()
                plab, pb = prev
                semi = pb.find(b";")
                if semi >= 0:
                    _parse_ext(pb[semi:], feats)
                return "+".join(sorted(feats)) if feats else plab + "-line"
            return lab
        off += len(b)
        prev = (lab, b)
    return "end"


def judge_valid(data, enc_len, body, extra, cuts, parts):
    """Verdict for one split of a valid encoding (ground truth from the generator)."""
    segs = segs_of(data, cuts)
    got, fins, order_ok, err, leftover, eof_err = decode(segs)
    if err is not None:
        c = culprit(data, parts, cuts)
        if "ext-quoted-pair" in c:
            # backslash is one of the decoder's documented "disallowed bytes in extensions"
            # (pinned by Twisted's own tests); rejecting it is within the statement
            return []
        return [(PFX + "valid-rejected:" + c, "%s raised on %r split %r" % (err, data, cuts))]
    out = []
    if len(fins) != 1:
        out.append((PFX + ("finish-never" if not fins else "finish-twice"), "finishCallback fired %d times on %r split %r" % (len(fins), data, cuts)))
        return out
    if got != body:
        out.append((PFX + "wrong-body", "delivered %r, encoded %r (stream %r split %r)" % (got, body, data, cuts)))
    if not order_ok:
        out.append((PFX + "data-after-finish", "dataCallback after finishCallback (stream %r split %r)" % (data, cuts)))
    if leftover != extra:
        out.append((PFX + "wrong-extra", "finish got %r (+undelivered = %r), extra bytes were %r (stream %r split %r)" % (
            fins[0], leftover, extra, data, cuts)))
    if eof_err is not None:
        out.append((PFX + "data-loss-after-finish", "noMoreData raised %s after completion (stream %r split %r)" % (eof_err, data, cuts)))
    return out


def judge_trunc(prefix, body, bytewise):
    segs = [prefix[i:i + 1] for i in range(len(prefix))] if bytewise else [prefix]
    if not prefix:
        segs = []
    got, fins, order_ok, err, leftover, eof_err = decode(segs)
    w = "prefix %r%s" % (prefix, " bytewise" if bytewise else "")
    if err is not None:
        return [(PFX + "truncated-prefix-rejected", "%s raised on %s" % (err, w))]
    out = []
    if fins:
        out.append((PFX + "finish-before-last-chunk", "finishCallback fired on %s" % w))
    if not body.startswith(got):
        out.append((PFX + "wrong-body-on-truncation", "delivered %r is not a prefix of %r on %s" % (got, body, w)))
    if eof_err is None:
        out.append((PFX + "no-data-loss-on-truncation", "noMoreData did not raise after %s" % w))
    return out


def judge_mutant(data, cuts, ref):
    """Verdict for one split of a mutated stream, against the reference classification."""
    segs = segs_of(data, cuts)
    got, fins, order_ok, err, leftover, eof_err = decode(segs, eof=False)
    w = "stream %r split %r" % (data, cuts)
    st = ref["status"]
    if st == "bad":
        if err is None or fins or not ref["body"].startswith(got):
            return [(PFX + "not-rejected:" + ref["cls"], "reference: %s at offset %d after decoding %r; decoder raised %s, finish fired %d times, delivered %r; %s" % (
                ref["cls"], ref["at"], ref["body"], err, len(fins), got, w))]
        return []
    if st == "incomplete":
        out = []
        if fins:
            out.append((PFX + "finish-before-last-chunk", "finish fired but the reference is still inside the coding at %d; %s" % (ref["at"], w)))
        if err is None and not ref["body"].startswith(got):
            out.append((PFX + "wrong-body", "delivered %r, reference %r (incomplete); %s" % (got, ref["body"], w)))
        return out
    # ok
    if err is not None:
        if ref["lenient"]:
            return []
        ef = "+".join(sorted(f for f in ref["feats"] if f.startswith("ext-")))
        return [(PFX + "valid-rejected:" + (ef or "mutant"), "%s raised but the reference decodes it (%r); %s" % (err, ref["body"], w))]
    out = []
    if len(fins) != 1:
        out.append((PFX + ("finish-never" if not fins else "finish-twice"), "finish fired %d times; %s" % (len(fins), w)))
        return out
    if got != ref["body"]:
        out.append((PFX + "wrong-body", "delivered %r, reference %r; %s" % (got, ref["body"], w)))
    if leftover != data[ref["end"]:]:
        out.append((PFX + "wrong-extra", "extra %r, reference %r; %s" % (leftover, data[ref["end"]:], w)))
    return out


# ---------------------------------------------------------------- mutation space
BASES = [(seq, ext, tr) for seq in [(1,), (2,), (10,), (16,), (1, 2), (2, 10), (10, 1), (16, 2)]
         for ext in (b"", b";x", b";x=1", b';x="a b"') for tr in ((), (b"A: b",))]
TAIL = b"\r\n\r\n"


def mutants(enc):
    """(kind, stream) for every single-site mutation of enc; TAIL guarantees a later CRLF."""
    seen = {enc}
    for p in range(len(enc)):
        for r in REPL:
            m = enc[:p] + bytes([r]) + enc[p + 1:]
            if m not in seen:
                seen.add(m)
                yield "repl", m + TAIL
        m = enc[:p] + enc[p + 1:]
        if m not in seen:
            seen.add(m)
            yield "del", m + TAIL
        for ins in (b" ", b"\n"):
            m = enc[:p] + ins + enc[p:]
            if m not in seen:
                seen.add(m)
                yield "ins", m + TAIL
        if enc[p:p + 2] == b"\r\n":
            m = enc[:p] + enc[p + 2:]
            if m not in seen:
                seen.add(m)
                yield "del-crlf", m + TAIL


# ---------------------------------------------------------------- shards
NBINS = 48


def _valid_bins():
    """Deal the (sequence, extension) pairs into NBINS bins of similar cost (cost ~ length^2)."""
    items = []
    for si, seq in enumerate(SEQS):
        for ei, ext in enumerate(EXTS):
            n = 5 + sum(s + 5 + len(ext) for s in seq) + len(ext)
            items.append((-(n * n), si, ei))
    items.sort()
    bins = [[] for _ in range(NBINS)]
    load = [0] * NBINS
    for c, si, ei in items:
        k = load.index(min(load))
        bins[k].append([si, ei])
        load[k] += -c
    return bins


def shards(tier, seed):
    sh = [["valid", b] for b in _valid_bins()]
    for bi in range(len(BASES)):
        sh.append(["mut", bi])
    sh.append(["limits", 0])
    return sh


def _maxcuts(n, tier):
    if tier == "quick":
        return 2 if n <= 44 else 1
    return 3 if n <= 32 else 2


def run_shard(shard, tier, seed):
    st = Stats()
    kind, idx = shard
    if kind == "valid":
        for si, ei in idx:
            run_valid(st, si, ei, tier, seed)
    elif kind == "mut":
        seq, ext, tr = BASES[idx]
        parts, body = build(seq, "x", ext, b"0", tr, b"", seed)
        enc = b"".join(b for _, b in parts)
        for mk, m in mutants(enc):
            ref = ref_chunked(m)
            cls = ref["status"] + (":" + ref["cls"] if ref["cls"] else "") + (":tolerated" if ref["lenient"] and ref["status"] == "ok" else "")
            st.outcome("ref:" + cls)
            if ref["status"] == "bad":
                st.nt(("mut", m))
            n = len(m)
            cs = [(), tuple(range(1, n))] + [(p,) for p in range(1, n)]
            if tier != "quick" or n <= 24:
                cs += list(itertools.combinations(range(1, n), 2))
            for cuts in cs:
                st.evaluations += 1
                v = judge_mutant(m, cuts, ref)
                if v:
                    for sig, det in v:
                        st.violation(sig, det, {"kind": "mut", "data": m, "cuts": list(cuts)})
                    break
        st.sample({"base": enc, "mutations": "all single-site"}, 3)
    else:
        run_limits(st, tier)
    return st


def run_valid(st, idx, ei, tier, seed):
    seq, ext = SEQS[idx], EXTS[ei]
    for fi, fmt in enumerate(FMTS):
        last = b"00" if fi == 2 else b"0"     # 00 rides along with the zero-padded size format
        for ti, tr in enumerate(TRAILERS):
            for xi, extra in enumerate(EXTRAS):
                parts, body = build(seq, fmt, ext, last, tr, extra, seed)
                data = b"".join(b for _, b in parts)
                enc_len = len(data) - len(extra)
                lm = label_map(parts)
                ident = (idx, fi, ei, ti, xi)
                bad_here = False
                for cuts in cut_sets(len(data), _maxcuts(len(data), tier)):
                    st.evaluations += 1
                    v = judge_valid(data, enc_len, body, extra, cuts, parts)
                    labs = frozenset(lm[p] for p in cuts if p in lm)
                    if labs:
                        st.nt((ident, labs))
                    if v:
                        for sig, det in v:
                            st.violation(sig, det, {"kind": "valid", "data": data, "cuts": list(cuts),
                                                    "body": body, "extra": extra,
                                                    "parts": [[l, b] for l, b in parts]})
                        st.outcome("violation")
                        bad_here = True
                        break   # one witness per encoding is enough
                    st.outcome("round-trip" + ("+extra" if extra else "") + ("+trailer" if tr else ""))
                if bad_here or xi != 0:
                    continue
                # truncation: every strict prefix of the encoding (no extra) must report data loss
                for t in range(len(data)):
                    for bw in (False, True):
                        st.evaluations += 1
                        v = judge_trunc(data[:t], body, bw)
                        for sig, det in v:
                            st.violation(sig, det, {"kind": "trunc", "prefix": data[:t], "body": body, "bytewise": bw})
                        st.outcome("violation" if v else "data-loss-reported")
                st.sample({"encoding": data, "body": body}, 3)


def _one_piece_ok(data):
    got, fins, order_ok, err, leftover, eof_err = decode([data], eof=False)
    return err is None and len(fins) == 1


def _size_line_stream(L, on_last):
    """A stream whose data-chunk size line (or last-chunk line) is exactly L bytes long (size + extension)."""
    ext = b";" + b"e" * (L - 2)
    parts, body = build((2,), "x", b"", b"0", (), b"X", 0)
    k = [i for i, (lab, _) in enumerate(parts) if lab == ("last" if on_last else "size")][0]
    parts[k] = (parts[k][0], parts[k][1] + ext)
    assert len(parts[k][1]) == L
    return parts, body


def _trailer_stream(T):
    line = b"A: " + b"t" * (T - 5)          # trailer section of exactly T bytes (field line + its CRLF)
    return build((1,), "x", b"", b"0", (line,), b"X", 0)


def longest_accepted(mk, hi):
    """Largest size <= hi that the real decoder accepts when the stream arrives in one piece (the limit
    is derived from the code's own unsplit behaviour, capped by the documented limit, never hard-coded)."""
    for L in range(hi, max(hi - 8, 6), -1):
        parts, body = mk(L)
        if _one_piece_ok(b"".join(b for _, b in parts)):
            return L
    return None


def _probe(st, tag, parts, body, tail):
    """Every 1-cut and 2-cut among the last `tail` positions before the extra byte (this includes the CR|LF
    cuts of the long line and of the CRLFs after it), a few early cuts, and the one-piece run."""
    data = b"".join(b for _, b in parts)
    n = len(data)
    off, end_of_long = 0, None
    for lab, b in parts:
        off += len(b)
        if len(b) > 64:
            end_of_long = off
    near = set(range(max(1, end_of_long - tail), min(n, end_of_long + 4)))     # ... e e e | CR | LF | next
    near |= set(range(max(1, n - tail), n))
    pos = sorted(near)
    early = [p for p in (1, 2, 3, 5, 9) if p < n]
    cuts_list = [()] + [(p,) for p in early + pos] + [(p, q) for p in pos for q in pos if p < q] + \
                [(e, p) for e in early for p in pos if e < p]
    for cuts in cuts_list:
        st.evaluations += 1
        for sig, det in judge_valid(data, n - 1, body, b"X", cuts, parts):
            st.violation(sig.replace("valid-rejected:", "valid-rejected:%s:" % tag), det[:160] + " ... " + det[-160:],
                         {"kind": "valid", "data": data, "cuts": list(cuts), "body": body, "extra": b"X",
                          "parts": [[l, b] for l, b in parts]})
        st.nt((tag, n, cuts))
    st.outcome(tag)


def run_limits(st, tier):
    """Encodings at and just inside the size limits must round-trip for every cut around the long element:
    a stream the decoder accepts in one piece must be accepted for every split."""
    from twisted.web import http
    from twisted.web.http import _ChunkedTransferDecoder
    mx = getattr(http, "maxChunkSizeLineLength", 1024)
    tl = getattr(_ChunkedTransferDecoder(lambda b: None, lambda b: None), "_maxTrailerHeadersSize", 2 ** 16)
    for on_last in (False, True):
        mk = lambda L: _size_line_stream(L, on_last)
        top = longest_accepted(mk, mx)
        if top is None:
            raise AssertionError("harness: no chunk-size line of %d..%d bytes is accepted in one piece" % (mx - 8, mx))
        st.counters["longest_size_line_max"] = max(top, st.counters.get("longest_size_line_max", 0))
        for L in sorted(set([top, top - 1, mx - 3, mx - 8])):
            if L > top:
                continue
            parts, body = mk(L)
            _probe(st, "size-line-at-limit" if L >= top - 1 else "size-line-near-limit", parts, body, 16)
    top = longest_accepted(_trailer_stream, tl)
    if top is None:
        raise AssertionError("harness: no trailer section of %d..%d bytes is accepted in one piece" % (tl - 8, tl))
    st.counters["longest_trailer_max"] = top
    for T in sorted(set([top, top - 1, tl - 2, tl - 3])):
        if T > top:
            continue
        parts, body = _trailer_stream(T)
        _probe(st, "trailer-at-limit" if T >= top - 1 else "trailer-near-limit", parts, body, 16)


def replay(w):
    k = w["kind"]
    if k == "valid":
        parts = [(l, b) for l, b in w["parts"]]
        return judge_valid(w["data"], len(w["data"]) - len(w["extra"]), w["body"], w["extra"], tuple(w["cuts"]), parts)
    if k == "trunc":
        return judge_trunc(w["prefix"], w["body"], w["bytewise"])
    return judge_mutant(w["data"], tuple(w["cuts"]), ref_chunked(w["data"]))
