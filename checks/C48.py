"""C48 HTTP Digest: decoded credentials accept exactly the right responses; everything else is an ordinary login failure.

A real DigestCredentialFactory (directly, and through the twisted.web wrapper)
issues challenges under a harness clock and deterministic random bytes.  A
client model written here (plain RFC 2617 arithmetic on hashlib) answers with
every variant of a response; the oracle knows how each response was computed
and what was altered afterwards, the factory does not.
"""
import base64
import hashlib
import itertools

from mc.runner import Stats

ID = "C48"
LEVEL = "exploration"
TECHNIQUE = "bounded-exhaustive challenge/response histories against a reference client + provenance oracle"
RULE = ("a case = scenario x response variant x password used.  Scenario: factory algorithm {md5, sha, MD5} x driving "
        "route {cred factory with bytes address, with str address, twisted.web wrapper} x (address the challenge was "
        "issued to, address the response comes from) in {same, other, none/none, A/none, none/A} x true age "
        "of the challenge at the response {0, lifetime-1, lifetime-0.5, lifetime-0.25, lifetime+1.25, 3*lifetime} x "
        "issue time {7-digit whole second, the same +0.25, 8-digit +0.75} (clock not aligned to whole seconds); a second "
        "challenge of the same factory and one of a second factory are always outstanding.  Variant: 6 header layouts, "
        "and for each of the 10 response fields {missing, empty, empty-unquoted, one character replaced at "
        "first/middle/last position by another plain character or by one of quote comma equals backslash 0x80 NUL LF CR, "
        "a character inserted (plain / '!'; in the opaque also * . _ ~ 0x01 0x7f 0x80 space TAB LF =), a character deleted, requoted}, with separate positions inside the digest "
        "and the key half of the opaque; consistent client-side choices (other uri, username, cnonce, nc, realm, "
        "method, nonce, algorithm, no qop); 20 opaque forgeries (other challenge, other factory, re-keyed address / "
        "time / nonce under the old digest, self-signed, malformed base64, wrong part counts); parameter-name "
        "mutations; 14 wholesale malformed responses.  Oracle: checkPassword(p) is True iff the response was computed "
        "with p over the unaltered challenge, comes from the address the challenge was issued to and is inside the "
        "lifetime; otherwise decode raises LoginFailed or checkPassword is False; no other exception ever.  Where the "
        "statement does not decide (realm/algorithm echo altered, qop omitted) only the exception rule is judged.  "
        "Histories: on ONE fresh factory per history, every sequence of 2 (one configuration: 3) decode() "
        "calls drawn from {right, wrong password, tampered nonce, tampered opaque, opaque of another challenge} x "
        "{issuing address, other address} x age {0, lifetime-1, lifetime+1.25, 3*lifetime} with non-decreasing clock; the "
        "per-call verdict must hold at the time of that call whatever was presented before (a violation that does not "
        "occur when the call is made alone is marked only-after-earlier-calls).  "
        "non-trivial = distinct (scenario class, variant) whose outcome is not a plain accept; distinct histories mixing "
        "times or kinds")
BOUNDS = {"quick": "810 scenarios x 608 single variants x 2 passwords; all field-disjoint pairs of 121 representative "
                   "variants (one per mutation class) in 6 scenarios; histories of 3 calls (md5) / 2 calls (sha via web, MD5) "
                   "over a 40-call alphabet",
          "thorough": "810 scenarios x 608 single variants x 2 passwords; all field-disjoint pairs of 121 representative "
                      "variants in 54 scenarios; histories of 3 calls (md5) / 2 calls (sha via web, MD5) over a 40-call alphabet"}
ASSUMPTIONS = [
    "the clock is DigestCredentialFactory._getTime (instance attribute set by the harness); random bytes come from "
    "credentials.secureRandom rebound to a counter-based deterministic source",
    "inside the lifetime = true age strictly below it (probed down to a quarter second below, with fractional issue "
    "and arrival times); outside = at least one second above it; the boundary second itself is never probed",
    "the reference client is RFC 2617 arithmetic on hashlib written in the check; forged opaques are built from the "
    "documented-in-source layout digest-base64(nonce,address,time); if an issued opaque does not have that layout the "
    "forgeries that need it are skipped (counted)",
    "unquoted values, a missing algorithm and an upper-case algorithm are accepted because the project's own tests "
    "document them as intended (test_responseWithoutQuotes, test_md5DefaultAlgorithm, test_caseInsensitiveAlgorithm)",
]
MIN = {"quick": {"evaluations": 300000, "nontrivial": 150000, "outcomes": 6, "history_calls_after_an_accepted_call": 1500},
       "thorough": {"evaluations": 700000, "nontrivial": 450000, "outcomes": 6, "history_calls_after_an_accepted_call": 1500}}

REALM = b"test realm"
USER = b"user"
PW_R = b"right pass"
PW_W = b"wrong pass"
URI = b"/dir/index.html?a=1,2"
URI_PLAIN = b"/dir/index.html"
ADDR_A = "10.0.0.1"
ADDR_B = "::1"
T0S = [1000000.0, 1000000.25, 12345678.75]
ALGOS = [b"md5", b"sha", b"MD5"]
FIELDS = ["username", "realm", "nonce", "uri", "response", "algorithm", "cnonce", "opaque", "qop", "nc"]
UNQUOTED_RFC = {"algorithm", "qop", "nc"}
SPECIALS = [b'"', b",", b"=", b"\\", b"\x80", b"\x00", b"\n", b"\r"]

OPAQUE_JUNK = [b"*", b".", b"_", b"~", b"\x01", b"\x7f", b"\x80", b" ", b"\t", b"\n", b"="]   # besides '!'
INTACT, REJECT, UNJUDGED = "intact", "reject", "unjudged"
NONCANON = "opaque:key-half-respelled"


# ---------------------------------------------------------------- reference client (oracle side)

def _h(algo, data):
    return (hashlib.sha1 if algo.lower() == b"sha" else hashlib.md5)(data).hexdigest().encode("ascii")


def ref_response(algo, username, realm, password, method, uri, nonce, nc, cnonce, qop):
    ha1 = _h(algo, username + b":" + realm + b":" + password)
    ha2 = _h(algo, method + b":" + uri)
    if qop is None:
        return _h(algo, ha1 + b":" + nonce + b":" + ha2)
    return _h(algo, ha1 + b":" + nonce + b":" + nc + b":" + cnonce + b":" + qop + b":" + ha2)


class Resp:
    """A response under construction: what goes into the hash, and what goes into the header."""

    def __init__(self, chal, password):
        self.hash = dict(algo=chal["algorithm"], username=USER, realm=chal["realm"], password=password, method=b"GET",
                         uri=URI, nonce=chal["nonce"], nc=b"00000001", cnonce=b"0a4f113b", qop=b"auth")
        self.opaque = chal["opaque"]
        self.fields = None
        self.order = list(FIELDS)
        self.quoted = {f: f not in UNQUOTED_RFC for f in FIELDS}
        self.sep = b", "
        self.prefix = b""
        self.suffix = b""
        self.rename = {}
        self.raw = None
        self.noops = 0
        self.issued_opaque = chal["opaque"]

    def seal(self):
        h = self.hash
        self.fields = {
            "username": h["username"], "realm": h["realm"], "nonce": h["nonce"], "uri": h["uri"],
            "response": ref_response(**h), "algorithm": h["algo"], "cnonce": h["cnonce"], "opaque": self.opaque,
            "qop": h["qop"], "nc": h["nc"],
        }
        if h["qop"] is None:
            for f in ("qop", "nc", "cnonce"):
                self.fields[f] = None

    def render(self):
        if self.raw is not None:
            return self.raw
        out = []
        for f in self.order:
            v = self.fields.get(f)
            if v is None:
                continue
            name = self.rename.get(f, f.encode("ascii"))
            if self.quoted[f]:
                out.append(name + b'="' + v + b'"')
            else:
                out.append(name + b"=" + v)
        return self.prefix + self.sep.join(out) + self.suffix


class Variant:
    __slots__ = ("tag", "cls", "fields", "expect", "pre", "post")

    def __init__(self, tag, cls, fields, expect, pre=None, post=None):
        self.tag, self.cls, self.fields, self.expect, self.pre, self.post = tag, cls, frozenset(fields), expect, pre, post


def _plain_other(ch):
    """Another character of the same kind (hex digit -> hex digit, letter -> letter, else 'x'/'y')."""
    c = bytes([ch])
    if c in b"0123456789":
        return b"7" if c != b"7" else b"3"
    if c in b"abcdef":
        return b"e" if c != b"e" else b"b"
    if c in b"ABCDEF":
        return b"E" if c != b"E" else b"B"
    return b"x" if c != b"x" else b"y"


def _field_expect(f, kind):
    if f in ("realm", "algorithm"):
        return UNJUDGED
    if f == "qop" and kind in ("missing", "special"):
        # an unquoted qop broken by a delimiter reads as "no qop", which the statement does not decide
        return UNJUDGED
    if kind == "requote":
        return INTACT
    return REJECT


POS_PLAIN = ["first", "mid", "last"]
POS_OPAQUE = ["digest-first", "digest-mid", "digest-last", "dash", "key-first", "key-mid", "key-last", "key-last-data"]


def _position(f, value, label):
    """Index named by label in the current value, or None if the value has no such position."""
    n = len(value)
    if n == 0:
        return None
    if f == "opaque":
        if value.count(b"-") != 1:
            return None
        d = value.index(b"-")
        if d == 0 or d == n - 1:
            return None
        stripped = value.rstrip(b"=")
        return {"digest-first": 0, "digest-mid": d // 2, "digest-last": d - 1, "dash": d, "key-first": d + 1,
                "key-mid": d + 1 + (n - d - 1) // 2, "key-last": n - 1,
                "key-last-data": (len(stripped) - 1) if len(stripped) != n and len(stripped) - 1 > d else None}[label]
    return {"first": 0, "mid": n // 2 if n > 2 else None, "last": n - 1 if n > 1 else None}[label]


def _set(f, fn):
    def post(r):
        old = r.fields[f]
        r.fields[f] = fn(old)
        if r.fields[f] == old:
            r.noops += 1
    return post


def _edit(f, label, op, arg=None):
    """Header-only edit of one character of field f at a named position (evaluated on the value being sent)."""
    def post(r):
        v = r.fields[f]
        i = None if v is None else _position(f, v, label)
        if i is None:
            r.noops += 1
            return
        ch = arg if arg is not None else _plain_other(v[i])
        if op == "replace":
            new = v[:i] + ch + v[i + 1:]
        elif op == "insert":
            new = v[:i] + ch + v[i:]
        else:
            new = v[:i] + v[i + 1:]
        if b" ".join(new.splitlines()).strip() == v:
            r.noops += 1      # unchanged, or only white space at the edge of the value (trimmed by any parser; unjudged)
        r.fields[f] = new
    return post


def build_variants(ctx):
    """All single variants for one scenario.  ctx: chal, chal2, chalX, host (bytes or None), now (int)."""
    V = []
    add = V.append
    chal = ctx["chal"]

    # --- A: layouts (all must behave like the intact response)
    add(Variant("layout:rfc", "layout:rfc", [], INTACT))

    def allq(r):
        r.quoted = {f: True for f in FIELDS}
    add(Variant("layout:all-quoted", "layout:all-quoted", [], INTACT, post=allq))

    def noq(r):
        # every value that is a token goes unquoted; a value with a space, comma or quote has to stay quoted
        r.quoted = {f: (r.fields[f] is not None and any(c in r.fields[f] for c in b' ,"')) for f in FIELDS}
    add(Variant("layout:all-unquoted", "layout:all-unquoted", ["uri"], INTACT, pre=lambda r: r.hash.update(uri=URI_PLAIN), post=noq))
    add(Variant("layout:no-space", "layout:no-space", [], INTACT, post=lambda r: setattr(r, "sep", b",")))
    add(Variant("layout:folded", "layout:folded", [], INTACT, post=lambda r: setattr(r, "sep", b",\r\n   ")))
    add(Variant("layout:reversed", "layout:reversed", [], INTACT, post=lambda r: r.order.reverse()))

    def extra(r):
        r.prefix = b'userhash=false, '
        r.suffix = b', ext-param="some, value=1"'
    add(Variant("layout:extension-params", "layout:extension-params", [], INTACT, post=extra))

    # --- B: per-field mutations of the header (the hash was computed over the original values)
    for f in FIELDS:
        add(Variant("%s:missing" % f, "%s:missing" % f, [f], _field_expect(f, "missing"), post=_set(f, lambda v: None)))
        add(Variant("%s:empty" % f, "%s:empty" % f, [f], _field_expect(f, "empty"),
                    post=lambda r, f=f: (r.fields.__setitem__(f, b""), r.quoted.__setitem__(f, True))))
        add(Variant("%s:empty-unquoted" % f, "%s:empty" % f, [f], _field_expect(f, "special"),
                    post=lambda r, f=f: (r.fields.__setitem__(f, b""), r.quoted.__setitem__(f, False))))
        if f not in ("uri", "realm"):     # values that are tokens: quoting them or not says the same thing
            add(Variant("%s:requoted" % f, "%s:requoted" % f, [f], _field_expect(f, "requote"),
                        post=lambda r, f=f: r.quoted.__setitem__(f, not r.quoted[f])))
        for label in (POS_OPAQUE if f == "opaque" else POS_PLAIN):
            where = ("%s-half" % label.split("-")[0]) if f == "opaque" and label != "dash" else ""
            for kind, rep in [("plain", None)] + [("special", sp) for sp in SPECIALS]:
                tag = "%s:replace:%s:%s" % (f, label, rep.hex() if rep else "plain")
                cls = "%s:char-replaced" % f + (":" + where if where else "") + (":dash" if label == "dash" else "")
                add(Variant(tag, cls, [f], _field_expect(f, kind), post=_edit(f, label, "replace", rep)))
            if label == "dash":
                continue
            inserts = [("plain", None), ("junk", b"!")]
            if f == "opaque":
                inserts += [("junk", j) for j in OPAQUE_JUNK]
            for kind, ins in inserts:
                cls = "%s:char-inserted:%s" % (f, kind) + (":" + where if where else "")
                add(Variant("%s:insert:%s:%s" % (f, label, kind if ins in (None, b"!") else ins.hex()), cls, [f], _field_expect(f, "plain" if ins is None else "special"),
                            post=_edit(f, label, "insert", ins)))
            add(Variant("%s:delete:%s" % (f, label), "%s:char-deleted" % f + (":" + where if where else ""), [f],
                        _field_expect(f, "plain"), post=_edit(f, label, "delete")))
        add(Variant("%s:append:junk" % f, "%s:char-inserted:junk" % f + (":key-half" if f == "opaque" else ""), [f],
                    _field_expect(f, "special"), post=_set(f, lambda v: v + b"!")))

    # --- C: choices the client makes consistently (hash and header agree)
    add(Variant("client:other-uri", "client:other-uri", ["uri"], INTACT, pre=lambda r: r.hash.update(uri=b"/other")))
    add(Variant("client:other-username", "client:other-username", ["username"], INTACT,
                pre=lambda r: r.hash.update(username=b"someone else")))
    add(Variant("client:other-cnonce-nc", "client:other-cnonce-nc", ["cnonce", "nc"], INTACT,
                pre=lambda r: r.hash.update(cnonce=b"ffff", nc=b"0000002a")))
    add(Variant("client:other-realm", "client:other-realm", ["realm"], REJECT, pre=lambda r: r.hash.update(realm=b"another realm")))
    add(Variant("client:other-method", "client:other-method", ["method"], REJECT, pre=lambda r: r.hash.update(method=b"POST")))
    n0 = chal["nonce"]
    alt_nonce = n0[:-1] + _plain_other(n0[-1])
    add(Variant("client:altered-nonce", "client:altered-nonce", ["nonce"], REJECT, pre=lambda r: r.hash.update(nonce=alt_nonce)))
    add(Variant("client:no-qop-rfc2069", "client:no-qop", ["qop", "nc", "cnonce"], UNJUDGED, pre=lambda r: r.hash.update(qop=None)))
    other_algo = b"sha" if chal["algorithm"].lower() == b"md5" else b"md5"
    add(Variant("client:other-algorithm", "client:other-algorithm", ["algorithm"], UNJUDGED,
                pre=lambda r: r.hash.update(algo=other_algo)))
    add(Variant("client:qop-auth-int-echo", "qop:auth-int", ["qop"], REJECT, post=_set("qop", lambda v: b"auth-int")))
    add(Variant("client:algorithm-md5-sess-echo", "algorithm:md5-sess", ["algorithm", "cnonce"], UNJUDGED,
                post=_set("algorithm", lambda v: b"md5-sess")))
    add(Variant("client:algorithm-md5-sess-echo-no-cnonce", "algorithm:md5-sess-no-cnonce", ["algorithm", "cnonce"], UNJUDGED,
                post=lambda r: (r.fields.__setitem__("algorithm", b"md5-sess"), r.fields.__setitem__("cnonce", None))))
    add(Variant("client:algorithm-unknown-echo", "algorithm:unknown", ["algorithm"], UNJUDGED,
                post=_set("algorithm", lambda v: b"sha-256")))

    # --- D: opaque / nonce provenance
    c2, cX = ctx["chal2"], ctx["chalX"]
    add(Variant("opaque:from-other-challenge", "opaque:from-other-challenge", ["opaque"], REJECT,
                pre=lambda r: setattr(r, "opaque", c2["opaque"])))
    add(Variant("nonce:from-other-challenge", "nonce:from-other-challenge", ["nonce", "opaque"], REJECT,
                pre=lambda r: r.hash.update(nonce=c2["nonce"])))
    add(Variant("nonce+opaque:from-other-factory", "nonce+opaque:from-other-factory", ["nonce", "opaque"], REJECT,
                pre=lambda r: (r.hash.update(nonce=cX["nonce"]), setattr(r, "opaque", cX["opaque"]))))
    add(Variant("opaque:from-other-factory", "opaque:from-other-factory", ["opaque"], REJECT,
                pre=lambda r: setattr(r, "opaque", cX["opaque"])))
    parsed = parse_opaque(chal["opaque"])
    if parsed is not None:
        digest, (k_nonce, k_addr, k_time) = parsed
        host = ctx["host"] or b""
        now = b"%d" % ctx["now"]

        def forged(tag, newkey, newdigest=None, fields=("opaque",), pre_extra=None):
            op = (newdigest or digest) + b"-" + base64.b64encode(newkey)
            if op == chal["opaque"]:
                return       # the "forgery" is the issued opaque in this scenario

            def pre(r):
                r.opaque = op
                if pre_extra:
                    pre_extra(r)
            add(Variant("opaque:" + tag, "opaque:" + tag, fields, REJECT, pre=pre))
        forged("rekeyed-address-old-digest", b",".join((k_nonce, host, k_time)))
        forged("rekeyed-time-old-digest", b",".join((k_nonce, k_addr, now)))
        forged("rekeyed-address-and-time-old-digest", b",".join((k_nonce, host, now)))
        forged("rekeyed-nonce-old-digest", b",".join((alt_nonce, k_addr, k_time)), fields=("opaque", "nonce"),
               pre_extra=lambda r: r.hash.update(nonce=alt_nonce))
        fresh = b",".join((k_nonce, host, now))
        forged("self-signed-no-key", fresh, hashlib.md5(fresh).hexdigest().encode())
        forged("self-signed-guessed-key", fresh, hashlib.md5(fresh + b"0").hexdigest().encode())
        forged("key-two-parts", b",".join((k_nonce, k_addr)))
        forged("key-four-parts", b",".join((k_nonce, k_addr, k_time, b"x")))
        forged("key-time-not-a-number", b",".join((k_nonce, k_addr, b"abc")))
        forged("key-time-float", b",".join((k_nonce, k_addr, k_time + b".5")))
        forged("key-time-in-future", b",".join((k_nonce, k_addr, b"%d" % (ctx["now"] + 10 ** 6))))
        forged("key-time-empty", b",".join((k_nonce, k_addr, b"")))
        forged("key-empty", b"")
        key_b64 = chal["opaque"].split(b"-", 1)[1]
        for tag, op in (("no-dash", digest + key_b64), ("dash-replaced", digest + b"+" + key_b64),
                        ("two-dashes", chal["opaque"] + b"-x"), ("digest-only", digest), ("key-only", b"-" + key_b64),
                        ("digest-empty", b"-" + key_b64), ("swapped-halves", key_b64 + b"-" + digest),
                        ("b64-padding-stripped", digest + b"-" + key_b64.rstrip(b"=") if key_b64.endswith(b"=") else None),
                        ("b64-one-char-short", digest + b"-" + key_b64[:-1]),
                        ("b64-extra-padding", digest + b"-" + key_b64 + b"="),
                        ("b64-non-ascii", digest + b"-" + key_b64[:4] + b"\xff\xfe" + key_b64[4:]),
                        ("b64-embedded-newline", digest + b"-" + key_b64[:8] + b"\n" + key_b64[8:]),
                        ("digest-uppercase", digest.upper() + b"-" + key_b64 if digest.upper() != digest else None)):
            if op is None or op == chal["opaque"]:
                continue
            cls = "opaque:" + tag
            add(Variant("opaque:" + tag, cls, ["opaque"], REJECT, pre=lambda r, op=op: setattr(r, "opaque", op)))
    else:
        ctx["skipped_forgeries"] = True

    # --- E: parameter names
    add(Variant("name:extra-non-ascii-parameter", "param-name:non-ascii", ["*name"], UNJUDGED,
                post=lambda r: setattr(r, "suffix", b', \xe9x="1"')))
    for f in ("nonce", "username", "uri"):
        add(Variant("name:%s:first-byte-0x80" % f, "param-name:non-ascii", ["*name"], REJECT,
                    post=lambda r, f=f: r.rename.__setitem__(f, b"\x80" + f.encode()[1:])))
    add(Variant("name:uppercase-names", "param-name:uppercase", ["*name"], UNJUDGED,
                post=lambda r: r.rename.update({f: f.upper().encode() for f in FIELDS})))
    add(Variant("name:nonce-renamed", "param-name:renamed", ["*name"], REJECT,
                post=lambda r: r.rename.__setitem__("nonce", b"xnonce")))

    # --- F: wholesale malformed responses
    for i, raw in enumerate([b"", b" ", b"garbage", b"=", b"==", b'"', b",,,", b"username=", b'username="user"',
                             b'username="user", nonce="n", opaque="o"', b"\xff\xfe\x00", b"a=b" * 2000,
                             b'username="user", nonce=, opaque=', b"\r\n\r\n"]):
        add(Variant("raw:%d" % i, "malformed-response", ["*raw"], REJECT, post=lambda r, raw=raw: setattr(r, "raw", raw)))
    return V


def parse_opaque(op):
    """digest, (nonce, address, time) of an issued opaque, or None if the layout is not the expected one."""
    try:
        digest, key = op.split(b"-")
        parts = base64.b64decode(key, validate=True).split(b",")
        if len(parts) != 3 or not parts[2].isdigit():
            return None
        return digest, tuple(parts)
    except Exception:  # noqa
        return None


# ---------------------------------------------------------------- the system under test

class _Addr:
    def __init__(self, host):
        self.host = host


class _Request:
    def __init__(self, host, method=b"GET"):
        self._host, self.method = host, method

    def getClientAddress(self):
        return _Addr(self._host)


class World:
    """One factory (plus a second one with another private key) under a harness clock."""

    def __init__(self, algo, route):
        from twisted.cred import credentials
        self.route = route
        self.clock = [0.0]
        n = [0]

        def det_random(nbytes, fallback=False):
            n[0] += 1
            return hashlib.sha256(b"verif-C48-%d" % n[0]).digest()[:nbytes]
        saved = getattr(credentials, "secureRandom", None)
        if saved is not None:
            credentials.secureRandom = det_random
        self._restore = (credentials, saved)
        if route == "web":
            from twisted.web._auth.digest import DigestCredentialFactory as W
            self.f, self.fx = W(algo, REALM), W(algo, REALM)
            cores = [self.f.digest, self.fx.digest]
        else:
            self.f = credentials.DigestCredentialFactory(algo, REALM)
            self.fx = credentials.DigestCredentialFactory(algo, REALM)
            cores = [self.f, self.fx]
        for c in cores:
            c._getTime = lambda: self.clock[0]
        self.lifetime = cores[0].CHALLENGE_LIFETIME_SECS

    def close(self):
        mod, saved = self._restore
        if saved is not None:
            mod.secureRandom = saved

    def addr(self, a):
        """address in the representation this route uses"""
        if a is None:
            return None
        return a.encode("ascii") if self.route == "cred-bytes" else a

    def challenge(self, factory, a):
        if self.route == "web":
            return factory.getChallenge(_Request(a))
        return factory.getChallenge(self.addr(a))

    def decode(self, response, a):
        if self.route == "web":
            return self.f.decode(response, _Request(a, b"GET"))
        return self.f.decode(response, b"GET", self.addr(a))


def _twisted_frame(tb):
    name = "?"
    while tb is not None:
        fn = tb.tb_frame.f_code.co_filename
        if "/twisted/" in fn:
            name = tb.tb_frame.f_code.co_name
        tb = tb.tb_next
    return name


def attempt(world, raw, host):
    """-> ('login-failed',) | ('raised', stage, type, func) | ('checked', acceptsRight, acceptsWrong)"""
    from twisted.cred import error
    try:
        creds = world.decode(raw, host)
    except error.LoginFailed:
        return ("login-failed",)
    except Exception as e:  # noqa - judged by the oracle
        return ("raised", "decode", type(e).__name__, _twisted_frame(e.__traceback__))
    if creds is None:
        return ("login-failed",)
    try:
        return ("checked", bool(creds.checkPassword(PW_R)), bool(creds.checkPassword(PW_W)))
    except Exception as e:  # noqa
        return ("raised", "checkPassword", type(e).__name__, _twisted_frame(e.__traceback__))


def scenario_ctx(sc):
    """Build the world and the outstanding challenges for a scenario tuple."""
    algo, route, issue_to, host, dt_name, t0 = sc
    w = World(algo, route)
    L = w.lifetime
    # true age of the challenge when the response arrives; strictly below the lifetime = inside, at least one second
    # above = outside; the second at the boundary itself is never probed
    dt = {"0": 0, "L-1": L - 1, "L-0.5": L - 0.5, "L-0.25": L - 0.25, "L+1": L + 1, "L+1.25": L + 1.25, "3L": 3 * L}[dt_name]
    w.clock[0] = t0 - 5
    w.challenge(w.f, ADDR_B)                       # an older, unrelated challenge
    w.clock[0] = t0
    chal = w.challenge(w.f, issue_to)
    w.clock[0] = t0 + dt
    chal2 = w.challenge(w.f, host)                 # valid by itself for the presenting address, now
    chalX = w.challenge(w.fx, host)                # valid under another factory's private key
    ctx = {"world": w, "chal": chal, "chal2": chal2, "chalX": chalX, "age": dt_name,
           "host": None if host is None else host.encode("ascii"), "now": int(t0 + dt),
           "valid": issue_to == host and dt < L,
           "why_invalid": None if (issue_to == host and dt < L) else ("other-address" if issue_to != host else "expired")}
    return ctx


def make_raw(ctx, variants, pw_used):
    r = Resp(ctx["chal"], pw_used)
    for v in variants:
        if v.pre:
            v.pre(r)
    r.seal()
    for v in variants:
        if v.post:
            v.post(r)
    return r.render(), r


_B64 = frozenset(b"ABCDEFGHIJKLMNOPQRSTUVWXYZabcdefghijklmnopqrstuvwxyz0123456789+/=")
_WS = frozenset(b" \t\r\n\x0b\x0c")


def _respelled(r):
    """None, or the KIND of re-spelling if the opaque sent is not the issued one but names the same digest and the
    same key bytes under a lenient base64 reading (names the shape of an acceptance; never part of the verdict)."""
    sent, issued = r.fields.get("opaque") if r.fields else None, r.issued_opaque
    if r.raw is not None or sent is None or sent == issued:
        return None
    sent = b" ".join(sent.splitlines()).strip()
    try:
        d1, k1 = sent.split(b"-")
        d0, k0 = issued.split(b"-")
        if d1 != d0 or k1 == k0 or base64.b64decode(k1) != base64.b64decode(k0):
            return None
    except Exception:  # noqa
        return None
    foreign = [c for c in k1 if c not in _B64]
    if any(c not in _WS for c in foreign):
        return "non-alphabet-character-inserted"
    if foreign:
        return "whitespace-or-newline-inserted"
    if k1.rstrip(b"=") == k0.rstrip(b"="):
        return "surplus-padding"
    if b"=" in k1.rstrip(b"="):
        return "padding-inside-data"
    return "unused-low-bits-of-last-character-changed"


def combine_expect(variants):
    ex = [v.expect for v in variants]
    if REJECT in ex:
        return REJECT
    if UNJUDGED in ex:
        return UNJUDGED
    return INTACT


def judge(ctx, variants, pw_used, host, singles=None):
    """-> (violations [(sig, detail)], outcome string)"""
    raw, r = make_raw(ctx, variants, pw_used)
    if r.noops:
        return [], "skipped:mutation-does-not-apply", ("skipped",)
    res = attempt(ctx["world"], raw, host)
    expect = combine_expect(variants)
    tags = "+".join(v.tag for v in variants)
    cls = "+".join(sorted({v.cls for v in variants}))
    det = {"variant": tags, "password_used": pw_used, "response": raw[:700], "result": list(res),
           "scenario_valid": ctx["valid"], "why_invalid": ctx["why_invalid"]}
    bad = []
    if res[0] == "raised":
        _, stage, typ, func = res
        fields = sorted(set().union(*[v.fields for v in variants])) or ["-"]
        if singles is not None and len(variants) > 1:
            # attribute to the one mutation that alone raises the same thing
            for v in variants:
                if singles.get((v.tag, pw_used), ("",))[:4] == res[:4]:
                    fields = sorted(v.fields) or ["-"]
                    break
        bad.append(("digest:%s-raises-%s@%s:%s" % (stage, typ, func, "+".join(fields)), det))
        return bad, "raised:%s@%s" % (typ, func), res
    if res[0] == "login-failed":
        acc_r = acc_w = False
        outcome = "login-failed"
    else:
        _, acc_r, acc_w = res
        outcome = "checked:%s/%s" % ("T" if acc_r else "F", "T" if acc_w else "F")
    if expect == UNJUDGED:
        return bad, "unjudged:" + outcome, res
    for pw_checked, accepted in ((PW_R, acc_r), (PW_W, acc_w)):
        if expect == INTACT and ctx["valid"]:
            should = (pw_checked == pw_used)
        else:
            should = False
        if accepted and not should:
            if expect == REJECT:
                rej = [v for v in variants if v.expect == REJECT]
                if singles is not None and len(variants) > 1:
                    # a mutation that is already accepted on its own explains the pair
                    k = 1 if pw_checked == PW_R else 2
                    alone = [v for v in rej if singles.get((v.tag, pw_used), ("",))[0] == "checked"
                             and singles[(v.tag, pw_used)][k]]
                    rej = alone[:1] or rej
                kind = _respelled(r)
                why = (NONCANON + ":" + kind) if kind else "+".join(sorted({v.cls for v in rej}))
            elif not ctx["valid"]:
                why = ctx["why_invalid"]
            else:
                why = "wrong-password"
            bad.append(("digest:accepted:" + why, dict(det, password_checked=pw_checked)))
        elif should and not accepted:
            why = cls
            if variants[0].tag != "layout:rfc" or len(variants) > 1:
                base = ctx.setdefault("baseline", {})
                if pw_used not in base:        # does this scenario reject even the plain response?
                    plain = next(v for v in ctx["variants"] if v.tag == "layout:rfc")
                    b = attempt(ctx["world"], make_raw(ctx, (plain,), pw_used)[0], host)
                    base[pw_used] = not (b[0] == "checked" and b[1 if pw_used == PW_R else 2])
                if base[pw_used]:
                    why = "layout:rfc"
            if why == "layout:rfc" and ctx.get("age") not in (None, "0"):
                why = "plain-response-inside-lifetime"
            bad.append(("digest:rejected-valid-response:" + why, dict(det, password_checked=pw_checked, age=ctx.get("age"))))
    return bad, outcome, res



# ---------------------------------------------------------------- histories of several decode() calls on ONE factory

H_KINDS = {"right": ("layout:rfc", PW_R), "wrong-password": ("layout:rfc", PW_W),
           "tampered-nonce": ("client:altered-nonce", PW_R),
           "tampered-opaque": ("opaque:replace:digest-mid:plain", PW_R),
           "opaque-of-other-challenge": ("opaque:from-other-challenge", PW_R)}
H_HOSTS = [ADDR_A, ADDR_B]
H_AGES = ["0", "L-1", "L+1.25", "3L"]
H_CONFIGS = [("md5", "cred-bytes", 3), ("sha", "web", 2), ("MD5", "cred-str", 2)]      # (algorithm, route, calls)
H_T0 = T0S[1]


def history_calls():
    return [(k, h, a) for k in H_KINDS for h in H_HOSTS for a in H_AGES]


def histories(n, head):
    """Every sequence of n calls starting with head whose clock times are non-decreasing."""
    calls = history_calls()
    for rest in itertools.product(calls, repeat=n - 1):
        seq = (head,) + rest
        ages = [H_AGES.index(c[2]) for c in seq]
        if all(ages[i] <= ages[i + 1] for i in range(n - 1)):
            yield seq


def history_variants(ctx):
    """The four response variants the histories use (same definitions as in build_variants, built alone: cheap)."""
    n0 = ctx["chal"]["nonce"]
    alt_nonce = n0[:-1] + _plain_other(n0[-1])
    c2 = ctx["chal2"]
    vs = [Variant("layout:rfc", "layout:rfc", [], INTACT),
          Variant("client:altered-nonce", "client:altered-nonce", ["nonce"], REJECT, pre=lambda r: r.hash.update(nonce=alt_nonce)),
          Variant("opaque:replace:digest-mid:plain", "opaque:char-replaced:digest-half", ["opaque"], REJECT,
                  post=_edit("opaque", "digest-mid", "replace", None)),
          Variant("opaque:from-other-challenge", "opaque:from-other-challenge", ["opaque"], REJECT,
                  pre=lambda r: setattr(r, "opaque", c2["opaque"]))]
    return {v.tag: v for v in vs}


def run_history(algo, route, seq):
    """Fresh factory, one challenge issued to ADDR_A at H_T0 (plus a second challenge and a second factory), then the
    calls in order on the same factory; every call is judged by the per-call oracle, whatever happened before."""
    sc = (algo, route, ADDR_A, ADDR_A, "0", H_T0)
    ctx = scenario_ctx(sc)
    try:
        w = ctx["world"]
        L = w.lifetime
        V = history_variants(ctx)
        ctx["variants"] = list(V.values())
        bad, outcomes = [], []
        for i, (kind, host, age) in enumerate(seq):
            tag, pw = H_KINDS[kind]
            dt = {"0": 0, "L-1": L - 1, "L+1.25": L + 1.25, "3L": 3 * L}[age]
            w.clock[0] = H_T0 + dt
            inside = dt < L
            ctx.update(now=int(H_T0 + dt), age=age, baseline={}, valid=(host == ADDR_A and inside),
                       why_invalid=None if (host == ADDR_A and inside) else ("other-address" if host != ADDR_A else "expired"))
            b, outcome, res = judge(ctx, (V[tag],), pw, host)
            outcomes.append(outcome)
            for sig, det in b:
                bad.append((sig, dict(det, call_index=i, history=[list(c) for c in seq]), i))
        return bad, outcomes
    finally:
        ctx["world"].close()


def judge_history(algo, route, seq):
    bad, outcomes = run_history(algo, route, seq)
    out = []
    for sig, det, i in bad:
        if i > 0 and not run_history(algo, route, seq[i:i + 1])[0]:
            sig += ":only-after-earlier-calls-on-the-same-factory"
        out.append((sig, det))
    return out, outcomes

# ---------------------------------------------------------------- enumeration

ROUTES = ["cred-bytes", "cred-str", "web"]
ADDR_PAIRS = [(ADDR_A, ADDR_A), (ADDR_A, ADDR_B), (None, None), (ADDR_A, None), (None, ADDR_A), (ADDR_B, ADDR_B)]
DTS = ["0", "L-1", "L-0.5", "L-0.25", "L+1.25", "3L"]


def scenarios():
    out = []
    for algo in ALGOS:
        for route in ROUTES:
            for (a, b) in ADDR_PAIRS:
                if route == "web" and (a is None or b is None):
                    continue
                for dt in DTS:
                    for t0 in T0S:
                        out.append((algo, route, a, b, dt, t0))
    return out


def pair_pool(V):
    """Representative variants for the pairwise family: one per class."""
    seen, out = set(), []
    for v in V:
        if v.cls in seen or v.cls == "malformed-response" or v.tag == "layout:rfc":
            continue
        seen.add(v.cls)
        out.append(v)
    return out


def pair_scenarios(tier):
    base = [sc for sc in scenarios() if sc[2] == ADDR_A and sc[3] == ADDR_A and sc[5] == T0S[0]]
    if tier == "quick":
        return [sc for sc in base if sc[4] == "0" and sc[1] != "cred-str"]
    return [sc for sc in scenarios() if sc[5] == T0S[-1] and sc[4] in ("0", "L+1.25") and sc[1] != "cred-str"]


def shards(tier, seed):
    out = [["single", list(sc)] for sc in scenarios()]
    for sc in pair_scenarios(tier):
        for k in range(4):
            out.append(["pairs", list(sc), k, 4])
    calls = history_calls()
    for algo, route, nq in H_CONFIGS:
        n = nq            # the same small sub-family in both tiers
        for first in range(len(calls)):
            out.append(["history", [algo, route], n, first])
    return out


def _jsc(sc):
    return [x.decode("ascii") if isinstance(x, bytes) else x for x in sc]


def run_shard(shard, tier, seed):
    st = Stats()
    fam = shard[0]
    if fam == "history":
        (algo, route), n, first = shard[1], shard[2], shard[3]
        algo_b = algo.encode("ascii")
        head = history_calls()[first]
        for seq in histories(n, head):
            st.evaluations += n
            bad, outcomes = judge_history(algo_b, route, seq)
            st.outcome("history:" + "/".join("accept" if o == "checked:T/F" or o == "checked:F/T" else "reject" for o in outcomes))
            if len({c[2] for c in seq}) > 1 or len({c[0] for c in seq}) > 1:
                st.nt(("history", algo, route, seq))
            st.count("history_calls_after_an_accepted_call", sum(1 for i, o in enumerate(outcomes[1:]) if "T" in outcomes[i]))
            for sig, det in bad:
                st.violation(sig, det, {"family": "history", "config": [algo, route], "calls": [list(c) for c in seq]})
        st.sample({"history": [list(c) for c in seq], "config": [algo, route]})
        return st
    sc = tuple(shard[1])
    sc = (sc[0].encode("ascii") if isinstance(sc[0], str) else sc[0],) + sc[1:]
    ctx = scenario_ctx(sc)
    try:
        V = build_variants(ctx)
        ctx["variants"] = V
        host = sc[3]
        scclass = (sc[0], sc[1], sc[2] == sc[3], sc[2] is None, sc[3] is None, sc[4])
        singles = {}
        todo = [(v,) for v in V]
        if fam == "pairs":
            pool = pair_pool(V)
            for v in pool:                      # results of the single mutations, for attribution
                for pw in (PW_R, PW_W):
                    singles[(v.tag, pw)] = judge(ctx, (v,), pw, host)[2]
            pairs = [(a, b) for a, b in itertools.combinations(pool, 2)
                     if not (a.fields & b.fields) and not (a.cls.startswith("layout") and b.cls.startswith("layout"))]
            todo = pairs[shard[2]::shard[3]]
        first_res = None
        for vs in todo:
            for pw in (PW_R, PW_W):
                bad, outcome, res = judge(ctx, vs, pw, host, singles if fam == "pairs" else None)
                if res == ("skipped",):
                    st.count("mutation_not_applicable")
                    continue
                st.evaluations += 1
                if first_res is None:
                    first_res = res
                st.outcome(outcome.split("@")[0] if outcome.startswith("raised") else outcome)
                if outcome != "checked:T/F":
                    st.nt((scclass, tuple(v.tag for v in vs), pw, outcome))
                for sig, det in bad:
                    st.violation(sig, det, {"scenario": _jsc(sc), "variants": [v.tag for v in vs],
                                            "password_used": pw.decode()})
        if fam == "single":
            # the factory keeps no per-response state: the intact response still gets the same verdict afterwards
            st.evaluations += 1
            again = judge(ctx, (V[0],), PW_R, host)[2]
            if again != first_res:
                st.violation("digest:verdict-changes-on-replay", {"first": list(first_res), "again": list(again)},
                             {"scenario": _jsc(sc), "variants": [V[0].tag], "password_used": PW_R.decode()})
            if ctx.get("skipped_forgeries"):
                st.count("scenarios_without_opaque_forgeries")
        st.counters["variants_max"] = len(V)
        if fam == "pairs":
            st.counters["pair_pool_max"] = len(pair_pool(V))
        st.sample({"scenario": _jsc(sc), "variants": len(V), "example": V[len(V) // 3].tag})
    finally:
        ctx["world"].close()
    return st


def replay(w):
    if w.get("family") == "history":
        return judge_history(w["config"][0].encode("ascii"), w["config"][1], tuple(tuple(c) for c in w["calls"]))[0]
    sc = tuple(w["scenario"])
    sc = (sc[0].encode("ascii"),) + sc[1:]
    ctx = scenario_ctx(sc)
    try:
        ctx["variants"] = build_variants(ctx)
        V = {v.tag: v for v in ctx["variants"]}
        vs = tuple(V[t] for t in w["variants"])
        pw = w["password_used"].encode()
        singles = {}
        if len(vs) > 1:
            for v in vs:
                singles[(v.tag, pw)] = judge(ctx, (v,), pw, sc[3])[2]
        return judge(ctx, vs, pw, sc[3], singles or None)[0]
    finally:
        ctx["world"].close()
