"""C13 callFromThread: the real ReactorBase.callFromThread / runUntilCurrent / wakeUp and the real
POSIX waker pipe under a controlled thread scheduler with line-level preemption."""
import os, select, threading
from mc.choice import explore, shard_prefixes, Chooser
from mc.sched import Sched
from mc.runner import Stats

ID = "C13"
LEVEL = "model_checking"
ENGINE = "mc.sched"
TECHNIQUE = "stateless schedule enumeration with iterative context bounding (controlled scheduler, source-line preemption points) over the real callFromThread/runUntilCurrent/waker code"
RULE = ("P producer threads x K callFromThread calls each against a reactor thread looping runUntilCurrent(); timeout(); doIteration(); "
        "every source line of ReactorBase.callFromThread/runUntilCurrent/wakeUp and of the waker's wakeUp is a preemption point; "
        "all schedules with at most B preemptions are run; the harness's doIteration blocks (in the scheduler) until the real waker pipe "
        "is readable, so a lost wake-up is a deadlock. non-trivial = distinct schedules in which a producer ran between two lines of "
        "runUntilCurrent's thread-queue block or the reactor ran between two lines of a callFromThread")
BOUNDS = {"quick": "2 producers x 1 call, 1 producer x 2 calls, 1 producer x 3 calls; <= 2 preemptions each",
          "thorough": "2x2 with <= 2 and <= 3 preemptions; 3x2 and 2x3 with <= 2; 3x1 with <= 3"}
ASSUMPTIONS = ["one Python source line is atomic (the code relies only on list.append / del slice atomicity under the GIL)",
               "real select/poll/epoll are replaced by the harness's doIteration, which reads readiness of the real waker pipe; what is decided is the Twisted-side queue+waker protocol",
               "states/transitions count scheduler steps executed on the real code"]
MIN = {"quick": {"evaluations": 1500, "nontrivial": 500, "outcomes": 3}}


def _mk_reactor(s, log, total):
    from twisted.internet.base import ReactorBase
    from twisted.internet import _signals

    class MCReactor(ReactorBase):
        def installWaker(self):
            self.waker = _signals._UnixWaker()

        def seconds(self):
            return 100.0

        def _readable(self):
            r, _, _ = select.select([self.waker.i], [], [], 0)
            return bool(r)

        def doIteration(self, timeout):
            if not self._readable():
                if timeout == 0:
                    return
                if timeout is not None:
                    log.append(("finite-timeout", timeout))
                s.wait(self._readable, "doIteration-blocked")
            self.waker.doRead()

    return MCReactor()


def run_one(ch, nprod, ncalls):
    from twisted.internet.base import ReactorBase
    from twisted.internet import _signals
    codes = [ReactorBase.callFromThread.__code__, ReactorBase.runUntilCurrent.__code__, ReactorBase.wakeUp.__code__,
             _signals._UnixWaker.wakeUp.__code__]
    s = Sched(ch, max_steps=4000, trace_codes=codes)
    log, ran = [], []
    total = nprod * ncalls
    r = _mk_reactor(s, log, total)
    tid = {}
    inter = {"n": 0}

    def record(p, i):
        ran.append((p, i, threading.get_ident()))

    def reactor_thread():
        tid["reactor"] = threading.get_ident()
        it = 0
        while len(ran) < total and it < 50:
            it += 1
            r.runUntilCurrent()
            if len(ran) >= total:
                break
            t = r.timeout()
            r.doIteration(t)
        log.append(("iterations", it))

    def producer(p):
        def body():
            for i in range(ncalls):
                r.callFromThread(record, p, i)
        return body

    try:
        s.spawn("reactor", reactor_thread)
        for p in range(nprod):
            s.spawn("prod%d" % p, producer(p))
        s.run()
    finally:
        try:
            r.waker.connectionLost(None)
        except Exception:
            pass
    bad = []
    for name, exc in s.errors():
        bad.append(("thread-died:%s" % type(exc).__name__, "%s: %r" % (name, exc)))
    if s.deadlock:
        kind = "lost-wakeup" if any(n == "reactor" for n, l in s.deadlock) else "deadlock"
        bad.append((kind, "reactor blocked with %d of %d calls run, queue length %d: %r" % (len(ran), total, len(r.threadCallQueue), s.deadlock)))
    if s.horizon_hit:
        bad.append(("livelock", "step horizon"))
    seen = {}
    for p, i, t in ran:
        seen[(p, i)] = seen.get((p, i), 0) + 1
        if t != tid.get("reactor"):
            bad.append(("ran-outside-reactor-thread", "call %r ran on another thread" % ((p, i),)))
    for k, n in seen.items():
        if n > 1:
            bad.append(("call-ran-twice", "%r ran %d times" % (k, n)))
    if not s.deadlock and not s.horizon_hit and not s.errors():
        for p in range(nprod):
            for i in range(ncalls):
                if (p, i) not in seen:
                    bad.append(("call-lost", "%r never ran" % ((p, i),)))
    for p in range(nprod):
        order = [i for (pp, i, t) in ran if pp == p]
        if order != sorted(order):
            bad.append(("per-thread-order-violated", "producer %d calls ran in order %r" % (p, order)))
    # interleaving witness: switches between reactor and producers while inside traced code
    switches = sum(1 for a, b in zip(s.log, s.log[1:]) if a[0] != b[0] and (a[1] or "").find(":") > 0 and (b[1] or "").find(":") > 0)
    return bad, tuple((p, i) for p, i, t in ran), s.steps, switches


CONFIGS_Q = [(2, 1, 2), (1, 2, 2), (1, 3, 2)]
CONFIGS_T = [(2, 2, 2), (2, 2, 3), (3, 2, 2), (2, 3, 2), (3, 1, 3)]


def shards(tier, seed):
    out = []
    for (np_, nc, bound) in (CONFIGS_Q if tier == "quick" else CONFIGS_T):
        for pre, dev in shard_prefixes(lambda c: run_one(c, np_, nc), 6 if tier == "quick" else 8, bound):
            out.append(((np_, nc, bound), pre, dev))
    return out


def run_shard(shard, tier, seed):
    (np_, nc, bound), pre, dev = shard
    st = Stats()
    st.exhaustive = False   # bounded by the preemption bound, complete below it
    seen = set()
    for ch, (bad, order, steps, switches) in explore(lambda c: run_one(c, np_, nc), bound, prefix=pre, prefix_dev=dev):
        st.evaluations += 1
        st.states += steps
        st.transitions += steps
        st.traces += 1
        if switches:
            st.nt(((np_, nc), tuple(ch.choices)))
        st.outcome("order:" + repr(order))
        if st.evaluations % 499 == 1:
            st.sample({"config": [np_, nc, bound], "schedule": ch.choices, "run_order": order})
        for sig, d in bad:
            if sig not in seen:
                seen.add(sig)
                st.violation(sig, {"what": d}, {"config": [np_, nc], "schedule": ch.choices})
    return st


def replay(w):
    return run_one(Chooser(w["schedule"]), *w["config"])[0]
