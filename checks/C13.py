"""C13 callFromThread: the real ReactorBase.callFromThread / runUntilCurrent / wakeUp and the real
POSIX waker pipe under a controlled thread scheduler with line-level preemption."""
import os, select, threading
from mc.choice import explore, shard_prefixes, Chooser
from mc.sched import Sched
from mc.runner import Stats

ID = "C13"
LEVEL = "model_checking"
ENGINE = "mc.sched"
TECHNIQUE = "stateless schedule enumeration with iterative context bounding (controlled scheduler, source-line preemption points) over the real callFromThread/runUntilCurrent/waker code"
RULE = ("P producer threads x K callFromThread calls each against a reactor thread looping runUntilCurrent(); timeout(); doIteration(); "
        "every source line of ReactorBase.callFromThread/runUntilCurrent/wakeUp and of the waker's wakeUp is a preemption point; "
        "all schedules with at most B preemptions are run; the harness's doIteration blocks (in the scheduler) until the real waker pipe "
        "is readable, so a lost wake-up is a deadlock. non-trivial = distinct schedules in which a producer ran between two lines of "
        "runUntilCurrent's thread-queue block or the reactor ran between two lines of a callFromThread")
BOUNDS = {"quick": "2 producers x 1 call, 1 producer x 2 calls, 1 producer x 3 calls; <= 2 preemptions each; asyncio reactor: all interleavings of 2 producers x 2 calls with loop steps over a model event loop (ticking and frozen clock)",
          "thorough": "2 producers x 2 calls and 3 x 1 with <= 2 preemptions; 2 x 1 and 1 x 3 with <= 3; asyncio: 3 producers x 2 calls, all interleavings"}
ASSUMPTIONS = ["one Python source line is atomic (the code relies only on list.append / del slice atomicity under the GIL)",
               "real select/poll/epoll are replaced by the harness's doIteration, which reads readiness of the real waker pipe; what is decided is the Twisted-side queue+waker protocol",
               "states/transitions count scheduler steps executed on the real code"]
MIN = {"quick": {"evaluations": 1500, "nontrivial": 500, "outcomes": 3}}


def _mk_reactor(s, log, total):
    from twisted.internet.base import ReactorBase
    from twisted.internet import _signals

    class MCReactor(ReactorBase):
        def installWaker(self):
            self.waker = _signals._UnixWaker()

        def seconds(self):
            return 100.0

        def _readable(self):
            r, _, _ = select.select([self.waker.i], [], [], 0)
            return bool(r)

        def doIteration(self, timeout):
            if not self._readable():
                if timeout == 0:
                    return
                if timeout is not None:
                    log.append(("finite-timeout", timeout))
                s.wait(self._readable, "doIteration-blocked")
            self.waker.doRead()

    return MCReactor()


_QUIET = []


def _quiet():
    """failing thread calls are logged by Twisted; keep them off stderr"""
    if not _QUIET:
        try:
            from twisted.logger import globalLogBeginner
            globalLogBeginner.beginLoggingTo([lambda e: None], redirectStandardIO=False, discardBuffer=True)
        except Exception:
            pass
        _QUIET.append(1)


def run_one(ch, nprod, ncalls):
    _quiet()
    from twisted.internet.base import ReactorBase
    from twisted.internet import _signals
    codes = [ReactorBase.callFromThread.__code__, ReactorBase.runUntilCurrent.__code__, ReactorBase.wakeUp.__code__,
             _signals._UnixWaker.wakeUp.__code__]
    s = Sched(ch, max_steps=4000, trace_codes=codes)
    log, ran = [], []
    total = nprod * ncalls
    r = _mk_reactor(s, log, total)
    tid = {}
    inter = {"n": 0}

    def record(p, i):
        ran.append((p, i, threading.get_ident()))
        if i == 0:
            # the first call of every producer fails: a failing thread call must not disturb the others
            raise RuntimeError("thread call %d.%d fails" % (p, i))

    def reactor_thread():
        tid["reactor"] = threading.get_ident()
        it = 0
        while len(ran) < total and it < 50:
            it += 1
            r.runUntilCurrent()
            if len(ran) >= total:
                break
            t = r.timeout()
            r.doIteration(t)
        log.append(("iterations", it))

    def producer(p):
        def body():
            for i in range(ncalls):
                r.callFromThread(record, p, i)
        return body

    try:
        s.spawn("reactor", reactor_thread)
        for p in range(nprod):
            s.spawn("prod%d" % p, producer(p))
        s.run()
    finally:
        try:
            r.waker.connectionLost(None)
        except Exception:
            pass
    bad = []
    for name, exc in s.errors():
        bad.append(("thread-died:%s" % type(exc).__name__, "%s: %r" % (name, exc)))
    if s.deadlock:
        kind = "lost-wakeup" if any(n == "reactor" for n, l in s.deadlock) else "deadlock"
        bad.append((kind, "reactor blocked with %d of %d calls run, queue length %d: %r" % (len(ran), total, len(r.threadCallQueue), s.deadlock)))
    if s.horizon_hit:
        bad.append(("livelock", "step horizon"))
    seen = {}
    for p, i, t in ran:
        seen[(p, i)] = seen.get((p, i), 0) + 1
        if t != tid.get("reactor"):
            bad.append(("ran-outside-reactor-thread", "call %r ran on another thread" % ((p, i),)))
    for k, n in seen.items():
        if n > 1:
            bad.append(("call-ran-twice", "%r ran %d times" % (k, n)))
    if not s.deadlock and not s.horizon_hit and not s.errors():
        for p in range(nprod):
            for i in range(ncalls):
                if (p, i) not in seen:
                    bad.append(("call-lost", "%r never ran" % ((p, i),)))
    for p in range(nprod):
        order = [i for (pp, i, t) in ran if pp == p]
        if order != sorted(order):
            bad.append(("per-thread-order-violated", "producer %d calls ran in order %r" % (p, order)))
    # interleaving witness: switches between reactor and producers while inside traced code
    switches = sum(1 for a, b in zip(s.log, s.log[1:]) if a[0] != b[0] and (a[1] or "").find(":") > 0 and (b[1] or "").find(":") > 0)
    return bad, tuple((p, i) for p, i, t in ran), s.steps, switches


CONFIGS_Q = [(2, 1, 2), (1, 2, 2), (1, 3, 2)]
CONFIGS_T = [(2, 2, 2), (3, 1, 2), (2, 1, 3), (1, 3, 3)]


def shards(tier, seed):
    out = []
    for (np_, nc, bound) in (CONFIGS_Q if tier == "quick" else CONFIGS_T):
        for pre, dev in shard_prefixes(lambda c: run_one(c, np_, nc), 6 if tier == "quick" else 8, bound):
            out.append(((np_, nc, bound), pre, dev))
    return out


def run_shard(shard, tier, seed):
    (np_, nc, bound), pre, dev = shard
    st = Stats()
    st.exhaustive = False   # bounded by the preemption bound, complete below it
    seen = set()
    for ch, (bad, order, steps, switches) in explore(lambda c: run_one(c, np_, nc), bound, prefix=pre, prefix_dev=dev):
        st.evaluations += 1
        st.states += steps
        st.transitions += steps
        st.traces += 1
        if switches:
            st.nt(((np_, nc), tuple(ch.choices)))
        st.outcome("order:" + repr(order))
        if st.evaluations % 499 == 1:
            st.sample({"config": [np_, nc, bound], "schedule": ch.choices, "run_order": order})
        for sig, d in bad:
            if sig not in seen:
                seen.add(sig)
                st.violation(sig, {"what": d}, {"config": [np_, nc], "schedule": ch.choices})
    return st


def replay(w):
    return run_one(Chooser(w["schedule"]), *w["config"])[0]


# ---------------------------------------------------------------------------------------------
# asyncio configuration.  AsyncioSelectorReactor.callFromThread hands a closure to the loop's
# call_soon_threadsafe (one atomic append from the producer's point of view); everything else
# (callLater(0), _reschedule, _onTimer, runUntilCurrent) runs on the loop thread.  The shared
# state is therefore only the loop's thread-safe queue, and the interleavings that matter are
# "which producer appends next / the loop runs one ready callback / the loop fires the due timer",
# enumerated exhaustively with mc.choice against a model event loop with a harness clock.
class _Handle:
    def __init__(self, when, cb):
        self.when, self.cb, self.cancelled = when, cb, False

    def cancel(self):
        self.cancelled = True


class _ModelLoop:
    def __init__(self, tick):
        self.now = 50.0
        self.tick = tick     # every reading of the clock advances it by this much (0 = frozen clock)
        self.ready = []      # callbacks queued by call_soon / call_soon_threadsafe
        self.timers = []
        self.jumps = 0

    def time(self):
        self.now += self.tick
        return self.now

    def call_soon_threadsafe(self, cb, *a):
        self.ready.append(lambda: cb(*a))

    call_soon = call_soon_threadsafe

    def call_at(self, when, cb, *a):
        h = _Handle(when, lambda: cb(*a))
        self.timers.append(h)
        return h

    def call_later(self, delay, cb, *a):
        return self.call_at(self.now + delay, cb, *a)

    def add_reader(self, *a): pass
    def remove_reader(self, *a): return True
    def add_writer(self, *a): pass
    def remove_writer(self, *a): return True
    def stop(self): pass
    def is_running(self): return True


def run_asyncio(ch, nprod, ncalls, tick=2 ** -20):
    from twisted.internet.asyncioreactor import AsyncioSelectorReactor
    loop = _ModelLoop(tick)

    class R(AsyncioSelectorReactor):
        def installWaker(self):
            pass

        def seconds(self):
            return loop.time()

    r = R(loop)
    ran, bad = [], []
    todo = [list(range(ncalls)) for _ in range(nprod)]
    steps = 0
    while steps < 200:
        steps += 1
        live = [t for t in loop.timers if not t.cancelled]
        due = [t for t in live if t.when <= loop.now]
        menu = [("prod", p) for p in range(nprod) if todo[p]]
        if loop.ready:
            menu.append(("ready",))
        if due:
            menu.append(("timer",))
        if not menu:
            if live:
                # idle loop: time passes until the next timer
                nxt = min(t.when for t in live)
                if nxt - loop.now > 0.5:
                    loop.jumps += 1
                loop.now = max(loop.now, nxt)
                continue
            break
        ev = menu[ch.choose(len(menu), "asyncio-step", free=True)]
        if ev[0] == "prod":
            p = ev[1]
            i = todo[p].pop(0)
            r.callFromThread(lambda p=p, i=i: ran.append((p, i, loop.now)))
        elif ev[0] == "ready":
            loop.ready.pop(0)()
        else:
            t = min(due, key=lambda t: t.when)
            loop.timers.remove(t)
            t.cb()
    total = nprod * ncalls
    seen = {}
    for p, i, when in ran:
        seen[(p, i)] = seen.get((p, i), 0) + 1
    for k, n in seen.items():
        if n > 1:
            bad.append(("asyncio:call-ran-twice", "%r ran %d times" % (k, n)))
    if len(seen) < total:
        missing = [(p, i) for p in range(nprod) for i in range(ncalls) if (p, i) not in seen]
        bad.append(("asyncio:call-lost-or-stalled", "calls %r never ran although the loop went idle (no ready callback, no timer)" % (missing,)))
    for p in range(nprod):
        order = [i for (pp, i, w) in ran if pp == p]
        if order != sorted(order):
            bad.append(("asyncio:per-thread-order-violated", "producer %d calls ran in order %r" % (p, order)))
    if loop.jumps:
        bad.append(("asyncio:call-not-run-promptly", "the loop had to sleep %d time(s) before a queued call ran: %r" % (loop.jumps, ran)))
    if tick == 0:
        # a clock that does not advance between two callLater(0) calls (coarse clocks) is a separate, recorded case
        bad = [(sig + ":when-the-clock-does-not-advance-between-calls", d) for sig, d in bad]
    return bad, tuple((p, i) for p, i, w in ran), steps


_orig_shards, _orig_run_shard, _orig_replay = shards, run_shard, replay


def shards(tier, seed):
    out = _orig_shards(tier, seed)
    for tick in (2 ** -20, 0):
        out.append(("asyncio", 2, 2, tick) if tier == "quick" else ("asyncio", 3, 2, tick))
    return out


def run_shard(shard, tier, seed):
    if shard[0] != "asyncio":
        return _orig_run_shard(shard, tier, seed)
    _, np_, nc, tick = shard
    st = Stats()
    seen = set()
    for ch, (bad, order, steps) in explore(lambda c: run_asyncio(c, np_, nc, tick), None):
        st.evaluations += 1
        st.states += steps
        st.transitions += steps
        st.traces += 1
        st.count("asyncio_interleavings")
        st.nt(("asyncio", tuple(ch.choices)))
        st.outcome("asyncio-order:" + repr(order)[:60])
        for sig, d in bad:
            if sig not in seen:
                seen.add(sig)
                st.violation(sig, {"what": d}, {"asyncio": [np_, nc, tick], "schedule": ch.choices})
    return st


def replay(w):
    if "asyncio" in w:
        return run_asyncio(Chooser(w["schedule"]), *w["asyncio"])[0]
    return _orig_replay(w)
