"""C03 one result per Deferred + cancellation protocol: explicit-state search over real Deferreds,
lock-step with a reference state machine written from the documentation."""
from mc.bfs import bfs
from mc.runner import Stats

ID = "C03"
LEVEL = "model_checking"
TECHNIQUE = "explicit-state BFS over operation histories on real Deferreds + lock-step reference state machine"
RULE = ("BFS over histories of {callback(fresh value), errback(exception instance), errback(Failure), bare errback() "
        "inside an except block -- each both as the firing call and as a late/extra call --, cancel, add a callback returning a fresh unfired "
        "inner Deferred, add a plain observing callback} applied to the outer Deferred and to every inner Deferred "
        "created so far (<=3 Deferreds quick / 4 thorough, so 'fire/cancel the inner' and two-level waiting are included), for every "
        "(outer canceller, inner canceller) in {none, fires callback, fires errback, does nothing, raises}^2.  "
        "Every transition runs on the real objects and is compared with a reference state machine: exception "
        "raised by the call (AlreadyCalledError or none), canceller call counts, observer invocations with "
        "their inputs, and each Deferred's result.  One extra family (3 canceller configurations) also has "
        "pause(d_i) / unpause(d_i) (unpause only after the program's own pause, <=2 pause calls per history): the "
        "reference holds back a paused Deferred's callbacks, hands a result to a paused waiter without resuming "
        "it, and forwards cancel() of a fired Deferred only while its result IS the Deferred it waits on.  "
        "non-trivial = distinct canonical states after a cancel, a "
        "late (second) result, or while a Deferred was waiting on another")
BOUNDS = {"quick": "25 canceller configurations with a plain inner Deferred + 10 each with a user-subclass inner and a DeferredList([d]) inner + 9 with defer.setDebugging(True), <=3 Deferreds, <=2 pending callbacks per Deferred, depth 8; + 3 configurations (none,none) (noop,noop) (none,cb) with pause/unpause, <=2 pauses per history, depth 7",
          "thorough": "the same 54 configurations (the 9 debugging ones at the quick bounds), <=4 Deferreds, <=2 pending callbacks per Deferred, depth 10; the 3 pause configurations with <=4 Deferreds, depth 8"}
ASSUMPTIONS = [
    "raising canceller: the statement is silent about the outcome; judged only (i) every cancel() that reaches "
    "an unfired Deferred built with a canceller calls that canceller exactly once (so again on a second cancel() "
    "after a raising one) and (ii) a Deferred built with a canceller never swallows a result: once fired, any "
    "further callback/errback raises AlreadyCalledError.  While a raising cancel() leaves everything else "
    "unchanged the reference stays exact; once it does not, the search continues over {callback, errback, "
    "cancel} judging only (i) and (ii) from the real objects' own called/result state; whether cancel() "
    "propagates the canceller's exception is not checked",
    "cancellers that fire do so synchronously with the Deferred they are given; pause/unpause only in the "
    "pause family (balanced: unpause only while the program's own pause count is > 0; chaining itself is C01): "
    "a fired Deferred that was handed a plain result while paused is NOT waiting any more, so cancel() on it "
    "has no effect even though it has not resumed its callbacks yet",
    "canonical state = per Deferred (called, result class, pending callback kinds incl. continuations, "
    "_suppressAlreadyCalled, canceller present, paused / own pause count, pauses left) of the real object plus the reference state; tokens are fresh "
    "and verified equal in that state, so they are dropped",
]
MIN = {"quick": {"states": 60400, "nontrivial": 58000, "outcomes": 30, "transitions": 694000},
       "thorough": {"states": 250000, "nontrivial": 240000, "outcomes": 13, "transitions": 3000000}}
LEVEL_TEXT = ("every history within the bound is executed on real Deferreds and compared after each call with a "
              "reference state machine of the documented one-result / cancellation rules")
LEVEL_NOTE = ("raising cancellers only partly specified; pauses only in one 3-configuration family (<=2 per history); "
              "cancellers fire synchronously or not at all")

KINDS = ["none", "cb", "eb", "noop", "raise"]
TIER = {"quick": dict(depth=8, maxd=3, maxpending=2), "thorough": dict(depth=10, maxd=4, maxpending=2)}
NO = object()


class TokErr(Exception):
    pass


class CancellerBoom(Exception):
    pass


class MD:
    __slots__ = ("kind", "fired", "result", "wait", "pending", "swallow", "ccount", "link", "upause")

    def __init__(self, kind, link=None):
        self.kind = kind        # canceller kind, or "dl": a DeferredList([d_link]) (its cancel() cancels d_link)
        self.link = link
        self.fired = False
        self.result = None      # ("ok", tok) | ("fail", tok) | ("def", j)
        self.wait = None
        self.pending = []       # ("obs", cid) | ("inner", cid, j) | ("cont", waiter)
        self.swallow = 0
        self.ccount = 0
        self.upause = 0         # the program's own unmatched pause() calls (pause family only)


_logging_off = [False]


def _quiet():
    if not _logging_off[0]:
        _logging_off[0] = True
        from twisted.logger import globalLogBeginner
        try:
            globalLogBeginner.beginLoggingTo([lambda e: None], redirectStandardIO=False, discardBuffer=True)
        except Exception:
            pass


_sub = []


def _subclass():
    if not _sub:
        from twisted.internet.defer import Deferred

        class SubDeferred(Deferred):
            pass
        _sub.append(SubDeferred)
    return _sub[0]


class St:
    def __init__(self, k0, k1, tier="quick", shape="plain", pauses=0):
        _quiet()
        self.k0, self.k1 = k0, k1
        self.pauses = pauses    # how many pause() calls a history may contain (0: no pause/unpause in the alphabet)
        self.npause = 0
        self.shape = shape      # what the inner Deferred returned by a callback is: plain / sub / dlist
        self.maxd, self.maxpending = TIER[tier]["maxd"], TIER[tier]["maxpending"]
        self.d = []
        self.m = []
        self.ids = {}
        self.rcount = []        # real canceller call counts
        self.rlog = []
        self.mlog = []
        self.ncid = 0
        self.ntok = 0
        self.flags = set()
        self.bad = []
        self.open = False
        self.lastop = "-"
        self.cancel_hit_unfired = False
        self.new(k0)

    def new_inner(self):
        """-> index of the Deferred a callback will return"""
        if self.shape == "sub":
            return self.new(self.k1, _subclass())
        if self.shape == "dlist":
            from twisted.internet.defer import DeferredList
            j = len(self.d)
            self.rcount.append(0)
            self.d.append(None)
            self.m.append(MD("dl", j + 1))
            x = self.new(self.k1)
            dl = DeferredList([self.d[x]])
            self.d[j] = dl
            self.ids[id(dl)] = j
            self.m[x].pending.append(("dl", None, j))
            return j
        return self.new(self.k1)

    def new(self, kind, cls=None):
        from twisted.internet.defer import Deferred
        cls = cls or Deferred
        j = len(self.d)
        self.rcount.append(0)

        def canceller(arg):
            self.rcount[j] += 1
            if arg is not self.d[j]:
                self.bad.append(("Deferred:canceller-argument-is-not-the-deferred", "d%d canceller got %r" % (j, arg)))
            if kind == "cb":
                arg.callback(("k", j))
            elif kind == "eb":
                arg.errback(TokErr(("k", j)))
            elif kind == "raise":
                raise CancellerBoom()

        d = cls(None if kind == "none" else canceller)
        self.d.append(d)
        self.ids[id(d)] = j
        self.m.append(MD(kind))
        return j


def classify(st, r):
    from twisted.python.failure import Failure
    from twisted.internet.defer import Deferred, CancelledError
    if r is NO:
        return None
    if isinstance(r, Failure):
        v = r.value
        if isinstance(v, TokErr) and v.args:
            return ("fail", v.args[0])
        if isinstance(v, CancelledError):
            return ("fail", "cancelled")
        return ("fail", "?" + type(v).__name__)
    if isinstance(r, Deferred):
        return ("def", st.ids.get(id(r), -1))
    if isinstance(r, list) and len(r) == 1 and isinstance(r[0], tuple) and len(r[0]) == 2:
        inner = classify(st, r[0][1])       # DeferredList result [(success, value)]
        return ("ok", ("dl", bool(r[0][0]), inner[1] if inner and inner[0] != "def" else inner))
    return ("ok", r)


# ---------------------------------------------------------------- reference

def m_run(st, i):
    D = st.m[i]
    while D.pending and D.wait is None and D.upause == 0:     # a paused Deferred does not run callbacks
        e = D.pending.pop(0)
        if e[0] == "cont":
            W = st.m[e[1]]
            W.result = D.result
            D.result = ("ok", None)
            W.wait = None
            if W.upause:
                st.flags.add("result-handed-to-paused-waiter")
            else:
                st.flags.add("waiter-resumed-" + W.result[0])
            m_run(st, e[1])
            continue
        if e[0] == "dl":
            # DeferredList's own callback on its member: the list fires, the member's result passes through
            st.flags.add("deferredlist-fired-" + D.result[0])
            m_fire(st, e[2], ("ok", ("dl", D.result[0] == "ok", D.result[1])))
            continue
        st.mlog.append((i, e[1], D.result))
        if e[0] == "inner":
            j = e[2]
            E = st.m[j]
            if E.fired and E.wait is None and E.upause == 0:
                D.result = E.result
                E.result = ("ok", None)
                st.flags.add("inner-already-fired")
            else:
                D.result = ("def", j)
                D.wait = j
                E.pending.append(("cont", i))
                st.flags.add("waiting-on-inner")


def m_fire(st, i, res):
    """-> expected exception name or None"""
    D = st.m[i]
    if not D.fired:
        D.fired = True
        D.result = res
        m_run(st, i)
        return None
    st.flags.add("late-result")
    if D.swallow:
        D.swallow = 0
        st.flags.add("late-result-swallowed")
        return None
    st.flags.add("late-result-refused")
    return "AlreadyCalledError"


def m_cancel(st, i):
    D = st.m[i]
    if not D.fired and D.kind == "dl":
        st.flags.add("cancel-deferredlist")
        return m_cancel(st, D.link)
    if not D.fired:
        st.flags.add("cancel-unfired-" + D.kind)
        if D.kind == "none":
            D.swallow = 1
        else:
            D.ccount += 1
            if D.kind == "cb":
                m_fire(st, i, ("ok", ("k", i)))
            elif D.kind == "eb":
                m_fire(st, i, ("fail", ("k", i)))
            elif D.kind == "raise":
                return "unspecified"
        if not D.fired:
            m_fire(st, i, ("fail", "cancelled"))
    elif D.wait is not None:
        # fired and CURRENTLY waiting (its result is that Deferred): cancel that one
        st.flags.add("cancel-forwarded")
        return m_cancel(st, D.wait)
    else:
        if D.upause:
            st.flags.add("cancel-fired-paused-noop")
        st.flags.add("cancel-fired-noop")
    return None


# ---------------------------------------------------------------- transitions

def mkobs(st, i, cid):
    def obs(arg):
        st.rlog.append((i, cid, classify(st, arg)))
        return arg
    obs._k = "o"
    return obs


def mkinner(st, i, cid, j):
    def ret(arg):
        st.rlog.append((i, cid, classify(st, arg)))
        return st.d[j]
    ret._k = "i"
    return ret


FIRE_OPS = ("cb", "eb", "ebf", "ebn")


def _fire_real(d, op, tok):
    """the four call shapes: callback(value), errback(exception), errback(Failure), bare errback() in an except"""
    from twisted.python.failure import Failure
    if op == "cb":
        d.callback(tok)
    elif op == "eb":
        d.errback(TokErr(tok))
    elif op == "ebf":
        d.errback(Failure(TokErr(tok)))
    else:
        try:
            raise TokErr(tok)
        except TokErr:
            d.errback()


def apply(st, ev):
    from twisted.internet.defer import AlreadyCalledError
    op, i = ev[0], ev[1]
    st.lastop = op
    st.rlog, st.mlog = [], []
    d = st.d[i]
    M = st.m[i]
    if st.open:
        return apply_open(st, op, i)
    expect = None
    before = None
    was_fired = M.fired
    if op in FIRE_OPS:
        tok = ("t", st.ntok)
        st.ntok += 1
        st.flags.add(("late-" if M.fired else "first-") + op)
        expect = m_fire(st, i, ("ok" if op == "cb" else "fail", tok))
        call = lambda: _fire_real(d, op, tok)
    elif op == "cancel":
        target = i
        while True:
            if st.m[target].fired and st.m[target].wait is not None:
                target = st.m[target].wait
            elif not st.m[target].fired and st.m[target].kind == "dl":
                target = st.m[target].link
            else:
                break
        before = (target, [(x.called, len(getattr(x, "callbacks", ()))) for x in st.d])
        st.cancel_hit_unfired = not st.m[target].fired
        expect = m_cancel(st, i)
        call = d.cancel
    elif op == "pause":
        M.upause += 1
        st.npause += 1
        st.flags.add("pause-" + ("waiting" if M.wait is not None else "fired" if M.fired else "unfired"))
        call = d.pause
    elif op == "unpause":
        M.upause -= 1
        if M.fired and M.upause == 0:
            st.flags.add("unpause-resumes")
            m_run(st, i)
        call = d.unpause
    elif op == "obs":
        cid = st.ncid
        st.ncid += 1
        M.pending.append(("obs", cid))
        if M.fired:
            m_run(st, i)
        call = lambda: d.addBoth(mkobs(st, i, cid))
    elif op == "inner":
        cid = st.ncid
        st.ncid += 1
        j = st.new_inner()
        M.pending.append(("inner", cid, j))
        if M.fired:
            m_run(st, i)
        call = lambda: d.addBoth(mkinner(st, i, cid, j))
    else:
        raise ValueError(ev)
    got = None
    try:
        call()
    except AlreadyCalledError:
        got = "AlreadyCalledError"
    except CancellerBoom:
        got = "CancellerBoom"
    except Exception as e:
        import traceback
        tb = e.__traceback__
        while tb.tb_next is not None:
            tb = tb.tb_next
        if "/twisted/" not in tb.tb_frame.f_code.co_filename:
            raise
        got = type(e).__name__
        st.bad.append(("Deferred:operation-raised:%s:%s" % (op, got), traceback.format_exc()[-1500:]))
        return
    if expect == "unspecified":
        # raising canceller: 'called exactly once by this cancel()' is checked by the count comparison in
        # invariant().  If nothing else happened the reference stays exact (Deferred still unfired, canceller
        # kept); otherwise the reference is left behind and only the two statement-fixed rules are judged from
        # here on (apply_open).
        target, snap = before
        after = [(x.called, len(getattr(x, "callbacks", ()))) for x in st.d]
        if after != snap or st.rlog:
            st.open = True
            st.flags.add("canceller-raised-state-changed")
        st.flags.add("canceller-raised")
        return
    if got == "CancellerBoom":
        st.bad.append(("Deferred:canceller-exception-without-raising-canceller", "%r" % (ev,)))
        return
    if got != expect:
        if op == "cancel":
            sig = "Deferred:cancel-raised:" + str(got)
        elif expect is None and was_fired:
            sig = "Deferred:late-result-after-cancellerless-cancel:expected-swallowed-got-" + str(got)
        elif expect is None:
            sig = "Deferred:first-result-refused:" + str(got)
        else:
            sig = "Deferred:late-result:expected-%s-got-%s" % (expect, "silently-ignored" if got is None else got)
        st.bad.append((sig, "%s on d%d (canceller %s): raised %s, reference %s" % (op, i, M.kind, got, expect)))


def _real_cancel_target(st, i):
    """follow fired-and-waiting links on the real objects"""
    from twisted.internet.defer import Deferred
    seen = set()
    while i not in seen:
        seen.add(i)
        d = st.d[i]
        r = getattr(d, "result", NO)
        if getattr(d, "called", False) and isinstance(r, Deferred) and id(r) in st.ids:
            i = st.ids[id(r)]
        elif not getattr(d, "called", False) and st.m[i].kind == "dl":
            i = st.m[i].link
        else:
            break
    return i


def apply_open(st, op, i):
    """After a raising canceller left the Deferreds in a state the statement does not fix, only two rules are
    judged, from the real objects' own state: (i) cancel() reaching an unfired Deferred built with a canceller
    calls that canceller exactly once (and no other canceller); (ii) a fired Deferred built with a canceller never
    swallows a result: a further callback/errback raises AlreadyCalledError."""
    from twisted.internet.defer import AlreadyCalledError
    d = st.d[i]
    kind = st.m[i].kind
    got = None
    if op in FIRE_OPS:
        was_called = bool(getattr(d, "called", False))
        tok = ("t", st.ntok)
        st.ntok += 1
        try:
            _fire_real(d, op, tok)
        except AlreadyCalledError:
            got = "AlreadyCalledError"
        except Exception as e:      # anything else after a raising canceller is not judged
            got = type(e).__name__
        st.flags.add("unjudged-mode-result")
        if was_called and kind != "none" and got != "AlreadyCalledError":
            st.bad.append(("Deferred:late-result:expected-AlreadyCalledError-got-%s"
                           % ("silently-ignored" if got is None else got),
                           "%s on fired d%d (built with canceller %s) after a canceller had raised: raised %s"
                           % (op, i, kind, got)))
    elif op == "cancel":
        t = _real_cancel_target(st, i)
        unfired = not getattr(st.d[t], "called", False)
        st.cancel_hit_unfired = unfired
        want = list(st.rcount)
        if unfired and st.m[t].kind != "none":
            want[t] += 1
        try:
            d.cancel()
        except Exception:
            pass
        st.flags.add("unjudged-mode-cancel")
        for j in range(len(st.d)):
            # keep invariant()'s count comparison meaningful: reference count = what rule (i) demands
            st.m[j].ccount = want[j]
    else:
        raise ValueError(op)


def enabled(st):
    if st.open:
        evs = []
        for i in range(len(st.d)):
            if st.m[i].kind != "dl":
                evs += [(f, i) for f in FIRE_OPS]
            evs.append(("cancel", i))
        return evs
    evs = []
    for i in range(len(st.d)):
        if st.m[i].kind != "dl":        # a DeferredList is fired by its member only
            evs.extend((f, i) for f in FIRE_OPS)
        evs.append(("cancel", i))
        if st.pauses:
            if st.npause < st.pauses:
                evs.append(("pause", i))
            if st.m[i].upause > 0:
                evs.append(("unpause", i))
        np_ = sum(1 for e in st.m[i].pending if e[0] != "cont")
        runs_now = st.m[i].fired and st.m[i].wait is None and st.m[i].upause == 0
        if runs_now or np_ < st.maxpending:
            evs.append(("obs", i))
            if len(st.d) + (2 if st.shape == "dlist" else 1) <= st.maxd:
                evs.append(("inner", i))
    return evs


def _cls(r):
    if r is None:
        return "noresult"
    if r[0] == "ok" and r[1] is None:
        return "none"
    if r[0] == "def":
        return "waiting"
    if r == ("fail", "cancelled"):
        return "cancelled"
    return r[0]


def invariant(st, hist):
    out = list(st.bad)
    if out:
        return out
    for i in range(len(st.d)):
        M = st.m[i]
        rc, mc = st.rcount[i], M.ccount
        if rc != mc:
            what = ("not-called" if rc < mc else
                    "called-more-than-once" if st.lastop == "cancel" and st.cancel_hit_unfired else
                    "called-on-fired-deferred" if st.lastop == "cancel" else "called-outside-cancel")
            out.append(("Deferred:canceller-%s:%s" % (what, M.kind),
                        "d%d canceller called %d times, reference %d (after %s)" % (i, rc, mc, st.lastop)))
    if out:
        return out
    if st.open:
        return []
    if st.rlog != st.mlog:
        for i in range(len(st.d)):
            rl = [x[1:] for x in st.rlog if x[0] == i]
            ml = [x[1:] for x in st.mlog if x[0] == i]
            if rl == ml:
                continue
            if len(rl) == len(ml) and [x[0] for x in rl] == [x[0] for x in ml]:
                k = next(k for k in range(len(rl)) if rl[k] != ml[k])
                out.append(("Deferred:callback-input-mismatch:after-%s:%s-vs-%s" % (st.lastop, _cls(ml[k][1]), _cls(rl[k][1])),
                            "d%d callback #%d: reference input %r, real %r" % (i, rl[k][0], ml[k][1], rl[k][1])))
            elif len(rl) > len(ml):
                out.append(("Deferred:callbacks-ran-but-reference-did-not:after-" + st.lastop,
                            "d%d: real %r, reference %r" % (i, rl, ml)))
            else:
                out.append(("Deferred:callbacks-not-run:after-" + st.lastop,
                            "d%d: real %r, reference %r" % (i, rl, ml)))
        if out:
            return out
    for i in range(len(st.d)):
        d, M = st.d[i], st.m[i]
        rr = classify(st, getattr(d, "result", NO))
        if bool(getattr(d, "called", rr is not None)) != M.fired:
            out.append(("Deferred:called-flag-mismatch:after-" + st.lastop,
                        "d%d called=%r, reference fired=%r" % (i, d.called, M.fired)))
            continue
        if M.wait is not None:
            ok = rr == ("def", M.wait) or (getattr(d, "_chainedTo", None) is st.d[M.wait] and
                                           (rr is None or rr[0] == "def"))
        else:
            ok = rr == M.result
        if not ok:
            out.append(("Deferred:result-mismatch:after-%s:%s-vs-%s" % (st.lastop, _cls(M.result), _cls(rr)),
                        "d%d holds %r, reference %r" % (i, rr, M.result)))
    return out


def canon(st):
    rows = []
    for i, d in enumerate(st.d):
        M = st.m[i]
        rc = classify(st, getattr(d, "result", NO))
        rcs = "d%d" % rc[1] if rc is not None and rc[0] == "def" else _cls(rc)
        parts = []
        for item in getattr(d, "callbacks", ()):
            fn = item[0][0]
            k = getattr(fn, "_k", None)
            if k is not None:
                parts.append(k)
            else:
                a = item[0][1]
                j = st.ids.get(id(a[0]), -1) if a else -1
                parts.append("C%d" % j)
        mr = M.result
        mrs = "d%d" % mr[1] if mr is not None and mr[0] == "def" else _cls(mr)
        mp = ",".join("C%d" % e[1] if e[0] == "cont" else e[0][0] + (str(e[2]) if e[0] in ("inner", "dl") else "")
                      for e in M.pending)
        rows.append("%d.%s.%s.%d.%d.%d|%d.%s.%s.%d.%d" % (
            d.called, rcs, ",".join(parts), bool(getattr(d, "_suppressAlreadyCalled", False)),
            getattr(d, "_canceller", None) is not None, getattr(d, "paused", 0), M.fired, mrs, mp, M.swallow,
            M.upause))
    # an inner Deferred referenced by a not-yet-run callback: which one matters
    refs = []
    for i, d in enumerate(st.d):
        for e in st.m[i].pending:
            if e[0] == "inner":
                refs.append((i, e[2]))
    return (st.open, st.pauses - st.npause, tuple(rows), tuple(refs))


# ---------------------------------------------------------------- driver

SHAPES = ["plain", "sub", "dlist"]
PAUSE_CONFIGS = [("none", "none"), ("noop", "noop"), ("none", "cb")]
PAUSES_PER_HISTORY = 2
PAUSE_DEPTH = 7


def shards(tier, seed):
    out = [[a, b, "plain"] for a in KINDS for b in KINDS]
    # the shape of the returned inner Deferred matters to forwarding, which depends on the inner canceller
    out += [[a, b, sh] for sh in SHAPES[1:] for a in ("none", "noop") for b in KINDS]
    # the same rules hold with defer.setDebugging(True) (creation / invocation stacks recorded, extra branches
    # in callback()/errback()/_startRunCallbacks)
    out += [[a, b, "plain", "debug"] for a in ("none", "noop", "cb") for b in ("none", "noop", "eb")]
    # pause()/unpause() in the alphabet: a fired Deferred can hold a plain result without having resumed, so
    # "waiting on another Deferred" must mean "its result is that Deferred now", not "it once waited"
    out += [[a, b, "plain", "pause"] for a, b in PAUSE_CONFIGS]
    return out


def run_shard(shard, tier, seed):
    from twisted.internet import defer
    debug = len(shard) > 3 and shard[3] == "debug"
    defer.setDebugging(debug)
    try:
        return _run_shard(shard, tier, seed, debug)
    finally:
        defer.setDebugging(False)


def _run_shard(shard, tier, seed, debug):
    k0, k1, shape = shard[:3]
    pauses = PAUSES_PER_HISTORY if len(shard) > 3 and shard[3] == "pause" else 0
    if debug:
        tier = "quick"      # recording stacks makes every Deferred ~20x dearer: debug configurations keep the quick bounds
    depth = TIER[tier]["depth"]
    if pauses:
        depth = PAUSE_DEPTH + (1 if tier == "thorough" else 0)
    stats = Stats()
    extra = {"config": [k0, k1, shape] + (["debug"] if debug else ["pause"] if pauses else []), "tier": tier}

    def inv(st, hist):
        for f in st.flags:
            stats.outcome(f)
        bad = invariant(st, hist)
        for sig, detail in bad:
            stats.violation(sig, detail, dict(extra, history=[list(e) for e in hist]))
        return bad

    def on_state(st, hist):
        nt = st.flags - {"waiter-resumed-ok", "waiter-resumed-fail", "inner-already-fired"}
        if nt:
            stats.nt((k0, k1, shape, debug, pauses, canon(st)))

    res = bfs(lambda: St(k0, k1, tier, shape, pauses), apply, enabled, canon, inv, depth, on_state=on_state)
    res.violations = []
    stats.add_bfs(res, extra)
    stats.samples = [{"config": extra["config"], "history": h} for h in res.samples[:1]]
    return stats


def replay(w):
    k0, k1 = w["config"][:2]
    shape = w["config"][2] if len(w["config"]) > 2 else "plain"
    from twisted.internet import defer
    defer.setDebugging(len(w["config"]) > 3 and w["config"][3] == "debug")
    try:
        pauses = PAUSES_PER_HISTORY if len(w["config"]) > 3 and w["config"][3] == "pause" else 0
        st = St(k0, k1, w.get("tier", "quick"), shape, pauses)
        for ev in w["history"]:
            apply(st, tuple(ev))
            bad = invariant(st, None)
            if bad:
                return bad
        return []
    finally:
        defer.setDebugging(False)
