"""C08 ReactorBase timed calls: explicit-state search over a real ReactorBase driven by a harness
clock, lock-step with the reference timer model of checks/_timers.py."""
from mc.bfs import bfs
from mc.runner import Stats
from checks import _timers as T

ID = "C08"
LEVEL = "model_checking"
TECHNIQUE = "explicit-state BFS over a real ReactorBase (harness clock, runUntilCurrent()/timeout() called directly), lock-step reference timer model"
RULE = ("BFS over histories of callLater(d in {0,1,2}) with an optional one-step script run by the call itself "
        "(callLater from inside; cancel / reset sooner / reset later / delay +/- of the oldest or newest other "
        "pending call), cancel(i), reset(i, {0,1,3}), delay(i, {-1,+1,+2}) and advance({0,1,2,8}) + one iteration "
        "(runUntilCurrent then timeout) from four initial states: empty; 51 far-future calls inserted into the "
        "heap and then cancelled (compaction armed); 60 cancelled + 10 live calls interleaved in a non-sorted heap "
        "(two deep live calls are targets); four live calls in the heap whose root carries a positive delayed_time. Every transition runs on the real reactor; each run event, "
        "getDelayedCalls() after every operation and inside every running call, and timeout() after every "
        "iteration are compared with a dict-of-times reference. non-trivial = distinct (state, exercised case) "
        "pairs for transitions that ran a call, rescheduled or cancelled a queued/staged call, or ran a script")
BOUNDS = {"quick": "<= 4 live user calls, <= 1 scripted call per history; depth 5 (empty), 5 (armed-51), 4 (mixed 60+10), 4 (warm heap of 4)",
          "thorough": "<= 4 live user calls, <= 1 scripted call per history; depth 6 (empty), 6 (armed-51), 5 (mixed 60+10), 5 (warm heap of 4); plus depth 5 from empty with <= 2 scripted calls"}
ASSUMPTIONS = [
    "integer times: the reference and the reactor compute the same sums exactly",
    "canonical state = pending calls in creation order (time relative to now, script, flags) + the real heap and "
    "staging list layout (slot -> pending rank / cancelled, time - now, delayed_time) + _cancellations + scripts "
    "used; the reactor's behaviour is invariant under translation of the clock",
    "a call created during an iteration is exempt from the 'no earlier pending call' clause until the next "
    "iteration (it may not run in the creating iteration, so the two clauses cannot both bind)",
    "ReactorBase is subclassed only to supply seconds() and a no-op installWaker(); run() is never called",
]
_GUARDS = {"compaction_armed_armed51": 1, "compaction_armed_mixed": 1, "mixed_filter_breaks_heap": 1}
MIN = {"quick": dict({"states": 470000, "nontrivial": 450000, "outcomes": 18}, **_GUARDS),
       "thorough": dict({"states": 470000, "nontrivial": 450000, "outcomes": 18}, **_GUARDS)}

LEVEL_TEXT = ("every history of the alphabet up to the depth bound, from each initial heap shape, is executed on a "
              "real ReactorBase and every run event, getDelayedCalls() and timeout() is compared with a "
              "dict-of-times reference; a pass means no such history runs a call early, late, twice, out of order, "
              "in its creating iteration, or mis-reports pending calls / the sleep timeout")
LEVEL_NOTE = ("bounded: integer times, <= 4 live user calls (+10 preset), one-step scripts, depth 4..6; the clock "
              "does not move inside an iteration; threads, I/O and run() are not involved")

INITS = ["empty", "armed51", "mixed", "warm"]
# families explored per tier: (initial state, depth, max scripted calls per history)
FAMILIES = {"quick": [("empty", 5, 1), ("armed51", 5, 1), ("mixed", 4, 1), ("warm", 4, 1)],
            "thorough": [("empty", 6, 1), ("empty", 5, 2), ("armed51", 6, 1), ("mixed", 5, 1), ("warm", 5, 1)]}
CAP = 4
SCRIPT_IDS = tuple(range(1, 12))   # _timers.SCRIPTS[1..11]
# in the two big initial states a scripted call is created with delay 0 and aims at the newest target
BIG_SCRIPT_IDS = (1, 3, 5, 7, 9, 11)

# mixed initial state: creation index -> time of the 10 live calls; the other 60 get 1 + (7 i mod 12)
LIVE = {5: 6, 11: 3, 17: 5, 23: 2, 29: 4, 35: 7, 41: 3, 47: 5, 68: 9, 69: 10}


def make(init):
    tm = T.Timers("reactor")
    if init == "armed51":
        raw = [tm.raw_call(1000 + (i * 7) % 51) for i in range(51)]
        tm.advance(0)          # moves them from the staging list into the heap
        for dc in raw:
            dc.cancel()
    elif init == "mixed":
        raw = []
        for i in range(70):
            if i in LIVE:
                tm.new_call(LIVE[i], None, i >= 68, False)
            else:
                raw.append(tm.raw_call(1 + (i * 7) % 12))
        tm.advance(0)
        for dc in raw:
            dc.cancel()
    elif init == "warm":
        # four targetable calls already in the heap, the root carrying a positive delayed_time:
        # heap [A(time 1, +2 -> 3), B(1), C(3), D(3)]
        a = tm.new_call(1, None, True, False)
        tm.new_call(1, None, True, False)
        for _ in range(2):
            c = tm.new_call(2, None, True, False)
            tm.op_delay(c, 1)
        tm.advance(0)
        tm.op_delay(a, 2)
    tm.epoch = 0
    tm.ops = 0
    del tm.runlog[:]
    return tm


def apply(tm, ev):
    tm.apply(ev)


def invariant(tm, hist):
    return list(tm.bad)


def canon(tm):
    # 64-bit hash of the canonical tuple (70-slot heaps make the tuples large; PYTHONHASHSEED is fixed)
    return hash(tm.canon())


def _initial(init, prefix):
    def mk():
        tm = make(init)
        for ev in prefix:
            tm.apply(ev)
        return tm
    return mk


SPLIT = {"quick": 1, "thorough": 2}


def _enabled(init, scripted):
    if init == "empty":
        return lambda tm: tm.enabled(CAP, scripted, SCRIPT_IDS)
    return lambda tm: tm.enabled(CAP, scripted, BIG_SCRIPT_IDS, scripted_delays=(0,))


def shards(tier, seed):
    out = []
    split = SPLIT[tier]
    for init, depth, scripted in FAMILIES[tier]:
        out.append(["pre", init, [], depth, scripted])
        front = []
        bfs(_initial(init, []), apply, _enabled(init, scripted), canon, lambda st, h: (), split,
            on_state=lambda st, h: front.append([list(e) for e in h]) if len(h) == split else None)
        out.extend(["sub", init, h, depth, scripted] for h in front)
    return out


def run_shard(shard, tier, seed):
    mode, init, prefix, fdepth, scripted = shard[0], shard[1], [tuple(e) for e in shard[2]], shard[3], shard[4]
    depth = SPLIT[tier] if mode == "pre" else fdepth - SPLIT[tier]
    stats = Stats()
    en = _enabled(init, scripted)

    def inv(tm, hist):
        fl = tm.last_flags
        if fl:
            key = tuple(sorted(fl))
            stats.nt((init, hash(tm.canon()), key))
            for f in fl:
                stats.outcome(f)
        return tm.bad

    if mode == "pre" and init in ("armed51", "mixed"):
        # vacuity: the preset really arms the compaction path, and filtering the mixed heap really
        # needs the heapify (private layout, read defensively: unknown layout counts as satisfied)
        tm0 = make(init)
        heap = getattr(tm0.r, "_pendingTimedCalls", None)
        canc = getattr(tm0.r, "_cancellations", None)
        if canc is None or canc > 50:
            stats.count("compaction_armed_" + init)
        if init == "mixed":
            live = None if heap is None else [x.time for x in heap if not x.cancelled]
            if live is None or any(live[(i - 1) // 2] > live[i] for i in range(1, len(live))):
                stats.count("mixed_filter_breaks_heap")
    res = bfs(_initial(init, prefix), apply, en, canon, inv, depth)
    pre = [list(e) for e in prefix]
    for i, (sig, detail, hist) in enumerate(res.violations):
        res.violations[i] = (sig, detail, pre + [list(e) for e in hist])
    res.samples = [pre + [list(e) for e in h] for h in res.samples[-2:]]
    stats.add_bfs(res, {"init": init})
    stats.samples = [{"init": init, "history": h} for h in res.samples]
    return stats


def replay(w):
    tm = make(w["init"])
    for ev in w["history"]:
        tm.apply(tuple(ev))
    return list(tm.bad)
