"""C18 HTTP/1.1 server parsing is independent of segmentation: a real HTTPChannel fed every split of every
stream of a bounded grammar must hand the application the same requests and write the same bytes as when
the stream arrives in one piece (the single-delivery run of the same real code is the oracle)."""
import itertools

from mc.runner import Stats
from checks import _http as H

ID = "C18"
LEVEL = "exploration"
TECHNIQUE = "bounded-exhaustive stream x segmentation enumeration, differential against the single-delivery run"
RULE = ("streams = (request line in GET/POST/HTTP-1.0/HEAD/malformed) x (14 framing variants: none, CL 0/3/too-long/x, chunked plain / "
        "with extensions+trailer / bad size / missing CRLF, CL+TE, repeated CL, folded CL, lower/upper-case names) x (10 header "
        "variants: Host, Expect 100-continue, obs-fold, Connection close, no colon, NUL, bad name, bare CR, fold-first, many) x "
        "(9 continuations: nothing, pipelined GET, POST+CL, POST chunked, leading CRLF once/twice, garbage, HTTP/1.0, two more requests), "
        "plus bare-LF units, plus boundary streams under tightened documented limits (MAX_LENGTH, totalHeadersSize, maxHeaders, "
        "maxChunkSizeLineLength: lines of limit-1..limit+3) and trailer sections of limit-3..limit+1 bytes at the real limit; "
        "each stream x 3 response timings (inside process(), deferred to the next delivery, deferred to the end) x every split in the "
        "tier's cut bound and byte-at-a-time; delivery stops when the server closes. "
        "non-trivial = distinct (stream, timing, set of syntax elements a cut falls strictly inside)")
BOUNDS = {"quick": "5166 streams of 9-213 bytes (+10 of 64 KiB): every 1-cut + bytewise (every 2-cut when <=44 bytes and for the limit streams)",
          "thorough": "same streams: every 2-cut when <=100 bytes (else every 1-cut), every 3-cut when <=30 bytes, + bytewise"}
ASSUMPTIONS = [
    "the resource is deterministic: its response depends only on the request index, method and body length",
    "a deferred response is produced either before the next delivery or after the last one; the one-piece run with the same "
    "timing class is the reference, so the verdict does not depend on the harness's own idea of HTTP",
    "the peer stops sending once the server has called loseConnection (mc.net.deliver semantics)",
    "limits are tightened only through documented attributes (HTTPChannel.MAX_LENGTH/totalHeadersSize/maxHeaders; "
    "http.maxChunkSizeLineLength=8 in a separate family); the trailer limit is exercised at its real value",
]
MIN = {"quick": {"evaluations": 1400000, "nontrivial": 90000, "outcomes": 11},
       "thorough": {"evaluations": 15000000, "nontrivial": 90000, "outcomes": 11}}

CRLF = b"\r\n"


# ------------------------------------------------------------------ grammar (parts are (label, bytes))
def line(label, b):
    return [(label, b), ("line-crlf", CRLF)]


def chunked_body(spec):
    """spec: list of (sizeline, data or None, crlf-after-data) then last-chunk line, trailers."""
    parts = []
    for sizeline, data, after in spec["chunks"]:
        parts += [("chunk-size", sizeline), ("chunk-size-crlf", CRLF), ("chunk-data", data)]
        if after:
            parts.append(("chunk-data-crlf", after))
    parts += [("last-chunk", spec.get("last", b"0")), ("last-chunk-crlf", CRLF)]
    for t in spec.get("trailers", ()):
        parts += [("trailer", t), ("trailer-crlf", CRLF)]
    parts.append(("chunk-final-crlf", CRLF))
    return parts


FRAMINGS = {
    "none": ([], []),
    "cl0": ([b"Content-Length: 0"], []),
    "cl3": ([b"Content-Length: 3"], [("cl-body", b"abc")]),
    "cl-long": ([b"Content-Length: 6"], [("cl-body", b"ab")]),          # body swallows the next request's first bytes
    "clx": ([b"Content-Length: x"], [("cl-body", b"abc")]),
    "chunked": ([b"Transfer-Encoding: chunked"], chunked_body({"chunks": [(b"3", b"abc", CRLF)]})),
    "chunked-ext-trailer": ([b"Transfer-Encoding: chunked"],
                            chunked_body({"chunks": [(b"2;x=1", b"a\r", CRLF), (b"1", b"\n", CRLF)], "last": b"00;y",
                                          "trailers": [b"A: b"]})),
    "chunked-badsize": ([b"Transfer-Encoding: chunked"], chunked_body({"chunks": [(b"g", b"abc", CRLF)]})),
    "chunked-nocrlf": ([b"Transfer-Encoding: chunked"], chunked_body({"chunks": [(b"3", b"abc", b"X")]})),
    "cl+te": ([b"Content-Length: 3", b"Transfer-Encoding: chunked"], [("cl-body", b"abc")]),
    "cl-dup": ([b"Content-Length: 3", b"Content-Length: 3"], [("cl-body", b"abc")]),
    "cl-fold": ([b"Content-Length:", b" 3"], [("cl-body", b"abc")]),
    "cl-lower": ([b"content-length: 3"], [("cl-body", b"abc")]),
    "te-upper": ([b"TRANSFER-ENCODING: Chunked"], chunked_body({"chunks": [(b"3", b"abc", CRLF)]})),
}
EXTRAS = {
    "host": [b"Host: h"],
    "expect": [b"Host: h", b"Expect: 100-continue"],
    "fold": [b"X-A: a", b"\t b", b"Host: h"],
    "close": [b"Connection: close"],
    "nocolon": [b"Host h"],
    "nul": [b"X: a\x00b"],
    "badname": [b"Ho st: h"],
    "cr": [b"X: a\rb", b"Host: h"],
    "fold-first": [b" X: y", b"Host: h"],
    "many": [b"A:", b"B: 1", b"A: 2", b"Cookie: k=v; q"],
}
REQLINES = {
    "get": b"GET / HTTP/1.1",
    "post": b"POST /p?a=1 HTTP/1.1",
    "get10": b"GET /0 HTTP/1.0",
    "head": b"HEAD /h HTTP/1.1",
}


def unit(rl, extra, framing):
    hdrs, body = FRAMINGS[framing]
    parts = line("request-line", REQLINES[rl])
    for h in EXTRAS[extra] + hdrs:
        parts += line("fold-line" if h[:1] in (b" ", b"\t") else "header-line", h)
    parts.append(("end-crlf", CRLF))
    return parts + list(body)


def simple(rl=b"GET /2 HTTP/1.1", hdrs=(b"Host: h",), body=()):
    parts = line("request-line", rl)
    for h in hdrs:
        parts += line("header-line", h)
    parts.append(("end-crlf", CRLF))
    return parts + list(body)


CONTS = {
    "none": [],
    "get": simple(),
    "post-cl": simple(b"POST /3 HTTP/1.1", (b"Content-Length: 3",), [("cl-body", b"xyz")]),
    "post-chunked": simple(b"POST /4 HTTP/1.1", (b"Transfer-Encoding: chunked",),
                           chunked_body({"chunks": [(b"1", b"z", CRLF)]})),
    "crlf-get": [("leading-crlf", CRLF)] + simple(),
    "crlf2-get": [("leading-crlf", CRLF), ("leading-crlf", CRLF)] + simple(),
    "garbage": [("garbage", b"X")],
    "get10": simple(b"GET /5 HTTP/1.0", ()),
    "post-cl+get+get": simple(b"POST /3 HTTP/1.1", (b"Content-Length: 3",), [("cl-body", b"xyz")]) + simple() + simple(b"GET /6 HTTP/1.1"),
}


def grammar_streams():
    """[(name, parts, cfg)] cfg None = default limits."""
    out = []
    for rl in REQLINES:
        for ex in EXTRAS:
            for fr in FRAMINGS:
                first = unit(rl, ex, fr)
                for cn, cont in CONTS.items():
                    out.append(("%s/%s/%s/%s" % (rl, ex, fr, cn), first + cont, None))
    # malformed request lines, leading empty lines, bare-LF units
    for nm, first in [
        ("badline", line("request-line", b"GET /") + [("end-crlf", CRLF)]),
        ("badline4", line("request-line", b"GET / HTTP/1.1 x") + line("header-line", b"Host: h") + [("end-crlf", CRLF)]),
        ("lead1", [("leading-crlf", CRLF)] + unit("post", "host", "cl3")),
        ("lead2", [("leading-crlf", CRLF), ("leading-crlf", CRLF)] + unit("get", "host", "none")),
        ("lf-unit", [("lf-unit", b"GET / HTTP/1.1\nHost: h\n\n")]),
        ("lf-header", line("request-line", b"POST / HTTP/1.1") + line("header-line", b"Host: h\nContent-Length: 3") +
         [("end-crlf", CRLF), ("cl-body", b"abc")]),
    ]:
        for cn, cont in CONTS.items():
            out.append(("%s/%s" % (nm, cn), first + cont, None))
    return out


TIGHT = {"MAX_LENGTH": 20, "totalHeadersSize": 48, "maxHeaders": 2}
TIGHT_CHUNKMAX = 8


def limit_streams():
    out = []
    mx = TIGHT["MAX_LENGTH"]
    tail = {"none": [], "get": simple()}
    for cn, cont in tail.items():
        for L in range(mx - 1, mx + 4):
            rl = b"GET /" + b"a" * (L - 14) + b" HTTP/1.1"
            assert len(rl) == L
            out.append(("tight/reqline%d/%s" % (L, cn), line("request-line", rl) + line("header-line", b"Host: h") + [("end-crlf", CRLF)] + cont, "tight"))
            hl = b"X: " + b"v" * (L - 3)
            out.append(("tight/hdrline%d/%s" % (L, cn), line("request-line", b"GET / HTTP/1.1") + line("header-line", hl) + [("end-crlf", CRLF)] + cont, "tight"))
        for extra in (13, 14, 15, 16, 17):      # 14 + 16 + (3+extra) around totalHeadersSize 48
            out.append(("tight/total%d/%s" % (33 + extra, cn),
                        line("request-line", b"GET / HTTP/1.1") + line("header-line", b"A: " + b"v" * 13) +
                        line("header-line", b"B: " + b"v" * extra) + [("end-crlf", CRLF)] + cont, "tight"))
        for nh in (1, 2, 3, 4):
            p = line("request-line", b"GET / HTTP/1.1")
            for i in range(nh):
                p += line("header-line", b"H%d: v" % i)
            out.append(("tight/nhdr%d/%s" % (nh, cn), p + [("end-crlf", CRLF)] + cont, "tight"))
        for L in range(TIGHT_CHUNKMAX - 3, TIGHT_CHUNKMAX + 3):
            sz = b"3;" + b"e" * (L - 2)
            p = line("request-line", b"POST / HTTP/1.1") + line("header-line", b"Transfer-Encoding: chunked") + [("end-crlf", CRLF)]
            p += chunked_body({"chunks": [(sz, b"abc", CRLF)]})
            out.append(("chunk8/chunkline%d/%s" % (L, cn), p + cont, "chunk8"))
            p = line("request-line", b"POST / HTTP/1.1") + line("header-line", b"Transfer-Encoding: chunked") + [("end-crlf", CRLF)]
            p += chunked_body({"chunks": [(b"1", b"z", CRLF)], "last": b"0;" + b"e" * (L - 2)})
            out.append(("chunk8/lastline%d/%s" % (L, cn), p + cont, "chunk8"))
    return out


# streams of the limit families that lie inside every limit: they must be served (vacuity guard)
SERVED = {"reqline19", "reqline20", "hdrline19", "hdrline20", "total46", "total47", "total48", "nhdr1", "nhdr2",
          "chunkline5", "chunkline6", "chunkline7", "lastline5", "lastline6", "lastline7", "trailer-3", "trailer-2", "trailer-3x2", "trailer-2x2"}


def trailer_limit():
    from twisted.web.http import _ChunkedTransferDecoder
    return getattr(_ChunkedTransferDecoder(lambda b: None, lambda b: None), "_maxTrailerHeadersSize", 2 ** 16)


def trailer_streams():
    tl = trailer_limit()
    out = []
    for T in range(tl - 3, tl + 2):
        for two in (False, True):
            if two:
                t1 = b"A: " + b"t" * 40
                t2 = b"B: " + b"u" * (T - len(t1) - 2 - 5)
                trailers = [t1, t2]
            else:
                trailers = [b"A: " + b"t" * (T - 5)]
            assert sum(len(t) + 2 for t in trailers) == T
            p = line("request-line", b"POST /t HTTP/1.1") + line("header-line", b"Transfer-Encoding: chunked") + [("end-crlf", CRLF)]
            p += chunked_body({"chunks": [(b"1", b"z", CRLF)], "trailers": trailers})
            out.append(("trailer%+d%s" % (T - tl, "x2" if two else ""), p + simple(), "trailer"))
    return out


# ------------------------------------------------------------------ running
def labels_of(parts):
    inside, after, off = {}, {}, 0
    for lab, b in parts:
        for k in range(1, len(b)):
            inside[off + k] = lab
        off += len(b)
        after[off] = lab
    return inside, after


def cut_label(cuts, inside, after, n):
    if len(cuts) > 3:
        return "bytewise"
    return "+".join(sorted(set(inside.get(p) or ("after-" + after.get(p, "?")) for p in cuts)))


def segs_of(data, cuts):
    out, last = [], 0
    for p in cuts:
        out.append(data[last:p])
        last = p
    out.append(data[last:])
    return out


class Env:
    """Apply a configuration for the duration of a block (module global restored afterwards)."""

    def __init__(self, cfg):
        self.cfg = cfg

    def __enter__(self):
        from twisted.web import http
        self.http = http
        self.old = getattr(http, "maxChunkSizeLineLength", None)
        if self.cfg == "chunk8":
            http.maxChunkSizeLineLength = TIGHT_CHUNKMAX
        return TIGHT if self.cfg == "tight" else None

    def __exit__(self, *a):
        if self.cfg == "chunk8" and self.old is not None:
            self.http.maxChunkSizeLineLength = self.old


FAMILY = {None: "", "tight": ":tightened-limits", "chunk8": ":chunk-size-line-limit-8", "trailer": ":trailer-section-at-size-limit"}


def compare(whole, split, lab, cfg=None):
    lab += FAMILY[cfg]
    for what, a, b in (("crash", whole.crash, split.crash), ("requests", whole.requests, split.requests),
                       ("written", whole.written, split.written), ("closed", whole.closed, split.closed)):
        if a != b:
            return [("HTTPChannel:split-changes-%s:cut-in=%s" % (what, lab),
                     {"what": what, "one-piece": _short(a), "split": _short(b)})]
    return []


def _short(x):
    r = repr(x)
    return r if len(r) < 700 else r[:340] + " ... " + r[-340:]


def shape(run):
    import re
    codes = [c.decode() for c in re.findall(rb"HTTP/1\.[01] (\d{3}) ", run.written)]
    return "%dreq:%s:%s%s" % (len(run.requests), ",".join(codes) or "-", "closed" if run.closed else "open",
                              ":crash" if run.crash else "")


MODES = ["imm", "next", "end"]


def cut_space(name, n, cfg, tier):
    if cfg == "trailer":
        pos = sorted(set([1, 17, 40, 60, 70, 100] + list(range(n - 40, n))))
        pos = [p for p in pos if 0 < p < n]
        yield ()
        for p in pos:
            yield (p,)
        if tier != "quick":
            for c in itertools.combinations(pos[-12:], 2):
                yield c
        return
    k = 1
    if cfg in ("tight", "chunk8") or n <= (44 if tier == "quick" else 100):
        k = 2
    if tier != "quick" and n <= 30:
        k = 3
    for r in range(0, k + 1):
        yield from itertools.combinations(range(1, n), r)
    yield tuple(range(1, n))


def run_one(st, name, parts, cfg, tier):
    data = b"".join(b for _, b in parts)
    n = len(data)
    inside, after = labels_of(parts)
    with Env(cfg) as limits:
        wholes = {}
        for mode in MODES:
            mc = "imm" if mode == "imm" else "deferred"
            if mc not in wholes:
                wholes[mc] = H.run_stream([data], "imm" if mc == "imm" else "end", limits)
                st.outcome(shape(wholes[mc]))
                if cfg in ("tight", "chunk8", "trailer") and name.split("/")[-2 if "/" in name else 0] in SERVED and not wholes[mc].requests:
                    raise AssertionError("harness: in-limit stream %s is not served at all (%s)" % (name, shape(wholes[mc])))
            whole = wholes[mc]
            for cuts in cut_space(name, n, cfg, tier):
                if not cuts:
                    continue
                st.evaluations += 1
                split = H.run_stream(segs_of(data, cuts), mode, limits)
                ins = frozenset(inside[p] for p in cuts if p in inside)
                if ins:
                    st.nt((name, mode, ins))
                if split.key() != whole.key():
                    for sig, det in compare(whole, split, cut_label(cuts, inside, after, n), cfg):
                        det["stream"] = _short(data)
                        det["cuts"] = list(cuts)[:8]
                        det["mode"] = mode
                        st.violation(sig, det, {"name": name, "parts": [[l, b] for l, b in parts], "cfg": cfg,
                                                "cuts": list(cuts), "mode": mode})
                    break    # one witness per (stream, timing)
    if n < 200:
        st.sample({"stream": data, "one-piece": shape(wholes["imm"])}, 2)


def all_streams():
    return grammar_streams() + limit_streams() + trailer_streams()


NSH = 64


def shards(tier, seed):
    items = all_streams()
    cost = []
    for i, (name, parts, cfg) in enumerate(items):
        n = sum(len(b) for _, b in parts)
        c = n * n if (cfg in ("tight", "chunk8") or n <= (44 if tier == "quick" else 100)) else 3 * n
        if cfg == "trailer":
            c = 400000
        cost.append((-c * n, i))
    cost.sort()
    bins = [[] for _ in range(NSH)]
    load = [0] * NSH
    for c, i in cost:
        k = load.index(min(load))
        bins[k].append(i)
        load[k] -= c
    return [b for b in bins if b]


def run_shard(shard, tier, seed):
    st = Stats()
    items = all_streams()
    for i in shard:
        name, parts, cfg = items[i]
        run_one(st, name, parts, cfg, tier)
    return st


def replay(w):
    parts = [(l, b) for l, b in w["parts"]]
    data = b"".join(b for _, b in parts)
    inside, after = labels_of(parts)
    cuts = tuple(w["cuts"])
    with Env(w["cfg"]) as limits:
        whole = H.run_stream([data], "imm" if w["mode"] == "imm" else "end", limits)
        split = H.run_stream(segs_of(data, cuts), w["mode"], limits)
    return [(sig, det) for sig, det in compare(whole, split, cut_label(cuts, inside, after, len(data)), w["cfg"])]
