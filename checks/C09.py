"""C09 task.Clock: explicit-state search over a real Clock, lock-step with the reference timer model
of checks/_timers.py adapted to Clock's run-within-advance semantics."""
from mc.bfs import bfs
from mc.runner import Stats
from checks import _timers as T

ID = "C09"
LEVEL = "model_checking"
TECHNIQUE = "explicit-state BFS over a real task.Clock, lock-step reference timer model"
RULE = ("BFS over histories of callLater(d in {0,1,2}) with an optional one-step script run by the call itself "
        "(callLater(0)/callLater(1) from inside; cancel / reset sooner / reset later / delay +/- of the oldest or "
        "newest other pending call), cancel(i), reset(i, {0,1,3}), delay(i, {-1,+1,+2}) and advance({0,1,2,8}) on a "
        "real Clock, from an empty Clock and from one holding four pending calls for times 0..3. Every transition runs on the real Clock; each run event (which advance, clock time, what "
        "else was pending, creation order among same-time never-rescheduled calls) and getDelayedCalls() after "
        "every operation and inside every running call are compared with a dict-of-times reference. non-trivial "
        "= distinct (state, exercised case) pairs for transitions that ran a call, rescheduled or cancelled a "
        "call, or ran a script")
BOUNDS = {"quick": "<= 4 live user calls; from empty: depth 5 with <= 1 scripted call and depth 4 with <= 2 scripted calls per "
                   "history; from 4 preset pending calls (times 0..3): depth 4, no scripts",
          "thorough": "<= 4 live user calls; from empty: depth 6 with <= 1 scripted call and depth 5 with <= 2 scripted calls per "
                      "history; from 4 preset pending calls (times 0..3): depth 5, no scripts"}
ASSUMPTIONS = [
    "integer times: the reference and the Clock compute the same sums exactly",
    "canonical state = pending calls in creation order (time relative to now, script, rescheduled flag) + the "
    "order of Clock.calls + scripts used; Clock's behaviour is invariant under translation of the clock",
    "'calls run in nondecreasing scheduled time' is decided as: when a call runs no other pending call is "
    "scheduled strictly earlier (a call moved before an already-run call cannot run before it)",
]
MIN = {"quick": {"states": 550000, "nontrivial": 520000, "outcomes": 14},
       "thorough": {"states": 550000, "nontrivial": 520000, "outcomes": 14}}

LEVEL_TEXT = ("every history of the alphabet up to the depth bound is executed on a real task.Clock and every run "
              "event and getDelayedCalls() is compared with a dict-of-times reference; a pass means no such history "
              "runs a call early, late, twice, after cancellation, before an earlier pending call or out of "
              "creation order among same-time never-rescheduled calls")
LEVEL_NOTE = "bounded: integer times, <= 4 live user calls, one-step scripts, depth 4..6; functions do not raise"

# families (initial state, depth, max scripted calls per history) explored per tier.
# "warm4": four pending never-rescheduled calls for times 0,1,2,3 already in Clock.calls, so that a
# few postponements (which do not re-sort) followed by a callLater for an existing time and an advance
# fit in a short history (order-of-insertion bugs that only show on an unsorted list)
FAMILIES = {"quick": [("empty", 5, 1), ("empty", 4, 2), ("warm4", 4, 0)],
            "thorough": [("empty", 6, 1), ("empty", 5, 2), ("warm4", 5, 0)]}
CAP = 4
SCRIPT_IDS = tuple(range(1, 13))
SPLIT = {"quick": 1, "thorough": 2}


def make(init="empty"):
    tm = T.Timers("clock")
    if init == "warm4":
        for d in (0, 1, 2, 3):
            tm.new_call(d, None, True, False)
        tm.ops = 0
    return tm


def apply(tm, ev):
    tm.apply(ev)


def canon(tm):
    return hash(tm.canon())    # PYTHONHASHSEED is fixed by ./check


def _initial(init, prefix):
    def mk():
        tm = make(init)
        for ev in prefix:
            tm.apply(ev)
        return tm
    return mk


def _enabled(scripted):
    return lambda tm: tm.enabled(CAP, scripted, SCRIPT_IDS)


def shards(tier, seed):
    out = []
    split = SPLIT[tier]
    for init, depth, scripted in FAMILIES[tier]:
        out.append(["pre", [init, depth, scripted], []])
        front = []
        bfs(_initial(init, []), apply, _enabled(scripted), canon, lambda st, h: (), split,
            on_state=lambda st, h: front.append([list(e) for e in h]) if len(h) == split else None)
        out.extend(["sub", [init, depth, scripted], h] for h in front)
    return out


def run_shard(shard, tier, seed):
    mode, (init, fdepth, scripted), prefix = shard[0], shard[1], [tuple(e) for e in shard[2]]
    depth = SPLIT[tier] if mode == "pre" else fdepth - SPLIT[tier]
    stats = Stats()

    def inv(tm, hist):
        fl = tm.last_flags
        if fl:
            stats.nt((init, hash(tm.canon()), tuple(sorted(fl))))
            for f in fl:
                stats.outcome(f)
        return tm.bad

    res = bfs(_initial(init, prefix), apply, _enabled(scripted), canon, inv, depth)
    pre = [list(e) for e in prefix]
    for i, (sig, detail, hist) in enumerate(res.violations):
        res.violations[i] = (sig, detail, pre + [list(e) for e in hist])
    res.samples = [pre + [list(e) for e in h] for h in res.samples[-2:]]
    stats.add_bfs(res, {"init": init})
    stats.samples = [{"init": init, "history": h} for h in res.samples]
    return stats


def replay(w):
    tm = make(w.get("init", "empty"))
    for ev in w["history"]:
        tm.apply(tuple(ev))
    return list(tm.bad)
