"""C10 LoopingCall: every event history within the bound on a real LoopingCall driven by task.Clock,
checked against an exact (integer quarter-unit) boundary oracle."""
from mc.choice import Chooser, explore, first_level
from mc.runner import Stats

ID = "C10"
LEVEL = "exploration"
LEVEL_TEXT = ("bounded-exhaustive: every harness-event history up to the stated length over the stated dyadic alphabet is executed "
              "on the real LoopingCall/Clock and compared with an exact integer boundary oracle; nothing is sampled")
LEVEL_NOTE = "task.Clock and Deferred are trusted; float effects of non-dyadic intervals and the interval-0 special case are outside the bound"
TECHNIQUE = "stateless exhaustive enumeration of event histories (mc.choice), exact-arithmetic reference"
RULE = ("every history of <= L harness events {clock.advance(a), fire the outstanding Deferred ok / failed, stop(), reset()} "
        "on a real LoopingCall (plain and withCount) whose clock is task.Clock, for every (interval, now, withCount, start "
        "offset) and every per-call behaviour of the function {return, return unfired Deferred, raise, stop() own loop and "
        "return, return fired Deferred, return failed Deferred, stop() and return unfired Deferred, ...} [all enumerated "
        "completely], combined with at most one slow call per execution: a returning call advances the clock by 0.25 / 1 / 2.5 "
        "intervals while it runs (it counts as one of the L events), or one restart: after the loop was ended by stop() alone "
        "(from outside or from inside the function) start() is called again at the current clock time with the same / another "
        "interval and now=True / False, and the statement is applied to the new run from its own start; all values dyadic so "
        "float arithmetic is exact. non-trivial = distinct (config, call instants, completion instants, counts, ending) in which "
        "a call was delivered late by a clock jump, a Deferred spanned a boundary, a completion fell exactly on a boundary, a "
        "count > 1 was passed, reset() moved the origin, or the loop ended by stop / failure")
BOUNDS = {
    "quick": "L=4 events; intervals {0.5, 1.5}; advances {0.25, 0.5, 1.5, 2.5, 7}; start offsets {0, 0.75}; 7 behaviours per call; <= 1 slow call {0.25, 1, 2.5 intervals}",
    "thorough": "L=5 events over the quick alphabet, plus L=4 events with intervals {0.5, 1.5, 2}; advances {0.25, 0.5, 1, 1.5, 2.5, 7}; "
                "start offsets {0, 0.75}; 9 behaviours per call (adds: stop() then raise, reset() own loop then return)",
}
ASSUMPTIONS = [
    "task.Clock is the trusted time source: a call 'happens at boundary B' means (a) right after the previous call completed "
    "the only pending call on the harness-owned Clock is at exactly B, and (b) the function runs during the first advance() "
    "whose end instant is >= B and not before",
    "the time of the first call of a loop started with now=False is not constrained (the statement speaks of calls after the first)",
    "reset() with a pending call moves the boundary origin to the reset instant; reset() while the function's Deferred is "
    "unfired may or may not move it (both accepted); once reset() was used the withCount sum over the whole run is not "
    "evaluated (the statement does not say how boundaries of the old phase count); evaluated instead: if no boundary of the "
    "old phase elapsed between the previous call (or the start) and a reset() with a pending call, the counts after that "
    "reset sum to the boundaries of the new phase elapsed (all readings of the statement agree there)",
    "when the start() Deferred fires is not constrained, only that it has fired exactly once when the loop has ended "
    "(stop()/failure happened and no function Deferred is outstanding)",
]
MIN = {"quick": {"evaluations": 1500000, "nontrivial": 150000, "outcomes": 9},
       "thorough": {"evaluations": 18800000, "nontrivial": 950000, "outcomes": 8}}

_Q = dict(L=4, intervals=[0.5, 1.5], advances=[0.25, 0.5, 1.5, 2.5, 7.0], offsets=[0.0, 0.75],
          behs=["ret", "defer", "raise", "stopself", "succeed", "fail", "stopdefer"], slow=[0.25, 1.0, 2.5], restart=True)
TIERS = {
    "quick": [_Q],
    "thorough": [dict(_Q, L=5),
                 dict(L=4, intervals=[0.5, 1.5, 2.0], advances=[0.25, 0.5, 1.0, 1.5, 2.5, 7.0], offsets=[0.0, 0.75],
                      behs=["ret", "defer", "raise", "stopself", "succeed", "fail", "stopdefer", "stopraise", "resetself"],
                      slow=[0.25, 1.0, 2.5], restart=True)],
}


def q4(x):
    """x in exact 1/16 units (every time value in the alphabet, including the in-call advances, is a multiple of 1/16)."""
    n = int(x * 16)
    if n != x * 16:
        raise ValueError("not a multiple of 1/16: %r" % (x,))
    return n


def nints(elapsed, interval):
    """floor(elapsed / interval), exactly (integer arithmetic on 1/16 units)."""
    return q4(elapsed) // q4(interval)


_quiet = False


def quiet():
    """Keep Twisted's not-yet-started logging from writing unhandled-error reports of broken trees to stderr."""
    global _quiet
    if not _quiet:
        _quiet = True
        from twisted.logger import globalLogBeginner
        globalLogBeginner.beginLoggingTo([lambda e: None], redirectStandardIO=False, discardBuffer=True)


SLOW_BOUND = 1      # the only non-free choice is "this returning call is slow": at most one slow call per execution


class Boom(Exception):
    pass


class H:
    """Harness + reference model for one execution."""

    def __init__(self, cfg, ch, behs, slow=()):
        self.interval, self.now, self.wc, self.offset = cfg
        self.ch = ch
        self.behs = behs
        self.slow = list(slow)
        self.bad = []           # (sig, detail)
        self.calls = []         # (instant, count)
        self.completions = []
        self.outstanding = None  # unfired Deferred returned by the function
        self.stopped = False    # stop() has been called (from anywhere)
        self.failed = False     # the function raised / its Deferred failed
        self.sd_fired = []
        self.starts = set()     # admissible boundary origins
        self.expectB = None     # admissible next boundaries (None = unconstrained)
        self.in_start = False
        self.adv_prev = None    # clock instant before the advance in progress (None = not advancing)
        self.reset_used = False
        self.count_sum = 0
        self.restarted = False
        self.phase = None       # [origin, counts since] after a reset() at which no boundary of the old phase was outstanding
        self.flags = set()
        self.lc = None
        self.clock = None
        self.limit = 12
        self.budget = 0

    def flag(self, sig, detail):
        if self.restarted:
            if self.wc and (sig.startswith("LoopingCall.withCount:count-sum-differs") or sig == "LoopingCall:now-call-not-immediate"):
                # one mechanism (the skip counter's reference time survives stop()/start()), one signature
                sig = "LoopingCall.withCount:restart-counts-from-previous-run"
            else:
                sig += "-after-restart"
        if not any(s == sig for s, _ in self.bad):
            self.bad.append((sig, detail))

    # -- reference -------------------------------------------------------
    def boundary_after(self, s, c):
        return s + (nints(c - s, self.interval) + 1) * self.interval

    def completed(self, c, timer=True):
        """The previous call completed at instant c."""
        self.completions.append(c)
        if self.stopped or self.failed:
            self.expectB = None
            return
        self.expectB = {self.boundary_after(s, c) for s in self.starts}
        if any(q4(c - s) % q4(self.interval) == 0 for s in self.starts) and self.calls and c > min(self.starts):
            self.flags.add("completion-on-boundary")
        if timer:
            self.check_timer("after-completion")

    def check_timer(self, where):
        times = sorted(dc.getTime() for dc in self.clock.getDelayedCalls())
        if not times:
            self.flag("LoopingCall:no-call-scheduled-" + where,
                      "loop is running, no Deferred outstanding, but the clock holds no pending call (t=%r)" % self.clock.seconds())
        elif len(times) == 1:
            if times[0] not in self.expectB:
                self.flag("LoopingCall:next-call-scheduled-off-boundary-" + where,
                          "pending call at %r, first boundary after completion is %r (origin %r, interval %r, now=%r)" % (
                              times[0], sorted(self.expectB), sorted(self.starts), self.interval, self.clock.seconds()))
            else:
                self.narrow(times[0])

    def narrow(self, B):
        c = self.completions[-1] if self.completions else None
        keep = {s for s in self.starts if c is None or self.boundary_after(s, c) == B or s + self.interval == B}
        if keep:
            self.starts = keep
        self.expectB = {B}

    # -- the function under the loop -----------------------------------------
    def f(self, count=None):
        from twisted.internet import defer
        t = self.clock.seconds()
        first = not self.calls
        if len(self.completions) < len(self.calls) and self.outstanding is None:
            # previous call completed synchronously during this same real operation
            self.completed(self.sync_done, timer=False)
        self.calls.append((t, count))
        self.sync_done = t      # instant at which this call completes if it returns synchronously
        if len(self.calls) > self.limit:
            self.failed = True
            raise Boom("runaway")
        if self.stopped or self.failed:
            self.flag("LoopingCall:call-after-" + ("stop" if self.stopped else "failure"),
                      "function called at %r after the loop ended" % t)
            return None
        if self.outstanding is not None:
            self.flag("LoopingCall:call-while-previous-deferred-unfired", "function called at %r" % t)
            return None
        if first and self.now:
            if not self.in_start:
                self.flag("LoopingCall:now-call-not-immediate", "first call at %r outside start()" % t)
        elif self.in_start:
            self.flag("LoopingCall:immediate-call-with-now-false", "called inside start(now=False)")
        elif self.expectB is not None:
            prev = self.adv_prev
            ok = {B for B in self.expectB if prev is not None and prev < B <= t}
            if not ok:
                if all(B > t for B in self.expectB):
                    self.flag("LoopingCall:call-before-boundary",
                              "called at %r, next boundary %r (completion %r)" % (t, sorted(self.expectB), self.completions[-1:]))
                else:
                    self.flag("LoopingCall:call-after-boundary-passed",
                              "called at %r (advance began at %r), boundary was %r" % (t, prev, sorted(self.expectB)))
            else:
                if any(B < t for B in ok):
                    self.flags.add("late-by-jump")
                self.narrow(min(ok))
        self.expectB = None
        if self.wc:
            if not isinstance(count, int) or isinstance(count, bool):
                self.flag("LoopingCall.withCount:count-not-int", "count %r" % (count,))
            else:
                self.count_sum += count
                if count > 1:
                    self.flags.add("count>1")
                if not self.reset_used:
                    elapsed = nints(t - self.start0, self.interval) + (1 if self.now else 0)
                    if self.count_sum != elapsed:
                        self.flag("LoopingCall.withCount:count-sum-differs-from-boundaries-elapsed",
                                  "at %r counts so far %r sum to %d, boundaries elapsed %d (start %r interval %r now=%r)" % (
                                      t, [c for _, c in self.calls], self.count_sum, elapsed, self.start0, self.interval, self.now))
                elif self.phase is not None:
                    self.phase[1] += count
                    elapsed = nints(t - self.phase[0], self.interval)
                    if self.phase[1] != elapsed:
                        self.flag("LoopingCall.withCount:count-after-reset-differs-from-boundaries-of-new-phase",
                                  "reset at %r; at %r counts since the reset sum to %d, boundaries of the new phase elapsed %d "
                                  "(interval %r, calls %r)" % (self.phase[0], t, self.phase[1], elapsed, self.interval, self.calls))
        b = self.ch.pick(self.behs, "behaviour", free=True)
        self.lastbeh = b
        sl = self.ch.choose(1 + len(self.slow), "slow-call") if b == "ret" and self.slow and self.budget > 0 else 0
        if sl:
            self.budget -= 1
            # (deviation, <= SLOW_BOUND per execution) the function itself takes time: the controlled clock moves on while it
            # runs (no call of the loop is pending meanwhile, so the nested Clock.advance has nothing to run); it completes
            # at the later instant
            self.clock.advance(self.slow[sl - 1] * self.interval)
            self.sync_done = self.clock.seconds()
            self.flags.add("slow-call" if nints(self.sync_done - self.start0, self.interval) == nints(t - self.start0, self.interval)
                           else "slow-call-spans-boundary")
            return None
        if b == "ret":
            return None
        if b == "raise":
            self.failed = True
            raise Boom("raise")
        if b == "succeed":
            return defer.succeed(None)
        if b == "fail":
            self.failed = True
            return defer.fail(Boom("fail"))
        if b in ("stopself", "stopdefer", "stopraise"):
            self.stopped = True
            self.lc.stop()
            if b == "stopraise":
                self.failed = True
                raise Boom("stopraise")
            if b == "stopself":
                return None
        if b == "resetself":
            # no call is pending while the function runs: must not schedule anything; whether the origin moves is not constrained
            self.reset_used = True
            self.phase = None
            self.starts = self.starts | {t}
            self.lc.reset()
            if list(self.clock.getDelayedCalls()):
                self.flag("LoopingCall:reset-schedules-call-while-function-is-running", "reset() from inside the call at %r" % t)
            return None
        d = defer.Deferred()
        self.outstanding = d
        return d

    def after_call_returned(self):
        """Called by the driver after any real operation: account for synchronous completion."""
        if len(self.completions) < len(self.calls) and self.outstanding is None:
            self.completed(self.sync_done)

    # -- driver ----------------------------------------------------------
    def start(self):
        from twisted.internet.task import Clock, LoopingCall
        self.clock = Clock()
        if self.offset:
            self.clock.advance(self.offset)
        self.lc = LoopingCall.withCount(self.f) if self.wc else LoopingCall(self.f)
        self.lc.clock = self.clock
        self.start0 = self.clock.seconds()
        self.starts = {self.start0}
        self.in_start = True
        sd = self.lc.start(self.interval, now=self.now)
        self.in_start = False
        sd.addCallbacks(lambda r: self.sd_fired.append("cb"), lambda f: self.sd_fired.append("eb:" + f.type.__name__))
        if self.now and len(self.calls) != 1:
            self.flag("LoopingCall:now-call-not-immediate", "start(now=True) made %d calls" % len(self.calls))
        self.after_call_returned()

    def try_restart(self, intervals):
        """(deviation) the loop was ended by stop() alone: start() it again at the current clock time, with the same or
        another interval, with or without an immediate call.  The statement then applies to the new run from its own start."""
        if self.failed or self.restarted or self.budget <= 0:
            return False
        other = [i for i in intervals if i != self.interval][:1]
        variants = [(i, now) for i in [self.interval] + other for now in (True, False)]
        c = self.ch.choose(1 + len(variants), "restart")
        if not c:
            return False
        self.budget -= 1
        self.restarted = True
        self.flags.add("restarted")
        if len(self.sd_fired) != 1:
            self.flag("LoopingCall:start-deferred-fired-%d-times-after-stop" % len(self.sd_fired), repr(self.sd_fired))
        n = len(self.calls)
        self.adv_prev = None
        self.first_run = (self.calls, self.completions, self.sd_fired)
        self.calls, self.completions, self.sd_fired = [], [], []
        self.stopped = False
        self.interval, self.now = variants[c - 1]
        self.count_sum, self.reset_used, self.phase, self.expectB = 0, False, None, None
        self.start0 = self.clock.seconds()
        self.starts = {self.start0}
        self.in_start = True
        sd = self.lc.start(self.interval, now=self.now)
        self.in_start = False
        fired = self.sd_fired
        sd.addCallbacks(lambda r: fired.append("cb"), lambda f: fired.append("eb:" + f.type.__name__))
        if self.now and len(self.calls) != 1:
            self.flag("LoopingCall:now-call-not-immediate", "restart with start(now=True) made %d calls" % len(self.calls))
        self.after_call_returned()
        if len(self.first_run[2]) != 1:
            self.flag("LoopingCall:first-start-deferred-fired-again-after-restart", repr(self.first_run[2]))
        return True

    def running(self):
        return not (self.stopped or self.failed)

    def menu(self, advances):
        m = [("adv", a) for a in advances]
        if self.outstanding is not None:
            m += [("fire", True), ("fire", False)]
        if self.running():
            m += [("stop",), ("reset",)]
        return m

    def do(self, ev):
        op = ev[0]
        clock = self.clock
        if op == "adv":
            ncalls = len(self.calls)
            self.adv_prev = clock.seconds()
            clock.advance(ev[1])
            self.adv_prev = None
            t = clock.seconds()
            if len(self.calls) == ncalls:
                if self.running() and self.outstanding is None and self.expectB is not None and all(B <= t for B in self.expectB):
                    self.flag("LoopingCall:call-missed-at-boundary",
                              "clock reached %r, boundary %r, function not called" % (t, sorted(self.expectB)))
                elif self.outstanding is not None and self.starts and \
                        any(self.boundary_after(s, self.calls[-1][0]) <= t for s in self.starts):
                    self.flags.add("deferred-spans-boundary")
            elif len(self.calls) > ncalls + 1:
                self.flag("LoopingCall:several-calls-in-one-advance", "%d calls during one advance to %r" % (len(self.calls) - ncalls, t))
            self.after_call_returned()
        elif op == "fire":
            d, self.outstanding = self.outstanding, None
            if ev[1]:
                d.callback(None)
            else:
                self.failed = True
                d.errback(Boom("later"))
            self.completed(clock.seconds())
        elif op == "stop":
            self.stopped = True
            self.expectB = None
            self.lc.stop()
        elif op == "reset":
            r = clock.seconds()
            self.reset_used = True
            self.flags.add("reset")
            if self.outstanding is None:
                # count clause across a reset: only when every reading agrees, i.e. no boundary of the old phase elapsed
                # between the previous call (or the start) and the reset -- then the counts after the reset must sum to
                # the boundaries of the new phase elapsed
                self.phase = None
                if len(self.starts) == 1:
                    s0 = next(iter(self.starts))
                    ref = self.calls[-1][0] if self.calls else s0
                    if ref >= s0 and nints(r - s0, self.interval) == nints(ref - s0, self.interval):
                        self.phase = [r, 0]
                        self.flags.add("count-checked-across-reset")
                self.starts = {r}
                self.expectB = {r + self.interval}
                self.lc.reset()
                self.check_timer("after-reset")
            else:
                self.phase = None
                self.starts = self.starts | {r}
                self.lc.reset()
                if list(clock.getDelayedCalls()):
                    self.flag("LoopingCall:reset-schedules-call-while-deferred-unfired",
                              "reset() at %r with the function's Deferred unfired left a pending call" % r)
        if len(self.sd_fired) > 1:
            self.flag("LoopingCall:start-deferred-fired-more-than-once", repr(self.sd_fired))

    def finish(self):
        if self.running():
            return "running" + ("+waiting" if self.outstanding is not None else "")
        if self.outstanding is not None:
            self.do(("fire", True))
        kind = "stop" if self.stopped and not self.failed else ("failure" if not self.stopped else "stop+failure")
        if len(self.sd_fired) != 1:
            self.flag("LoopingCall:start-deferred-fired-%d-times-after-%s" % (len(self.sd_fired), kind), repr(self.sd_fired))
        n = len(self.calls)
        self.adv_prev = self.clock.seconds()
        self.clock.advance(3 * self.interval + 0.25)
        self.clock.advance(self.interval)
        self.adv_prev = None
        if len(self.sd_fired) > 1:
            self.flag("LoopingCall:start-deferred-fired-more-than-once", repr(self.sd_fired))
        return "ended-by-" + kind + ":" + (self.sd_fired[0].split(":")[0] if self.sd_fired else "unfired")


def make_run(cfg, tier, part=0):
    p = TIERS[tier][part]
    L, advances, behs = p["L"], p["advances"], p["behs"]

    def run(ch):
        from twisted.internet.defer import AlreadyCalledError
        h = H(cfg, ch, behs, p.get("slow", ()))
        try:
            h.budget = L        # harness events left; a slow call (which moves the clock like an advance) uses one up
            h.start()
            while h.budget > 0:
                if not h.running() and h.outstanding is None:
                    if p.get("restart") and h.try_restart(p["intervals"]):
                        continue
                    break
                h.budget -= 1
                ev = ch.pick(h.menu(advances), "event", free=True)
                h.do(ev)
            h.end = h.finish()
        except AlreadyCalledError as e:
            h.flag("LoopingCall:start-deferred-fired-more-than-once", "AlreadyCalledError escaped: %r" % (e,))
            h.end = "error"
        except AssertionError as e:
            import traceback
            tb = traceback.extract_tb(e.__traceback__)[-1]
            if "/twisted/" not in tb.filename:
                raise
            h.flag("LoopingCall:assertion-failed-in-" + tb.name, "%s:%s %s" % (tb.filename.rsplit("/", 1)[-1], tb.lineno, tb.line))
            h.end = "error"
        return h
    return run


def configs(p):
    return [(i, now, wc, off) for i in p["intervals"] for now in (True, False) for wc in (False, True) for off in p["offsets"]]


def shards(tier, seed):
    out = []
    for part, p in enumerate(TIERS[tier]):
        for cfg in configs(p):
            n = first_level(make_run(cfg, tier, part))
            for k in range(n):
                out.append([list(cfg), k, part])
    return out


def run_shard(shard, tier, seed):
    quiet()
    cfg, k, part = tuple(shard[0]), shard[1], shard[2]
    st = Stats()
    run = make_run(cfg, tier, part)
    for ch, h in explore(run, bound=SLOW_BOUND, prefix=(k,)):
        st.evaluations += 1
        st.outcome(h.end)
        for fl in h.flags:
            st.outcome("saw:" + fl)
        if h.flags or h.end.startswith("ended"):
            st.nt((cfg, tuple(h.calls), tuple(h.completions), h.end, tuple(sorted(h.flags))))
        if h.bad:
            for sig, detail in h.bad:
                st.violation(sig, detail, {"cfg": list(cfg), "tier": tier, "part": part, "choices": ch.choices, "labels_tail": ch.labels[-6:]})
        elif st.evaluations % 50021 == 1:
            st.sample({"cfg": list(cfg), "calls": h.calls, "completions": h.completions, "end": h.end})
    return st


def replay(w):
    quiet()
    cfg = tuple(w["cfg"])
    run = make_run(cfg, w.get("tier", "quick"), w.get("part", 0))
    h = run(Chooser(w["choices"]))
    return list(h.bad)
