"""C36 SSH channel flow control: explicit-state search over a real SSHConnection/SSHChannel pair.

Two real SSHConnection services, each with a stand-in transport whose sendPacket()
appends to a FIFO; the harness decides when the head of either FIFO is delivered
(packetReceived on the peer).  One channel A->B is opened before the search starts.
A reference window/stream model written here is checked after every transition.
"""
import struct

from mc.bfs import bfs
from mc.runner import Stats

ID = "C36"
LEVEL = "model_checking"
TECHNIQUE = "explicit-state BFS over real objects with a reference flow-control model"
RULE = ("BFS over histories of {write(1|3|5), writeExtended(type 1|2, 1|3 bytes), arm a producer that writes 2 bytes from "
        "startWriting(), loseConnection, receiver loseConnection, deliver head A->B, deliver head B->A, receiver adjustWindow(1|2)} on a real SSHConnection pair with one open channel, for every "
        "receiver window in {1,2,3,4,5} x receiver max packet in {1,2,3} (the sender advertises a different window and max "
        "packet for the reverse direction: smaller or larger depending on the configuration); after every transition the messages the sender "
        "emitted are checked against a reference window (initial window + adjustments delivered - bytes sent) and the "
        "peer's max packet, streams against what was written, CLOSE against unsent data, and every delivered conforming "
        "data message must reach the receiving channel. non-trivial = distinct canonical states in which data was "
        "buffered, split into several packets, a window adjustment was in flight or a close was pending")
BOUNDS = {"quick": "depth 8, writeExtended limited to (type 1, 3 bytes) and (type 2, 1 byte), <= 3 writes, <= 1 manual adjustment (2 for receiver window 1), 1 close",
          "thorough": "depth 10, <= 4 writes, <= 2 manual adjustments, 1 close"}
ASSUMPTIONS = [
    "the SSH transport below the connection service is replaced by a FIFO per direction (in-order, loss-free delivery, "
    "as SSHTransportBase provides - C35)",
    "canonical state = channel flow-control fields of both real channels, queued message shapes (type, length), harness "
    "budgets and buffered-byte counts; absolute stream offsets are dropped (stream bytes are offset-coded, the oracle is "
    "offset-equivariant)",
    "no writes are issued after loseConnection() (the statement is silent about them)",
    "liveness is only demanded as stated: at quiescence (both FIFOs empty) a stream must be complete if the window "
    "granted so far covers everything written; a receiver window of 1 never replenishes on its own "
    "(left < size // 2 is never true) - that stall is accepted, the manual adjustWindow event provides grants there",
]
MIN = {"quick": {"states": 197000, "nontrivial": 151000, "outcomes": 7},
       "thorough": {"states": 1600000, "nontrivial": 1600000, "outcomes": 5}}

WINDOWS = [1, 2, 3, 4, 5]
MAXPACKETS = [1, 2, 3]
WRITE_EVENTS = [("w", 1), ("w", 3), ("w", 5), ("x", 1, 1), ("x", 1, 3), ("x", 2, 1), ("x", 2, 3)]
QUICK_WRITE_EVENTS = [("w", 1), ("w", 3), ("w", 5), ("x", 1, 3), ("x", 2, 1)]
ADJ_EVENTS = [("adj", 1), ("adj", 2)]

MSG_WINDOW_ADJUST, MSG_DATA, MSG_EXT, MSG_EOF, MSG_CLOSE = 93, 94, 95, 96, 97


class FakeLower:
    def logPrefix(self):
        return "fake"

    def getPeer(self):
        return None

    def getHost(self):
        return None


class FakeTransport:
    """What SSHConnection needs from SSHTransportBase: sendPacket and friends."""

    def __init__(self, log):
        self.log = log          # grows only
        self.transport = FakeLower()
        self.unimplemented = 0
        self.disconnects = []

    def sendPacket(self, messageType, payload):
        self.log.append((messageType, bytes(payload)))

    def sendUnimplemented(self):
        self.unimplemented += 1

    def sendDisconnect(self, reason, desc):
        self.disconnects.append((reason, desc))

    def logPrefix(self):
        return "faketransport"


def stream_bytes(stream_no, start, n):
    """Offset-coded stream contents: byte i of stream s is (17*s + i) % 251 (never repeats within the bounds)."""
    return bytes(((17 * stream_no + i) % 251) for i in range(start, start + n))


STREAMS = {"d": 0, "e1": 1, "e2": 2}


_classes = None


def classes():
    global _classes
    if _classes is None:
        from twisted.conch.ssh import channel, connection

        class RecChannel(channel.SSHChannel):
            name = b"test"

            def __init__(self, *a, **kw):
                channel.SSHChannel.__init__(self, *a, **kw)
                self.rec = {"d": b"", "e1": b"", "e2": b""}
                self.other = []
                self.nrec = 0
                self.armed = 0
                self.on_start = None

            def startWriting(self):
                # a push producer that writes as soon as it is resumed (startWriting is the documented resume hint)
                if self.armed and self.on_start is not None:
                    k, self.armed = self.armed, 0
                    self.on_start(k)

            def dataReceived(self, data):
                self.rec["d"] += data
                self.nrec += 1

            def extReceived(self, dataType, data):
                k = "e%d" % dataType
                if k in self.rec:
                    self.rec[k] += data
                else:
                    self.other.append((dataType, data))
                self.nrec += 1

        class Conn(connection.SSHConnection):
            cfg = (0, 0)

            def channel_test(self, windowSize, maxPacket, data):
                return RecChannel(localWindow=self.cfg[0], localMaxPacket=self.cfg[1], remoteWindow=windowSize,
                                  remoteMaxPacket=maxPacket)
        _classes = (RecChannel, Conn)
    return _classes


def a_side(win, maxp):
    """Window / max packet that side A advertises: max packet smaller than B's when B's is > 1, else larger; window
    smaller than B's when B's is > 2, else larger."""
    return (1 if win > 2 else 7), (1 if maxp > 1 else 9)


class St:
    def __init__(self, win, maxp, limits):
        RecChannel, Conn = classes()
        self.win, self.maxp, self.limits = win, maxp, limits
        self.logAB, self.logBA = [], []
        self.headAB = self.headBA = 0
        self.scanAB = self.scanBA = 0
        self.A, self.B = Conn(), Conn()
        self.B.cfg = (win, maxp)
        self.A.transport = FakeTransport(self.logAB)
        self.B.transport = FakeTransport(self.logBA)
        self.A.serviceStarted()
        self.B.serviceStarted()
        # the opener's own limits differ from the receiver's, in both orders (they must not influence the A->B direction)
        a_win, a_maxp = a_side(win, maxp)
        self.chA = RecChannel(localWindow=a_win, localMaxPacket=a_maxp)
        self.A.openChannel(self.chA)
        self.B.packetReceived(*self.logAB[0])
        self.A.packetReceived(*self.logBA[0])
        self.headAB = self.scanAB = 1
        self.headBA = self.scanBA = 1
        self.chB = self.B.channels[0]
        self.chA.on_start = self.producer_write
        self.b_close_requested = False
        self.bad = []
        self.flags = set()
        self.nevents = 0
        # reference model
        self.ref_window = win          # what A may still send: advertised by B, adjusted by delivered WINDOW_ADJUSTs
        self.granted = win             # total ever granted to A (delivered)
        self.written = {"d": b"", "e1": b"", "e2": b""}
        self.emitted = {"d": b"", "e1": b"", "e2": b""}
        self.delivered = {"d": b"", "e1": b"", "e2": b""}   # emitted data whose message has been delivered to B
        self.nwrites = 0
        self.nadj = 0
        self.close_requested = False
        self.close_emitted = False
        self.b_close_received = False
        self.a_close_received = False
        self.trigger = ""
        if self.chA.remoteWindowLeft != win or self.chA.remoteMaxPacket != maxp:
            self.bad.append(("setup:open-confirmation-window", "channel A sees window %r max packet %r, B advertised %r/%r" % (
                self.chA.remoteWindowLeft, self.chA.remoteMaxPacket, win, maxp)))

    def producer_write(self, k):
        data = stream_bytes(0, len(self.written["d"]), k)
        self.written["d"] += data
        self.flags.add("producer-wrote-on-resume")
        self.chA.write(data)

    # -- observation of newly emitted messages ------------------------------------------------------
    def scan(self):
        while self.scanAB < len(self.logAB):
            mt, payload = self.logAB[self.scanAB]
            self.scanAB += 1
            if mt in (MSG_DATA, MSG_EXT):
                if mt == MSG_DATA:
                    (n,) = struct.unpack(">L", payload[4:8])
                    data = payload[8:8 + n]
                    key = "d"
                else:
                    t, n = struct.unpack(">2L", payload[4:12])
                    data = payload[12:12 + n]
                    key = "e%d" % t
                if self.close_emitted:
                    self.bad.append(("sender:data-after-close", "%s message of %d bytes after CHANNEL_CLOSE" % (key, n)))
                if n > self.maxp:
                    self.bad.append(("sender:exceeds-max-packet", "%s message carries %d bytes, peer max packet %d" % (key, n, self.maxp)))
                if n > self.ref_window:
                    self.bad.append(("sender:exceeds-window", "%s message carries %d bytes, %d left in the peer's window" % (
                        key, n, self.ref_window)))
                self.ref_window -= n
                if key not in self.emitted:
                    self.bad.append(("sender:unknown-extended-type", key))
                    continue
                want = self.written[key][len(self.emitted[key]):len(self.emitted[key]) + n]
                if data != want or len(data) != n:
                    self.bad.append(("sender:stream-corrupted:%s" % ("normal" if key == "d" else "extended"),
                                     "%s message carries %r, next unsent bytes are %r" % (key, data, want)))
                self.emitted[key] += data
            elif mt == MSG_CLOSE:
                if self.close_emitted:
                    self.bad.append(("sender:close-twice", "second CHANNEL_CLOSE"))
                self.close_emitted = True
                if not self.close_requested and not self.a_close_received:
                    self.bad.append(("sender:unrequested-close", "CHANNEL_CLOSE without loseConnection() or a peer close"))
                unsent = {k: len(self.written[k]) - len(self.emitted[k]) for k in self.written
                          if len(self.written[k]) != len(self.emitted[k])}
                if unsent:
                    kinds = "+".join(sorted(set("normal" if k == "d" else "extended" for k in unsent)))
                    pre = getattr(self, "pre_unsent", {})
                    trig = getattr(self, "trigger", "")
                    if trig == "peer-close":
                        kinds += ":on-peer-close"
                    elif trig == "window-adjust" and pre.get("e1") and pre.get("e2"):
                        kinds += ":two-extended-types-buffered"
                    self.bad.append(("sender:close-before-buffered-data:%s" % kinds,
                                     "CHANNEL_CLOSE sent while %r bytes were still buffered" % (unsent,)))
            elif mt == MSG_EOF:
                pass
            else:
                self.bad.append(("sender:unexpected-message-%d" % mt, repr(payload[:20])))
        while self.scanBA < len(self.logBA):
            mt, payload = self.logBA[self.scanBA]
            self.scanBA += 1
            if mt == MSG_CLOSE:
                if not self.b_close_received and not self.b_close_requested:
                    self.bad.append(("receiver:refused-conforming-peer",
                                     "B sent CHANNEL_CLOSE although A never exceeded window %d / max packet %d" % (self.win, self.maxp)))
            elif mt == MSG_WINDOW_ADJUST:
                pass
            else:
                self.bad.append(("receiver:unexpected-message-%d" % mt, repr(payload[:20])))
        if self.A.transport.unimplemented or self.B.transport.unimplemented:
            self.bad.append(("connection:unimplemented-sent", ""))

    def b_close_sent(self):
        return any(mt == MSG_CLOSE for mt, _ in self.logBA)

    def quiescent_check(self):
        if self.headAB < len(self.logAB) or self.headBA < len(self.logBA):
            return
        total = sum(len(v) for v in self.written.values())
        if self.granted >= total:
            for k in ("d", "e1", "e2"):
                if self.chB.rec[k] != self.written[k]:
                    self.bad.append(("stream:incomplete-at-quiescence:%s" % ("normal" if k == "d" else "extended"),
                                     "window granted %d >= %d written, nothing in flight, but stream %s received %r of %r" % (
                                         self.granted, total, k, self.chB.rec[k], self.written[k])))
                    break


def apply(st, ev):
    op = ev[0]
    st.nevents += 1
    st.pre_unsent = {k: len(st.written[k]) - len(st.emitted[k]) for k in st.written}
    st.trigger = ""
    if op == "w":
        n = ev[1]
        data = stream_bytes(0, len(st.written["d"]), n)
        st.written["d"] += data
        st.nwrites += 1
        st.chA.write(data)
    elif op == "x":
        t, n = ev[1], ev[2]
        k = "e%d" % t
        data = stream_bytes(t, len(st.written[k]), n)
        st.written[k] += data
        st.nwrites += 1
        st.chA.writeExtended(t, data)
    elif op == "close":
        st.close_requested = True
        st.chA.loseConnection()
    elif op == "arm":
        st.nwrites += 1
        st.chA.armed = ev[1]
    elif op == "bclose":
        st.b_close_requested = True
        st.chB.loseConnection()
    elif op == "adj":
        st.nadj += 1
        st.B.adjustWindow(st.chB, ev[1])
    elif op == "dAB":
        mt, payload = st.logAB[st.headAB]
        st.headAB += 1
        before = st.chB.nrec
        if mt == MSG_CLOSE:
            st.b_close_received = True
        st.B.packetReceived(mt, payload)
        if mt in (MSG_DATA, MSG_EXT):
            if mt == MSG_DATA:
                (n,) = struct.unpack(">L", payload[4:8])
                key, data = "d", payload[8:8 + n]
            else:
                t, n = struct.unpack(">2L", payload[4:12])
                key, data = "e%d" % t, payload[12:12 + n]
            if key in st.delivered:
                st.delivered[key] += data
                if st.chB.rec[key] != st.delivered[key] or st.chB.nrec != before + 1:
                    st.bad.append(("receiver:conforming-data-not-delivered:%s" % ("normal" if key == "d" else "extended"),
                                   "%d byte %s message within window/max packet: channel has %r, sent so far %r" % (
                                       n, key, st.chB.rec[key], st.delivered[key])))
    elif op == "dBA":
        mt, payload = st.logBA[st.headBA]
        st.headBA += 1
        if mt == MSG_WINDOW_ADJUST:
            (n,) = struct.unpack(">L", payload[4:8])
            st.ref_window += n
            st.granted += n
            st.trigger = "window-adjust"
        elif mt == MSG_CLOSE:
            st.a_close_received = True
            st.trigger = "peer-close"
            st.flags.add("peer-closed-first" if not st.close_emitted else "peer-close-after-ours")
        st.A.packetReceived(mt, payload)
    else:
        raise ValueError(ev)
    st.scan()
    # streams at the receiver never run ahead of / differ from what was written
    for k in ("d", "e1", "e2"):
        if not st.written[k].startswith(st.chB.rec[k]):
            st.bad.append(("stream:received-not-a-prefix:%s" % ("normal" if k == "d" else "extended"),
                           "stream %s received %r, written %r" % (k, st.chB.rec[k], st.written[k])))
    if st.chB.other:
        st.bad.append(("stream:unknown-type-received", repr(st.chB.other)))
    st.quiescent_check()
    # flags for the non-triviality count
    a = st.chA
    if getattr(a, "buf", b"") or getattr(a, "extBuf", None):
        st.flags.add("buffered")
        if st.close_requested:
            st.flags.add("close-pending-with-buffer")
    if any(mt == MSG_WINDOW_ADJUST for mt, _ in st.logBA[st.headBA:]):
        st.flags.add("adjust-in-flight")
    if st.close_emitted:
        st.flags.add("close-sent")


def enabled(st):
    evs = []
    lim = st.limits
    a_open = not st.close_requested and not st.a_close_received
    if a_open and st.nwrites < lim["writes"]:
        evs.extend(lim.get("write_events", WRITE_EVENTS))
        if not st.chA.armed:
            evs.append(("arm", 2))
    if a_open:
        evs.append(("close",))
    if st.headAB < len(st.logAB):
        evs.append(("dAB",))
    if st.headBA < len(st.logBA):
        evs.append(("dBA",))
    if not st.b_close_sent():
        evs.append(("bclose",))
    if st.nadj < lim["adj"] and not st.b_close_received and not st.b_close_sent():
        evs.extend(ADJ_EVENTS)
    return evs


def invariant(st, hist):
    return list(st.bad)


def _shape(msgs):
    out = []
    for mt, payload in msgs:
        if mt == MSG_DATA:
            out.append((mt, struct.unpack(">L", payload[4:8])[0]))
        elif mt == MSG_EXT:
            out.append((mt,) + struct.unpack(">2L", payload[4:12]))
        elif mt == MSG_WINDOW_ADJUST:
            out.append((mt, struct.unpack(">L", payload[4:8])[0]))
        else:
            out.append((mt,))
    return tuple(out)


def canon(st):
    a, b = st.chA, st.chB
    ga = getattr
    return (
        ga(a, "remoteWindowLeft", None), len(ga(a, "buf", b"")),
        tuple((t, len(d)) for t, d in ga(a, "extBuf", [])),
        bool(ga(a, "closing", 0)), bool(ga(a, "localClosed", 0)), bool(ga(a, "remoteClosed", 0)),
        bool(ga(a, "areWriting", 1)),
        ga(b, "localWindowLeft", None), bool(ga(b, "localClosed", 0)), bool(ga(b, "remoteClosed", 0)),
        _shape(st.logAB[st.headAB:]), _shape(st.logBA[st.headBA:]),
        st.ref_window, st.nwrites, st.nadj, st.close_requested, st.close_emitted, st.chA.armed, st.a_close_received,
        st.b_close_requested,
        tuple(len(st.written[k]) - len(st.emitted[k]) for k in ("d", "e1", "e2")),
        # granted vs written decides the quiescence demand: keep the surplus/deficit
        st.granted - sum(len(v) for v in st.written.values()),
    )


def limits(tier, win=1):
    # manual adjustWindow events: 2 where the receiver never replenishes on its own (window 1), else 1 in quick
    if tier == "quick":
        return {"writes": 3, "adj": 2 if win == 1 else 1, "depth": 8, "write_events": QUICK_WRITE_EVENTS}
    return {"writes": 4, "adj": 2, "depth": 10}


FIRST_GROUPS = [
    [("w", 1), ("w", 3), ("w", 5)],
    [("x", 1, 1), ("x", 1, 3), ("x", 2, 1), ("x", 2, 3)],
    [("close",), ("adj", 1), ("adj", 2), ("arm", 2), ("bclose",)],
]


def shards(tier, seed):
    # one shard per configuration x group of first events: each shard has its own visited set
    # (only the window-1 configurations - two manual adjustments, largest searches - are split; group -1 = no split)
    out = []
    for w in WINDOWS:
        for p in MAXPACKETS:
            if w == 1 or tier == "thorough":
                out.extend([w, p, g] for g in range(len(FIRST_GROUPS)))
            else:
                out.append([w, p, -1])
    return out


def run_shard(shard, tier, seed):
    w, p, g = shard
    lim = limits(tier, w)
    stats = Stats()
    group = FIRST_GROUPS[g] if g >= 0 else None

    def enabled_g(st):
        evs = enabled(st)
        if st.nevents == 0 and group is not None:
            evs = [e for e in evs if e in group]
        return evs

    def on_state(st, hist):
        if st.flags:
            stats.nt((w, p, canon(st)))
        for f in st.flags:
            stats.outcome(f)
        if any(st.chB.rec.values()):
            stats.outcome("data-received")
        if st.granted > st.win:
            stats.outcome("window-replenished")

    res = bfs(lambda: St(w, p, lim), apply, enabled_g, canon, invariant, lim["depth"], on_state=on_state)
    if g > 0:
        res.states -= 1      # the initial state is counted by group 0
    stats.add_bfs(res, {"config": [w, p], "tier": tier})
    stats.samples = [{"config": [w, p], "history": h} for h in res.samples[:1]]
    return stats


def replay(wit):
    w, p = wit["config"]
    st = St(w, p, limits(wit.get("tier", "quick"), w))
    for ev in wit["history"]:
        apply(st, tuple(ev))
        if st.bad:
            break
    return list(st.bad)
