"""C47 HAProxy PROXY protocol wrapper: every header family x payload x every segmentation of the declared class,
plus single-byte and single-field corruptions, against a reference validator written from the PROXY protocol spec.
"""
import ipaddress
import itertools
import re
import struct

from twisted.internet.protocol import Factory, Protocol
from twisted.protocols.haproxy._wrapper import HAProxyWrappingFactory

from mc.runner import Stats

ID = "C47"
LEVEL = "exploration"
TECHNIQUE = "exhaustive header families x segmentations, exhaustive single-site corruptions, reference validator"
RULE = ("valid: every header of the families v1 {TCP4, TCP6 (incl. the 104-byte worst case), UNKNOWN (bare / with "
        "ignored text)} and v2 {PROXY, LOCAL} x {INET, INET6, UNIX (filesystem paths and abstract-namespace paths with leading/inner NUL), UNSPEC} x {STREAM, DGRAM} x {no TLV, TLV} x payload "
        "{empty, 'x', 'PROXY ', CRLF+byte} delivered whole, with every single cut, with every pair of cuts "
        "(quick: streams <= 128 bytes; thorough: all; thorough also every 3 cuts for streams <= 48 bytes) and byte-wise. invalid: every byte of six base headers replaced by "
        "NUL / space / 'X' / 0xFF, every single-field corruption from a field grammar (keyword, protocol token, "
        "addresses, ports, separators, terminator, length, version/command, family/protocol, address-block length) and "
        "short garbage, each whole and with every single cut (thorough: every pair of cuts for streams <= 64 bytes). The reference validator decides "
        "valid (addresses, payload) / invalid (reason) / incomplete. non-trivial = distinct (stream, segmentation) with a "
        "delivery boundary strictly inside the header, or a corrupted stream the reference rejects")
BOUNDS = {"quick": "29 valid headers x 4 payloads: all 1-cuts, all 2-cuts for streams <= 128 bytes; ~1500 corrupted streams x every single cut",
          "thorough": "all 1- and 2-cuts for every stream, all 3-cuts for streams <= 48 bytes; corrupted streams x every 1-cut (2-cuts <= 64 bytes)"}
ASSUMPTIONS = [
    "validity is decided by the PROXY protocol specification (haproxy.org proxy-protocol.txt, sections 2.1/2.2): "
    "v1 line <= 107 bytes incl. CRLF, single spaces, canonical addresses of the stated family, ports 0..65535, "
    "'PROXY UNKNOWN' optionally followed by ignored text; v2 version 2, command 0/1, family/protocol byte one of "
    "00 11 12 21 22 31 32 for PROXY (ignored for LOCAL), length covering the address block",
    "debatable spellings (leading zeros, port 0, IPv4-mapped forms) are not generated",
    "an incomplete stream (valid so far) must only not reach the application; whether it is closed is not checked",
    "addresses are compared by value (ipaddress-normalised host, port; UNIX path bytes), not by spelling or TCP/UDP type",
    "an exception escaping dataReceived is not 'closing the connection'",
]
MIN = {"quick": {"evaluations": 85000, "nontrivial": 75000, "outcomes": 8},
       "thorough": {"evaluations": 1000000, "nontrivial": 900000, "outcomes": 8}}

SIG2 = b"\r\n\r\n\x00\r\nQUIT\n"
K_SHORT = "HAProxyProtocolWrapper:valid-header-closed-when-first-delivery-too-short-to-sniff"
K_BARE = "V1Parser:bare-PROXY-UNKNOWN-rejected"


class Tr:
    disconnecting = False

    def __init__(self):
        self.real_peer = ("real-peer",)
        self.real_host = ("real-host",)

    def loseConnection(self):
        self.disconnecting = True

    def write(self, data):
        pass

    def writeSequence(self, seq):
        pass

    def getPeer(self):
        return self.real_peer

    def getHost(self):
        return self.real_host

    def registerProducer(self, p, s):
        pass

    def unregisterProducer(self):
        pass


class App(Protocol):
    def connectionMade(self):
        self.data = []
        self.seen = []

    def dataReceived(self, d):
        self.data.append(d)
        self.seen.append((self.transport.getPeer(), self.transport.getHost()))


_FACTORY = None
_DONE = None


def execute(segs):
    """-> dict(data, closed, seen, exc)"""
    global _FACTORY, _DONE
    if _FACTORY is None:
        from twisted.internet.error import ConnectionDone
        from twisted.python.failure import Failure
        _FACTORY = HAProxyWrappingFactory(Factory.forProtocol(App))
        _DONE = Failure(ConnectionDone())
    p = _FACTORY.buildProtocol(None)
    t = Tr()
    p.makeConnection(t)
    app = p.wrappedProtocol
    exc = None
    try:
        for s in segs:
            if t.disconnecting:
                break
            p.dataReceived(s)
        if not t.disconnecting:
            app.seen.append((app.transport.getPeer(), app.transport.getHost()))
    except Exception as e:      # noqa: the property does not allow any exception; recorded, classified below
        tb = e.__traceback__
        while tb.tb_next is not None:
            tb = tb.tb_next
        exc = (type(e).__name__, tb.tb_frame.f_code.co_filename.rsplit("/", 1)[-1])
    try:
        p.connectionLost(_DONE)          # unregister from the factory
    except Exception:                    # noqa: not under test
        pass
    return {"data": b"".join(app.data), "closed": t.disconnecting, "seen": app.seen, "exc": exc, "t": t}


# ---------------------------------------------------------------- reference validator (from the spec)

PORT = re.compile(rb"(0|[1-9][0-9]{0,4})\Z")


def _v1_addr(fam, raw):
    try:
        txt = raw.decode("ascii")
    except UnicodeDecodeError:
        return None
    if not txt or txt != txt.strip() or "%" in txt or "/" in txt:
        return None
    try:
        a = ipaddress.IPv4Address(txt) if fam == 4 else ipaddress.IPv6Address(txt)
    except ValueError:
        return None
    return a


def reference(s):
    """-> ("valid", src, dst, payload, hdrlen, version) | ("invalid", reason) | ("incomplete",)
    src/dst: None or ("ip", ipaddress obj, port) or ("unix", path bytes)."""
    n = len(s)
    if s[:12] == SIG2[:n] if n < 12 else s[:12] == SIG2:
        if n < 16:
            return ("incomplete",)
        vc, fp = s[12], s[13]
        if vc >> 4 != 2:
            return ("invalid", "v2-version")
        cmd = vc & 15
        if cmd not in (0, 1):
            return ("invalid", "v2-command")
        ln = struct.unpack("!H", s[14:16])[0]
        if cmd == 1 and fp not in (0x00, 0x11, 0x12, 0x21, 0x22, 0x31, 0x32):
            return ("invalid", "v2-reserved-family-protocol")
        need = {1: 12, 2: 36, 3: 216}.get(fp >> 4, 0) if cmd == 1 and fp != 0 else 0
        if ln < need:
            return ("invalid", "v2-length-shorter-than-address-block")
        if n < 16 + ln:
            return ("incomplete",)
        blk = s[16:16 + need]
        src = dst = None
        if need == 12:
            src = ("ip", ipaddress.IPv4Address(blk[0:4]), struct.unpack("!H", blk[8:10])[0])
            dst = ("ip", ipaddress.IPv4Address(blk[4:8]), struct.unpack("!H", blk[10:12])[0])
        elif need == 36:
            src = ("ip", ipaddress.IPv6Address(blk[0:16]), struct.unpack("!H", blk[32:34])[0])
            dst = ("ip", ipaddress.IPv6Address(blk[16:32]), struct.unpack("!H", blk[34:36])[0])
        elif need == 216:
            src = ("unix", blk[0:108].rstrip(b"\0"))          # only the trailing NUL padding is not part of the path:
            dst = ("unix", blk[108:216].rstrip(b"\0"))        # abstract-namespace paths start with / contain NUL
        return ("valid", src, dst, s[16 + ln:], 16 + ln, 2)
    kw = b"PROXY "
    if n < 6:
        return ("incomplete",) if kw.startswith(s) else ("invalid", "signature")
    if s[:6] != kw:
        return ("invalid", "signature")
    i = s.find(b"\r\n", 0, 107)
    if i < 0:
        return ("invalid", "v1-no-CRLF-within-107") if n >= 107 else ("incomplete",)
    line, payload = s[6:i], s[i + 2:]
    if line == b"UNKNOWN" or line.startswith(b"UNKNOWN "):
        return ("valid", None, None, payload, i + 2, 1)
    parts = line.split(b" ")
    if parts[0] not in (b"TCP4", b"TCP6"):
        return ("invalid", "v1-protocol-token")
    if len(parts) < 5:
        return ("invalid", "v1-missing-field")
    if len(parts) > 5:
        return ("invalid", "v1-extra-field-or-separator")
    fam = 4 if parts[0] == b"TCP4" else 6
    a, b = _v1_addr(fam, parts[1]), _v1_addr(fam, parts[2])
    if a is None or b is None:
        return ("invalid", "v1-address")
    ports = []
    for raw in parts[3:5]:
        if not PORT.match(raw) or int(raw) > 65535:
            return ("invalid", "v1-port")
        ports.append(int(raw))
    return ("valid", ("ip", a, ports[0]), ("ip", b, ports[1]), payload, i + 2, 1)


def addr_matches(got, exp, real):
    if exp is None:
        return True          # the header carries no address: the statement does not say what is shown
    try:
        if exp[0] == "unix":
            if type(got).__name__ != "UNIXAddress":
                return False
            name = got.name
            if isinstance(name, str):
                name = name.encode("utf-8", "surrogateescape")
            return name == exp[1]
        if type(got).__name__ != ("IPv4Address" if exp[1].version == 4 else "IPv6Address"):
            return False
        return ipaddress.ip_address(got.host) == exp[1] and got.port == exp[2]
    except (AttributeError, ValueError):
        return False


def classify(s, segs, r, ref):
    """None or a signature."""
    if ref[0] == "valid":
        _, src, dst, payload, hdrlen, ver = ref
        if r["exc"]:
            return "HAProxyProtocolWrapper:valid-header-raises-%s" % r["exc"][0]
        if r["closed"] or r["data"] != payload:
            bare = ver == 1 and s[:hdrlen] == b"PROXY UNKNOWN\r\n"
            if bare and r["closed"] and not r["data"]:
                return K_BARE
            if r["closed"] and not r["data"] and len(segs[0]) < (16 if ver == 2 else 8):
                return K_SHORT
            if r["closed"]:
                return "HAProxyProtocolWrapper:valid-header-closed"
            if not r["data"]:
                return "HAProxyProtocolWrapper:application-bytes-not-delivered"
            return "HAProxyProtocolWrapper:application-bytes-altered"
        for peer, host in r["seen"]:
            if not addr_matches(peer, src, None):
                return "HAProxyProtocolWrapper:wrong-source-address-v%d" % ver
            if not addr_matches(host, dst, None):
                return "HAProxyProtocolWrapper:wrong-destination-address-v%d" % ver
        return None
    if r["data"]:
        if ref[0] == "incomplete":
            return "HAProxyProtocolWrapper:bytes-of-incomplete-header-passed-to-application"
        return "HAProxyProtocolWrapper:accepts-invalid-header:" + ref[1]
    if ref[0] == "incomplete":
        if r["exc"]:
            return "HAProxyProtocolWrapper:incomplete-header-raises-%s" % r["exc"][0]
        return None
    if r["exc"]:
        return "HAProxyProtocolWrapper:invalid-header-raises-%s" % r["exc"][0]
    if not r["closed"]:
        return "HAProxyProtocolWrapper:invalid-header-not-closed:" + ref[1]
    return None


# ---------------------------------------------------------------- families

def v2(cmd, fp, block, tlv=b"", ln=None):
    body = block + tlv
    return SIG2 + bytes([0x20 | cmd, fp]) + struct.pack("!H", len(body) if ln is None else ln) + body


def valid_headers(seed):
    o = seed % 3
    h = []
    h.append(b"PROXY TCP4 1.2.3.%d 10.20.30.40 1 65535\r\n" % (4 + o))
    h.append(b"PROXY TCP4 255.255.255.255 0.0.0.0 65535 80\r\n")
    h.append(b"PROXY TCP6 ::1 ::2 1 2\r\n")
    h.append(b"PROXY TCP6 2001:db8::%x fe80::1 443 1024\r\n" % (1 + o))
    h.append(b"PROXY TCP6 ffff:ffff:ffff:ffff:ffff:ffff:ffff:ffff ffff:ffff:ffff:ffff:ffff:ffff:ffff:ffff 65535 65535\r\n")
    h.append(b"PROXY UNKNOWN\r\n")
    h.append(b"PROXY UNKNOWN \r\n")
    h.append(b"PROXY UNKNOWN ffff::1 what ever 1 2 3\r\n")
    a4 = bytes([1, 2, 3, 4 + o, 10, 20, 30, 40]) + struct.pack("!HH", 1, 65535)
    a6 = ipaddress.IPv6Address("2001:db8::%x" % (1 + o)).packed + ipaddress.IPv6Address("::1").packed + struct.pack("!HH", 443, 1024)
    au = b"/tmp/src.sock".ljust(108, b"\0") + (b"d" * 107).ljust(108, b"\0")
    tlv = b"\x04\x00\x02\x00\x00"         # PP2_TYPE_NOOP, 2 bytes
    for fp, blk in ((0x11, a4), (0x12, a4), (0x21, a6), (0x22, a6), (0x31, au), (0x32, au), (0x00, b"")):
        for t in (b"", tlv):
            h.append(v2(1, fp, blk, t))
    ab = b"\0abstract-src".ljust(108, b"\0") + b"\0in\0ner\0x".ljust(108, b"\0")      # Linux abstract namespace
    am = b"/p\0q".ljust(108, b"\0") + (b"\0" + b"e" * 107)                               # inner NUL; full-length abstract
    for blk in (ab, am):
        h.append(v2(1, 0x31, blk))
    h.append(v2(1, 0x32, ab, tlv))
    h.append(v2(1, 0x00, a4))               # UNSPEC with ignored bytes
    h.append(v2(0, 0x00, b""))              # LOCAL
    h.append(v2(0, 0x11, a4, tlv))          # LOCAL with an (ignored) address block
    h.append(v2(0, 0x00, b"", tlv))
    return h


PAYLOADS = [b"", b"x", b"PROXY ", b"\r\nz"]


def cut_sets(n, k):
    for r in range(0, k + 1):
        for pos in itertools.combinations(range(1, n), r):
            yield pos


def split_at(s, pos):
    out, last = [], 0
    for p in pos:
        out.append(s[last:p])
        last = p
    out.append(s[last:])
    return tuple(out)


def corrupted_streams(seed):
    """(label, stream) single-site corruptions and garbage."""
    out = []
    a4 = bytes([1, 2, 3, 4, 10, 20, 30, 40]) + struct.pack("!HH", 1, 65535)
    a6 = ipaddress.IPv6Address("2001:db8::1").packed + ipaddress.IPv6Address("::1").packed + struct.pack("!HH", 443, 1024)
    bases = [b"PROXY TCP4 1.2.3.4 10.20.30.40 11 65535\r\n", b"PROXY TCP6 2001:db8::1 ::2 443 1024\r\n",
             b"PROXY UNKNOWN abc\r\n", v2(1, 0x11, a4, b"\x04\x00\x01\x00"), v2(0, 0x00, b""), v2(1, 0x21, a6)]
    for bi, base in enumerate(bases):
        for i in range(len(base)):
            for v in (0, 32, 88, 255):
                if base[i] != v:
                    out.append(("byte%d@%d=%02x" % (bi, i, v), base[:i] + bytes([v]) + base[i + 1:] + b"xy"))
    # v1 field grammar: one field wrong at a time
    good = dict(kw=b"PROXY", proto=b"TCP4", src=b"1.2.3.4", dst=b"10.20.30.40", sp=b"11", dp=b"65535", sep=b" ", end=b"\r\n")
    alts = {
        "kw": [b"PROXYX", b"proxy", b"PROX", b"PROXY\t"],
        "proto": [b"TCP5", b"tcp4", b"TCP", b"UNKNOWNX", b"", b"TCP6"],
        "src": [b"256.2.3.4", b"1.2.3", b"1.2.3.4.5", b"::1", b"1.2.3.x", b"", b"1.2.3.4/8", b"1.2.3.\xc3\xa9"],
        "dst": [b"10.20.30.400", b"10.20..40", b"localhost"],
        "sp": [b"65536", b"99999", b"", b"x", b"-1", b"+1", b"1_0", b"1.0", b"0x10", b"123456"],
        "dp": [b"65536", b"6553x", b"", b"1 2", b"1 "],
        "sep": [b"  ", b"\t"],
        "end": [b"\n", b"\r", b"\r\r\n", b""],
    }
    for field, vals in alts.items():
        for v in vals:
            f = dict(good)
            f[field] = v
            s = f["sep"].join([f["kw"], f["proto"], f["src"], f["dst"], f["sp"], f["dp"]]) + f["end"] + b"xy"
            out.append(("v1:%s=%r" % (field, v), s))
    f6 = [b"PROXY TCP6 1.2.3.4 ::1 1 2\r\nxy", b"PROXY TCP6 ::1 ::g 1 2\r\nxy", b"PROXY TCP6 ::1%eth0 ::2 1 2\r\nxy",
          b"PROXY TCP6 [::1] ::2 1 2\r\nxy", b"PROXY TCP6 1:2:3:4:5:6:7:8:9 ::2 1 2\r\nxy"]
    out += [("v1:tcp6-%d" % i, s) for i, s in enumerate(f6)]
    out.append(("v1:too-long-unknown", b"PROXY UNKNOWN " + b"u" * 100 + b"\r\nxy"))       # CRLF beyond 107
    out.append(("v1:107-no-crlf", b"PROXY UNKNOWN " + b"u" * 93 + b"xy"))
    out.append(("v1:exactly-107", b"PROXY UNKNOWN " + b"u" * 91 + b"\r\nxy"))             # valid: 107 incl. CRLF
    out.append(("v1:108", b"PROXY UNKNOWN " + b"u" * 92 + b"\r\nxy"))
    # v2 field grammar
    for vc in (0x00, 0x10, 0x11, 0x22, 0x2f, 0x30, 0x31, 0xff):
        out.append(("v2:vercmd=%02x" % vc, SIG2 + bytes([vc, 0x11]) + struct.pack("!H", 12) + a4 + b"xy"))
    for fp in (0x01, 0x02, 0x10, 0x13, 0x20, 0x23, 0x30, 0x33, 0x40, 0x41, 0xf1, 0x1f):
        out.append(("v2:famproto=%02x" % fp, v2(1, fp, a6 + bytes(180)) + b"xy"))
        out.append(("v2:local-famproto=%02x" % fp, v2(0, fp, a6 + bytes(180)) + b"xy"))
    for fp, need in ((0x11, 12), (0x21, 36), (0x31, 216)):
        for ln in (0, need - 1, need, need + 1):
            out.append(("v2:len=%d/%d" % (ln, need), v2(1, fp, bytes(range(1, 1 + min(ln, 250))).ljust(ln, b"\x01")) + b"xy"))
    for i in range(12):
        for v in (0, 255):
            if SIG2[i] != v:
                out.append(("v2:sig@%d" % i, SIG2[:i] + bytes([v]) + SIG2[i + 1:] + b"\x21\x11\x00\x0c" + a4 + b"xy"))
    for g in (b"G", b"GET / HTTP/1.1\r\nHost: x\r\n\r\n", b"\r\n\r\n", b"\x16\x03\x01\x02\x00\x01\x00\x01\xfc\x03\x03" + bytes(20),
              b"PROXZ TCP4 1.2.3.4 1.2.3.4 1 2\r\n", b" PROXY TCP4 1.2.3.4 1.2.3.4 1 2\r\n", b"\r\n\r\n\x00\r\nQUIT\r" + bytes(20)):
        out.append(("garbage", g))
    return out


def shards(tier, seed):
    nh = len(valid_headers(seed))
    out = [["valid", i] for i in range(nh)]
    out += [["corrupt", k, 8] for k in range(8)]
    return out


def report(st, label, s, segs, r, ref, sig):
    st.violation(sig, {"what": label, "stream": s, "segments": list(segs), "app_data": r["data"], "closed": r["closed"],
                       "exception": r["exc"], "addresses_seen": repr(r["seen"])[:300], "reference": repr(ref)[:300]},
                 {"segments": list(segs)})


def run_shard(shard, tier, seed):
    st = Stats()
    q = tier == "quick"
    if shard[0] == "valid":
        hdr = valid_headers(seed)[shard[1]]
        for pay in PAYLOADS:
            s = hdr + pay
            ref = reference(s)
            if ref[0] != "valid" or ref[3] != pay or ref[4] != len(hdr):
                raise AssertionError("reference rejects a header of the valid family: %r -> %r" % (s, ref))
            st.outcome("valid-v%d-%s" % (ref[5], "addr" if ref[1] else "noaddr"))
            n = len(s)
            k = 2 if (not q or n <= 128) else 1
            if not q and n <= 48:
                k = 3
            plans = itertools.chain(cut_sets(n, k), [tuple(range(1, n))])
            for pos in plans:
                segs = split_at(s, pos)
                r = execute(segs)
                st.evaluations += 1
                if pos and pos[0] < len(hdr):
                    st.nt(hash((s, pos)))
                sig = classify(s, segs, r, ref)
                if sig:
                    report(st, "valid header", s, segs, r, ref, sig)
                    st.outcome("known-shape" if sig in (K_SHORT, K_BARE) else "violation")
                else:
                    st.outcome("accepted")
            if st.evaluations % 7 == 0:
                st.sample({"header": hdr, "payload": pay, "reference": repr(ref)[:200]}, 2)
    else:
        _, k, mod = shard
        for idx, (label, s) in enumerate(corrupted_streams(seed)):
            if idx % mod != k:
                continue
            ref = reference(s)
            st.outcome("corrupt->" + ref[0])
            n = len(s)
            hdrlen = ref[4] if ref[0] == "valid" else (s.find(b"\r\n") + 2 if s[:5] == b"PROXY" and b"\r\n" in s else n - 2)
            cuts = {()} | {(i,) for i in range(1, n)}
            if not q and n <= 64:
                cuts |= {(i, j) for i in range(1, n) for j in range(i + 1, n)}
            for pos in sorted(cuts):
                if pos and not (0 < pos[0] < n):
                    continue
                segs = split_at(s, pos)
                r = execute(segs)
                st.evaluations += 1
                if ref[0] == "invalid":
                    st.nt(hash((s, pos)))
                sig = classify(s, segs, r, ref)
                if sig:
                    report(st, label, s, segs, r, ref, sig)
                    st.outcome("corrupt-violation")
                elif r["closed"]:
                    st.outcome("rejected")
    return st


def replay(w):
    segs = tuple(w["segments"])
    s = b"".join(segs)
    ref = reference(s)
    r = execute(segs)
    sig = classify(s, segs, r, ref)
    return [(sig, {"app_data": r["data"], "closed": r["closed"], "exception": r["exc"]})] if sig else []
