"""C58 ClientService: explicit-state search over the real service with a fake endpoint/transport/clock.

The oracle is a small observational reference (what is open, what was asked, what is due) that is
updated *before* every real call, so that callbacks fired from inside the service are judged against
the situation that holds at that moment.  Private state is read only for the canonical state hash.
"""
import os

import twisted.application.internet  # noqa: F401  (imported before the workers fork)
from mc.bfs import bfs
from mc.runner import Stats

ID = "C58"
LEVEL = "model_checking"
TECHNIQUE = "explicit-state BFS over event histories on the real ClientService, observational reference oracle"
RULE = ("BFS over histories of startService / stopService / whenConnected(None|0|1|2|3) / attempt succeeds / "
        "attempt fails / prepareConnection Deferred fires ok|fail / connectionLost on any open transport / "
        "clock to next retry / clock half-way, executed on a real ClientService for every configuration "
        "(prepareConnection in {absent, ok, raises, closes-then-raises, Deferred}, endpoint answering "
        "asynchronously or synchronously (success/failure scripts), transport closing asynchronously or "
        "synchronously, waiter callbacks re-entering whenConnected/stopService, application protocol whose own connectionLost raises). After every event: <=1 "
        "connection/attempt, retry at failure time + policy(consecutive failures), waiter deadlines "
        "(connection / failure limit / stop), stop Deferred vs. open connections, no exception from any event. "
        "non-trivial = distinct canonical states with a pending waiter, retry, prepare, closing connection, "
        "pending stop or abandoned connection")
BOUNDS = {"quick": "every history of <= 8 events, <= 2 pending waiters at a time, 43 configurations",
          "thorough": "every history of <= 11 events, <= 2 pending waiters at a time, 43 configurations"}
ASSUMPTIONS = [
    "fake endpoint: connect() returns a Deferred that the harness fires, fails, leaves pending, or that is "
    "already fired (sync scripts); cancelling it fails it synchronously (Deferred semantics)",
    "fake transport: loseConnection only marks the transport as closing (connectionLost is a later harness "
    "event) or, in sync-close configurations, delivers connectionLost before returning",
    "retryPolicy(n) = 2n+1 (injective), task.Clock; the service depends on the failure count only through it",
    "canonical state = reference facts + automat state name, failedAttempts, remaining-failure counters and "
    "timer offsets read defensively from private attributes (hash only, never the verdict); fired waiters "
    "and completed stops are dropped",
    "known divergences (connection lost during prepareConnection, loss of a rejected connection taken for the "
    "current one, stopService re-entered from a callback) are reported and not explored further; the other "
    "known findings are reported and exploration continues with the forgotten connection tracked separately",
    "ambiguities resolved leniently: a dropped connection may or may not count as a consecutive failure, a "
    "stop may or may not reset the count, a waiter created while connected may fire now or at the next "
    "connection, a connection on which loseConnection was called is not counted as a second open connection",
]
LEVEL_TEXT = ("Every history of the stated alphabet up to the depth bound is executed on the real "
              "ClientService; states are merged by a canonical hash; the invariant is evaluated after every transition.")
MIN = {"quick": {"states": 66000, "transitions": 220000, "nontrivial": 65000, "outcomes": 18},
       "thorough": {"states": 160000, "transitions": 545000, "nontrivial": 158000, "outcomes": 18}}

P = "ClientService:"
# known-defect family: a connection whose prepareConnection failed / was cancelled is forgotten by the service
A1 = P + "abandoned-connection:new-attempt-while-rejected-connection-left-open"
A2 = P + "abandoned-connection:stop-deferred-fired-while-connection-left-open"
A3 = P + "abandoned-connection:its-loss-is-rejected-as-invalid-event"
A4 = P + "abandoned-connection:its-loss-is-mistaken-for-loss-of-current-connection"
B1 = P + "event-rejected:connection-lost-while-prepareConnection-pending"
C1 = P + "waiter-pending-after-stop:service-never-started"
D1 = P + "event-rejected:whenConnected-called-from-waiter-callback"
D2 = P + "event-rejected:stopService-called-from-waiter-callback"

HERE = os.path.abspath(__file__)
MAXW = 2


def policy(n):
    return float(2 * n + 1)


class Rejected(Exception):
    pass


class Refused(Exception):
    pass


class HarnessBug(Exception):
    pass


class AppError(Exception):
    """Raised by the application protocol's own connectionLost (configuration proto=lost_raises)."""


def _mine(exc):
    """True when the innermost frame of the exception is in this file (a harness bug, not the service)."""
    tb, last = exc.__traceback__, None
    while tb is not None:
        last, tb = tb, tb.tb_next
    return last is not None and os.path.abspath(last.tb_frame.f_code.co_filename) == HERE


class Thing:
    """One attempt and, if it succeeds, the connection it becomes."""
    __slots__ = ("stage", "t", "d", "hd", "inner", "tailed", "hd_cancelled")

    def __init__(self):
        self.stage = "attempt"   # attempt | prep | up | closing | abandoned | done
        self.t = None
        self.d = None
        self.hd = None
        self.inner = None
        self.tailed = False
        self.hd_cancelled = False


class Transport:
    disconnecting = False

    def __init__(self, st, thing):
        self.st, self.thing = st, thing
        self.open = True
        self.closing = False
        self.proxy = None

    def loseConnection(self):
        if not self.open or self.closing:
            return
        self.closing = True
        self.disconnecting = True
        if self.st.cfg["sync_close"]:
            self.st.deliver_lost(self)

    abortConnection = loseConnection

    def write(self, data):
        pass

    def writeSequence(self, seq):
        pass

    def getPeer(self):
        return None

    def getHost(self):
        return None


class Waiter:
    __slots__ = ("L", "fails", "stop_seen", "fired", "excused", "d", "gen")

    def __init__(self, L, stop_seen, gen):
        self.L, self.fails, self.stop_seen = L, 0, stop_seen
        self.fired = []
        self.excused = False
        self.d = None
        self.gen = gen


class StopRec:
    __slots__ = ("waitfor", "soft", "waiters", "never_started", "fired")

    def __init__(self):
        self.fired = False


_CLS = []


def _classes():
    if not _CLS:
        from twisted.application.internet import ClientService
        from twisted.internet import task
        from twisted.internet.protocol import Factory, Protocol
        from twisted.internet.interfaces import IStreamClientEndpoint
        from zope.interface import implementer

        class RaisingProtocol(Protocol):
            def connectionLost(self, reason):
                raise AppError("application connectionLost failed")

        class F(Factory):
            def __init__(self, st):
                self.st = st

            def buildProtocol(self, addr):
                p = RaisingProtocol() if self.st.cfg.get("proto") == "lost_raises" else Protocol()
                self.st.last_inner = p
                return p

        @implementer(IStreamClientEndpoint)
        class EP:
            def __init__(self, st):
                self.st = st

            def connect(self, factory):
                return self.st.ep_connect(factory)

        _CLS.extend([ClientService, task.Clock, F, EP])
    return _CLS


class St:
    def __init__(self, cfg):
        ClientService, Clock, F, EP = _classes()
        self.cfg = cfg
        self.clock = Clock()
        prep = cfg["prep"]
        hook = None if prep == "none" else self.hook
        self.svc = ClientService(EP(self), F(self), retryPolicy=policy, clock=self.clock, prepareConnection=hook)
        self.harness_exc = None
        # reference
        self.running = False
        self.ever_started = False
        self.cur = None
        self.abandoned = []     # transports the service walked away from (still open)
        self.retry_tf = None    # time of the failure a retry is due for
        self.S = {0}            # acceptable values of "current number of consecutive failures"
        self.waiters = []       # pending
        self.stops = []         # pending
        self.must_fire = []
        self.nattempts = 0
        self.things = []        # attempts whose Deferred still needs a tail errback
        self.bad = []
        self.soft = []
        self.flags = set()      # outcome classes seen along this history
        self.last_inner = None
        self.local_abandoned_loss = False
        self.local_abandoned_lost_any = False
        self.cut = False
        self.in_event = None

    # ---------------------------------------------------------------- helpers
    def phase(self):
        if self.cur is not None:
            return self.cur.stage
        if self.retry_tf is not None:
            return "wait"
        return "started" if self.running else "idle"

    def hard(self, sig, detail=""):
        if self.local_abandoned_loss:
            sig, detail = A4, "%s (%s)" % (sig, detail)
        else:
            sig = P + sig
        self.bad.append((sig, detail))

    def softv(self, sig, detail=""):
        self.soft.append((sig, detail))
        self.flags.add("finding:" + sig.split(":", 1)[1][:40])

    def guarded(self, what, fn, *a, **kw):
        """Run a real call; an exception out of the service means the event was rejected."""
        try:
            return fn(*a, **kw)
        except HarnessBug:
            raise
        except Exception as e:
            if _mine(e):
                raise
            if not getattr(e, "_c58_seen", False):
                if self.local_abandoned_lost_any:
                    # the loss notification of a rejected connection was postponed by the machine (it arrived
                    # while another input was running) and is rejected afterwards; later postponed inputs are dropped
                    self.cut = True
                    self.bad.append((A3, "%s raised %s: %s" % (what, type(e).__name__, e)))
                else:
                    self.hard("event-rejected:%s@%s" % (what, self.in_event[1]), "%s: %s" % (type(e).__name__, e))
            return None

    # ---------------------------------------------------------------- endpoint side
    def ep_connect(self, factory):
        from twisted.internet.defer import Deferred, succeed, fail
        from twisted.python.failure import Failure
        now = self.clock.seconds()
        if not self.running:
            self.hard("connect-while-not-running", "endpoint.connect() in phase %s" % self.phase())
        if self.cur is not None:
            self.hard("second-attempt-while-%s" % self.cur.stage, "endpoint.connect() while %s" % self.cur.stage)
        if any(t.open and not t.closing for t in self.abandoned):
            self.softv(A1, "endpoint.connect() while a connection rejected by prepareConnection is still open "
                           "and nobody asked to close it")
        if self.retry_tf is not None:
            el = now - self.retry_tf
            ok = sorted(policy(n) for n in self.S)
            if el not in ok:
                self.hard("retry-delay-wrong", "retry %.1fs after the failure; policy allows %r" % (el, ok))
            self.flags.add("retry-after-%d" % max(self.S))
        self.retry_tf = None
        th = Thing()
        self.cur = th
        self.things.append(th)
        script = self.cfg["script"]
        mode = script[self.nattempts % len(script)]
        self.nattempts += 1
        if mode == "P":
            th.d = Deferred(lambda d, th=th: self.ref_cancelled(th))
            th.d._c58_factory = factory
            return th.d
        if mode == "S":
            proxy = self.open_transport(th, factory)
            th.d = succeed(proxy)
            return th.d
        self.ref_failed(th)
        th.d = fail(Failure(Refused("refused")))
        return th.d

    def ref_cancelled(self, th):
        # the service cancelled a pending attempt: it fails synchronously with CancelledError
        if th.stage == "attempt":
            th.stage = "done"
            if self.cur is th:
                self.cur = None
            self.flags.add("attempt-cancelled")

    def ref_failed(self, th):
        """An attempt failed / a connection was rejected (reference update, before the service hears of it)."""
        th.stage = "abandoned" if (th.t is not None and th.t.open) else "done"
        if th.stage == "abandoned":
            self.abandoned.append(th.t)
        if self.cur is th:
            self.cur = None
        if self.running:
            self.S = {k + 1 for k in self.S}
            self.retry_tf = self.clock.seconds()
        for w in self.waiters:
            w.fails += 1
            if w.L is not None and w.fails >= w.L:
                self.must_fire.append((w, "failure-limit"))

    def ref_established(self, th):
        th.stage = "up"
        self.flags.add("established")
        if self.running:
            self.S = {0}
            for w in self.waiters:
                self.must_fire.append((w, "connection"))

    def open_transport(self, th, factory):
        """The endpoint's connection succeeded: build the protocol, connect the transport, update the reference."""
        proxy = factory.buildProtocol(None)
        th.inner = self.last_inner
        t = Transport(self, th)
        t.proxy = proxy
        th.t = t
        proxy.makeConnection(t)
        prep = self.cfg["prep"]
        if prep in ("none", "ok"):
            self.ref_established(th)
        elif prep in ("raise", "close_raise"):
            self.flags.add("rejected")
            self.ref_failed(th)
        else:
            th.stage = "prep"
        return proxy

    def hook(self, proto):
        try:
            return self._hook(proto)
        except HarnessBug as e:
            self.harness_exc = e
            raise
        except Rejected:
            raise
        except Exception as e:
            if _mine(e):
                self.harness_exc = e
            raise

    def _hook(self, proto):
        from twisted.internet.defer import Deferred
        prep = self.cfg["prep"]
        if prep == "ok":
            return None
        if prep == "raise":
            raise Rejected("no")
        if prep == "close_raise":
            try:
                proto.transport.loseConnection()
            except HarnessBug:
                raise
            except Exception as e:
                if _mine(e) or not getattr(e, "_c58_seen", False):
                    raise
            raise Rejected("no")
        th = self.cur
        if th is None or th.stage != "prep" or th.hd is not None:
            raise HarnessBug("hook called in unexpected situation")

        def cancelled(d, th=th):
            th.hd_cancelled = True
            # the service gave up on a connection that is being prepared
            if th.stage == "prep":
                th.stage = "abandoned" if th.t.open else "done"
                if th.t.open:
                    self.abandoned.append(th.t)
                if self.cur is th:
                    self.cur = None
                self.flags.add("prepare-cancelled")
        th.hd = Deferred(cancelled)
        return th.hd

    def deliver_lost(self, t):
        from twisted.internet.error import ConnectionDone
        from twisted.python.failure import Failure
        th = t.thing
        t.open = False
        kind = th.stage
        phase = self.phase()
        if th is self.cur:
            self.cur = None
            th.stage = "done"
            if kind == "prep":
                # a correct service would treat this like a failed attempt
                self.ref_failed(th)
            elif kind == "up":
                if self.running:
                    self.S = self.S | {k + 1 for k in self.S}
                    self.retry_tf = self.clock.seconds()
                self.flags.add("dropped")
            elif kind == "closing":
                self.flags.add("closed-after-stop")
                if self.running:
                    self.flags.add("restart")
        else:
            th.stage = "done"
            if t in self.abandoned:
                self.abandoned.remove(t)
            kind = "abandoned"
            self.local_abandoned_lost_any = True
            if self.cur is not None and self.cur.stage in ("up", "closing"):
                self.local_abandoned_loss = True
        try:
            t.proxy.connectionLost(Failure(ConnectionDone()))
        except HarnessBug:
            raise
        except AppError:
            # the application's own exception comes back to the transport (which logs it); the service
            # must have been told about the loss all the same -- judged by the ordinary end-of-event checks
            self.flags.add("app-connectionLost-raised")
        except Exception as e:
            if _mine(e):
                raise
            if getattr(e, "_c58_seen", False):
                raise
            e._c58_seen = True
            msg = "connectionLost raised %s: %s" % (type(e).__name__, e)
            if kind == "abandoned":
                self.softv(A3, "%s (phase %s)" % (msg, phase))
            elif kind == "prep":
                self.cut = True
                self.bad.append((B1, msg))
            else:
                self.hard("event-rejected:connection-lost@%s" % phase, msg)
            raise

    # ---------------------------------------------------------------- waiters
    def new_waiter(self, L, gen=0):
        w = Waiter(L, not self.running, gen)
        self.waiters.append(w)
        try:
            d = self.svc.whenConnected(failAfterFailures=L)
        except Exception:
            self.waiters.remove(w)
            raise
        w.d = d
        d.addCallbacks(lambda r, w=w: self.w_fired(w, True, r), lambda f, w=w: self.w_fired(w, False, f))
        return w

    def w_fired(self, w, ok, res):
        try:
            self._w_fired(w, ok, res)
        except Exception as e:
            self.bad.append(("HARNESS", "waiter callback: %r" % (e,)))
            self.harness_exc = e
        return None

    def _w_fired(self, w, ok, res):
        from twisted.internet.defer import CancelledError
        w.fired.append(ok)
        if w in self.waiters:
            self.waiters.remove(w)
        if len(w.fired) > 1:
            self.hard("waiter-fired-twice", repr(w.fired))
            return
        cur = self.cur
        if ok:
            if not (cur is not None and cur.stage in ("up", "closing") and cur.t.open and res is cur.inner):
                self.hard("waiter-success-without-established-connection",
                          "fired with %r in phase %s" % (res, self.phase()))
            self.flags.add("waiter-connected")
        else:
            if res.type not in (CancelledError, Refused, Rejected):
                self.hard("internal-error-delivered-to-waiter", "%s: %s" % (res.type.__name__, res.value))
            limit = w.L is not None and w.fails >= w.L
            if not (w.stop_seen or limit):
                self.hard("waiter-failed-spuriously",
                          "whenConnected(%r) failed with %s after %d failure(s), no stop" % (w.L, res.type.__name__, w.fails))
            self.flags.add("waiter-failed-at-limit-%s" % w.L if limit and not w.stop_seen else "waiter-cancelled")
        re = self.cfg["reenter"]
        if re and w.gen == 0 and self.in_event is not None and self.in_event[0] != "wc":
            # re-enter the service from the callback (only when fired from inside another event)
            if re == "wc":
                try:
                    self.new_waiter(None, gen=1)
                except HarnessBug:
                    raise
                except Exception as e:
                    if _mine(e):
                        raise
                    self.softv(D1, "whenConnected() from a whenConnected callback raised %s: %s" % (type(e).__name__, e))
            else:
                try:
                    self.do_stop()
                except HarnessBug:
                    raise
                except Exception as e:
                    if _mine(e):
                        raise
                    # Service.running is already False, the machine never saw the stop: not explored further
                    self.cut = True
                    self.bad.append((D2, "stopService() from a whenConnected callback raised %s: %s" % (type(e).__name__, e)))

    # ---------------------------------------------------------------- stop
    def do_stop(self):
        rec = StopRec()
        cur = self.cur
        rec.waitfor = cur
        rec.soft = [t for t in self.abandoned if t.open and not t.closing]
        # a stop request imposes a deadline on the waiters that exist now; a duplicate stop of a service
        # that is already stopping/stopped (and may be restarted before it finishes) imposes none
        rec.never_started = not self.ever_started
        rec.waiters = list(self.waiters) if (self.running or rec.never_started) else []
        self.running = False
        self.retry_tf = None
        self.S = self.S | {0}
        for w in self.waiters:
            w.stop_seen = True
        if cur is not None and cur.stage == "up":
            cur.stage = "closing"
        self.stops.append(rec)
        try:
            d = self.svc.stopService()
        except Exception:
            self.stops.remove(rec)
            raise
        d.addCallback(lambda _, rec=rec: self.stop_fired(rec))
        if cur is not None and self.cur is cur and cur.stage == "closing" and cur.t.open and not cur.t.closing:
            self.hard("stop-did-not-close-connection", "stopService() while connected did not call loseConnection")
        return rec

    def stop_fired(self, rec):
        try:
            if rec.fired:
                self.hard("stop-deferred-fired-twice")
            rec.fired = True
            th = rec.waitfor
            if th is not None and th.stage != "done":
                if th.stage == "abandoned" and th.hd_cancelled:
                    if th.t.open and not th.t.closing:
                        self.softv(A2, "stopService() during a pending prepareConnection fired its Deferred; the "
                                       "connection is open and loseConnection was never called")
                else:
                    self.hard("stop-deferred-fired-while-%s-open" % th.stage,
                              "stopService Deferred fired while the %s it had to wait for is not finished" % th.stage)
            if any(t.open and not t.closing for t in rec.soft):
                self.softv(A2, "stopService Deferred fired while a connection rejected by prepareConnection is "
                               "still open and loseConnection was never called")
            self.flags.add("stop-fired")
        except Exception as e:
            self.bad.append(("HARNESS", repr(e)))
            self.harness_exc = e
        return None

    # ---------------------------------------------------------------- end of event
    def post(self):
        now = self.clock.seconds()
        if self.cut:
            # a known divergence was recorded and the state is not explored further
            self.local_abandoned_loss = self.local_abandoned_lost_any = False
            return
        for w, why in self.must_fire:
            if not w.fired:
                self.hard("waiter-not-fired-by:%s" % why,
                          "whenConnected(%r) still pending after %s (failures since creation %d)" % (w.L, why, w.fails))
        self.must_fire = []
        for rec in list(self.stops):
            th = rec.waitfor
            if not rec.fired:
                if th is None or th.stage == "done":
                    self.hard("stop-deferred-not-fired-after-close",
                              "nothing is open or in progress, the stopService Deferred has not fired")
                continue
            for w in rec.waiters:
                if not w.fired and not w.excused:
                    if rec.never_started:
                        w.excused = True
                        self.softv(C1, "whenConnected(%r) before startService(), then stopService(): the stop "
                                       "Deferred fired, the whenConnected Deferred is still pending" % (w.L,))
                    else:
                        self.hard("waiter-not-fired-by:stop", "whenConnected(%r) pending after the stop completed" % (w.L,))
            self.stops.remove(rec)
        for th in list(self.things):
            if th.d is not None and th.d.called and not th.tailed:
                th.tailed = True
                th.d.addErrback(lambda f, th=th: self.tail(f))
            if th.tailed and th.stage == "done":
                self.things.remove(th)
        calls = self.clock.getDelayedCalls()
        if self.local_abandoned_loss and self.cur is not None and self.cur.stage == "up" and calls:
            self.hard("retry-scheduled-while-connected", "a retry was scheduled though the current connection is open")
        if self.running and self.cur is None:
            if self.retry_tf is None:
                self.hard("running-but-not-connecting", "service is running, nothing open, no attempt, no retry due")
            else:
                if not calls:
                    self.hard("retry-not-scheduled", "a retry is due but the clock has no delayed call")
                elif now - self.retry_tf >= max(policy(n) for n in self.S):
                    self.hard("retry-not-made-after-delay", "%.1fs after the failure no attempt was made" % (now - self.retry_tf))
        self.local_abandoned_loss = False
        self.local_abandoned_lost_any = False

    def tail(self, f):
        # a failure left at the end of the service's callback chain: one of its inputs raised
        self.hard("event-rejected:connection-result@%s" % (self.in_event[1] if self.in_event else "?"),
                  "%s: %s" % (f.type.__name__, f.value))
        return None

    def open_transports(self):
        out = []
        if self.cur is not None and self.cur.t is not None and self.cur.t.open:
            out.append(self.cur.t)
        seen = set()
        for t in self.abandoned:
            # abandoned connections are interchangeable up to their closing flag: one representative each
            if t.open and t.closing not in seen:
                seen.add(t.closing)
                out.append(t)
        return out


def apply(st, ev):
    from twisted.python.failure import Failure
    st.soft = []
    st.harness_exc = None
    op = ev[0]
    st.in_event = (op, st.phase())
    if op == "start":
        st.running = True
        st.ever_started = True
        for rec in st.stops:
            # a restart requested before the stop finished supersedes its deadline for the waiters
            rec.waiters = []
        if not st.stops:
            # no stop is in progress any more: from now on a failure needs the waiter's own limit or a new stop
            for w in st.waiters:
                w.stop_seen = False
        st.guarded("startService", st.svc.startService)
    elif op == "stop":
        st.guarded("stopService", st.do_stop)
    elif op == "wc":
        st.guarded("whenConnected", st.new_waiter, ev[1])
    elif op == "ok":
        th = st.cur
        proxy = st.open_transport(th, th.d._c58_factory)
        st.guarded("attempt-succeeded", th.d.callback, proxy)
    elif op == "fail":
        th = st.cur
        st.ref_failed(th)
        st.guarded("attempt-failed", th.d.errback, Failure(Refused("refused")))
    elif op == "pok":
        th = st.cur
        st.ref_established(th)
        st.guarded("prepare-ok", th.hd.callback, None)
    elif op == "pfail":
        th = st.cur
        st.flags.add("rejected")
        st.ref_failed(th)
        st.guarded("prepare-failed", th.hd.errback, Failure(Rejected("no")))
    elif op == "lost":
        t = st.open_transports()[ev[1]]
        st.guarded("connection-lost", st.deliver_lost, t)
    elif op in ("adv", "half"):
        now = st.clock.seconds()
        due = min(c.getTime() for c in st.clock.getDelayedCalls())
        st.guarded("clock", st.clock.advance, (due - now) if op == "adv" else (due - now) / 2.0)
    else:
        raise HarnessBug("unknown event %r" % (ev,))
    st.post()
    st.in_event = None
    if st.harness_exc is not None:
        raise HarnessBug("exception inside a harness callback") from st.harness_exc


def enabled(st):
    evs = [("start",), ("stop",)]
    if len(st.waiters) < MAXW:
        evs += [("wc", None), ("wc", 0), ("wc", 1), ("wc", 2), ("wc", 3)]
    cur = st.cur
    if cur is not None:
        if cur.stage == "attempt" and not cur.d.called:
            evs += [("ok",), ("fail",)]
        if cur.stage == "prep" and cur.hd is not None and not cur.hd.called:
            evs += [("pok",), ("pfail",)]
    for i in range(len(st.open_transports())):
        evs.append(("lost", i))
    calls = st.clock.getDelayedCalls()
    if calls:
        evs.append(("adv",))
        rem = min(c.getTime() for c in calls) - st.clock.seconds()
        if rem >= 1.0 and rem == int(rem) and int(rem) % 2 == 1:
            evs.append(("half",))
    return evs


def _private(st):
    """Private state of the real service, for the state hash only."""
    try:
        d = st.svc._machine.__dict__
        core = d.get("__automat_core__")
        name = getattr(getattr(d.get("__automat_transitioner__"), "_state", None), "name", None)
        aw = {id(x[0]): x[1] for x in getattr(core, "awaitingConnected", ())}
        return (name, getattr(core, "failedAttempts", None), len(getattr(core, "stopWaiters", ())), aw)
    except Exception:
        return (None, None, None, {})


def canon(st):
    now = st.clock.seconds()
    name, fa, nsw, aw = _private(st)
    cur = st.cur
    c = None
    if cur is not None:
        c = (cur.stage, cur.t is not None and cur.t.closing, cur.t is not None and cur.t.open,
             cur.hd is not None and cur.hd.called, cur.d.called)
    ws = tuple(sorted((str(w.L), w.fails, w.stop_seen, w.excused, w.gen, str(aw.get(id(w.d), "-"))) for w in st.waiters))
    stops = tuple(sorted((r.waitfor.stage if r.waitfor is not None else "", r.fired, r.never_started,
                          sum(1 for w in r.waiters if not w.fired), len([t for t in r.soft if t.open])) for r in st.stops))
    return (st.running, st.ever_started, c,
            tuple(sorted(t.closing for t in st.abandoned if t.open)),
            None if st.retry_tf is None else now - st.retry_tf, tuple(sorted(st.S)), ws, stops,
            tuple(sorted(round(x.getTime() - now, 3) for x in st.clock.getDelayedCalls())),
            st.nattempts % len(st.cfg["script"]), name, fa, nsw, len(aw) - sum(1 for w in st.waiters if id(w.d) in aw),
            tuple(sorted((th.stage, th.d.called, th.tailed) for th in st.things if th is not cur)))


def invariant(st, hist):
    return list(st.bad)


# ---------------------------------------------------------------------------- configurations
def configs():
    out = []
    for prep in ("none", "ok", "raise", "close_raise", "defer"):
        for script in ("P", "S", "F", "FS", "FP"):
            out.append({"prep": prep, "script": script, "sync_close": False, "reenter": None})
    for prep in ("none", "defer", "close_raise"):
        for script in ("P", "S", "FS"):
            out.append({"prep": prep, "script": script, "sync_close": True, "reenter": None})
    for re in ("wc", "stop"):
        for script in ("P", "F"):
            out.append({"prep": "none", "script": script, "sync_close": False, "reenter": re})
    # the application protocol's own connectionLost raises: the service must still hear about the loss
    for prep, script, sc in (("none", "P", False), ("none", "S", False), ("defer", "P", False),
                             ("none", "P", True), ("none", "FS", False)):
        out.append({"prep": prep, "script": script, "sync_close": sc, "reenter": None, "proto": "lost_raises"})
    return out


def depth_for(cfg, tier):
    return 8 if tier == "quick" else 11


def shards(tier, seed):
    return configs()


def run_shard(cfg, tier, seed):
    stats = Stats()
    depth = depth_for(cfg, tier)
    key = tuple(sorted((k, str(v)) for k, v in cfg.items()))

    def inv(st, hist):
        for sig, detail in st.soft:
            stats.violation(sig, detail, {"history": list(hist), "config": cfg})
        # outcome classes are taken on every transition: a history in which a waiter fired is always
        # merged into a shorter one without that waiter, so new-state callbacks alone would not see them
        for f in st.flags:
            stats.outcome(f)
        return list(st.bad)

    def on_state(st, hist):
        if st.waiters or st.retry_tf is not None or st.stops or st.abandoned or (
                st.cur is not None and st.cur.stage in ("prep", "closing")):
            stats.nt((key, canon(st)))

    res = bfs(lambda: St(cfg), apply, enabled, canon, inv, depth, on_state=on_state, max_violations=100000)
    stats.add_bfs(res, {"config": cfg})
    stats.samples = [{"config": cfg, "history": h} for h in res.samples[:1]]
    return stats


def replay(w):
    cfg = w["config"]
    st = St(cfg)
    out = []
    for ev in w["history"]:
        apply(st, tuple(ev))
    return list(st.bad) + list(st.soft)
