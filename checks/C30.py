"""C30 AMP wire format and argument types round-trip.

Real ``BinaryBoxProtocol.sendBox`` -> bytes -> real ``BinaryBoxProtocol.dataReceived`` under
enumerated segmentations, and real ``Argument.toString/fromString`` (+ ``Command.makeArguments``
-> wire -> ``Command.parseArguments``).  The oracle is the statement itself: parsed boxes ==
sent boxes; unrepresentable boxes raise at send time and add nothing to the stream; decoded
argument == encoded argument.
"""
import datetime
import decimal
import itertools
import struct

from mc.choice import compositions
from mc.runner import Stats

ID = "C30"
LEVEL = "exploration"
TECHNIQUE = "exhaustive enumeration of box sequences x stream segmentations, and of boundary argument values"
RULE = ("every sequence of 1..3 boxes over a key/value alphabet chosen from the code's special cases (key lengths "
        "0/1/2/255/256, value lengths 0/1/2/3/255/256/65535/65536, NUL bytes and prefix/terminator look-alikes, "
        "non-bytes keys and values) is sent through a real BinaryBoxProtocol.sendBox and the written bytes are "
        "parsed by a second real BinaryBoxProtocol under every segmentation in the bound; every boundary value "
        "of every argument type goes through toString/fromString and through Command.makeArguments -> wire -> "
        "Command.parseArguments.  non-trivial = a (sequence, segmentation) in which a cut fell strictly inside a "
        "length prefix or payload, a refused box, or an argument value that is not the type's plain case")
BOUNDS = {
    "quick": "small alphabet: all sequences of <=2 boxes (40 boxes of <=2 pairs) + 3-box sequences over 5 boxes; all "
             "compositions for streams <=14 bytes, else every 1- and 2-cut + byte-at-a-time; boundary lengths "
             "(key 1/255, value 0/1/255/256/65535): sequences of <=2 boxes, every 1-cut within 2 bytes and every 2-cut within "
             "1 byte of a frame boundary or at a payload midpoint, byte-at-a-time when <=3000 bytes, 997-byte chunks; "
             "20 unrepresentable boxes x 5 contexts; 10 argument types x their boundary sets x optional/required",
    "thorough": "as quick, plus every 3-cut for small streams <=24 bytes, all 3-box sequences over 13 boxes, "
                "byte-at-a-time for every boundary stream, 3-cuts at frame-boundary positions",
}
ASSUMPTIONS = [
    "the receiving side is BinaryBoxProtocol with a recording IBoxReceiver (box dispatch is C31's subject)",
    "an empty box (no keys) is treated as ambiguous: refusal and faithful round trip are both accepted",
    "inside a long payload the parser's behaviour depends only on whether the frame is complete, so cuts are "
    "enumerated near frame boundaries and at payload midpoints rather than at all 65535 offsets",
    "equality of decoded arguments is ==, except NaN (float/Decimal: same NaN kind), FilePath (text-mode path) and "
    "DateTime (same wall-clock fields, offset within one minute, identical when the offset is a whole minute)",
]
MIN = {"quick": {"evaluations": 600000, "nontrivial": 400000, "outcomes": 12},
       "thorough": {"evaluations": 600000, "nontrivial": 400000, "outcomes": 12}}

NSHARD = 48


# ----------------------------------------------------------------------------------------------
# wire helpers (reference framing: only used to choose cut positions and classify cuts)

def frames(stream):
    """[(prefix_start, payload_start, payload_end)] of the int16 frames, or None if malformed."""
    out, i, n = [], 0, len(stream)
    while i < n:
        if i + 2 > n:
            return None
        (ln,) = struct.unpack("!H", stream[i:i + 2])
        if i + 2 + ln > n:
            return None
        out.append((i, i + 2, i + 2 + ln))
        i += 2 + ln
    return out


def interesting_positions(stream, radius=2):
    fr = frames(stream)
    n = len(stream)
    if fr is None:
        return list(range(1, n))
    pos = set()
    for a, b, c in fr:
        for x in (a, b, c):
            for d in range(-radius, radius + 1):
                pos.add(x + d)
        if c - b > 4:
            pos.add((b + c) // 2)
    return sorted(p for p in pos if 0 < p < n)


def cut_inside_frame(stream, cutpos):
    """True if some cut is strictly inside a prefix or a payload."""
    fr = frames(stream)
    if fr is None:
        return True
    bounds = set()
    for a, b, c in fr:
        bounds.update((a, b, c))
    return any(p not in bounds for p in cutpos)


def split_at(stream, cutpos):
    out, last = [], 0
    for p in cutpos:
        out.append(stream[last:p])
        last = p
    out.append(stream[last:])
    return out


class Rec:
    def __init__(self):
        self.boxes = []
        self.stopped = None

    def startReceivingBoxes(self, sender):
        pass

    def ampBoxReceived(self, box):
        self.boxes.append(box)

    def stopReceivingBoxes(self, reason):
        self.stopped = reason


def new_proto():
    from twisted.protocols import amp
    from mc.net import MemTransport
    rec = Rec()
    p = amp.BinaryBoxProtocol(rec)
    t = MemTransport()
    p.makeConnection(t)
    return p, t, rec


def parse(segs):
    p, t, rec = new_proto()
    for s in segs:
        if t.disconnecting:
            break
        p.dataReceived(s)
    return rec.boxes, t.disconnecting


# ----------------------------------------------------------------------------------------------
# box alphabet.  A box spec is a tuple of (key, value) pairs; keys/values are bytes or a marker tuple
# ("str", text) / ("none",) / ("int", n) / ("tuple",) / ("list",) materialised by build_box.

def mat(x):
    if isinstance(x, tuple):
        k = x[0]
        if k == "str":
            return x[1]
        if k == "none":
            return None
        if k == "int":
            return x[1]
        if k == "tuple":
            return (b"a", b"b")
        if k == "list":
            return [1, 2]
        if k == "rep":           # ("rep", byte, n): n copies of byte (keeps shard descriptors small)
            return bytes([x[1]]) * x[2]
    return x


def build_box(spec):
    from twisted.protocols import amp
    box = amp.AmpBox()
    for k, v in spec:
        dict.__setitem__(box, mat(k), mat(v))
    return box


def classify(spec):
    """'ok' | 'ambiguous' | the name of the reason it cannot be represented (statement's list)."""
    if not spec:
        return "ambiguous"
    why = None
    for k, v in spec:
        k, v = mat(k), mat(v)
        if not isinstance(k, bytes):
            why = why or ("str-key" if isinstance(k, str) else "nonbytes-key")
        elif len(k) == 0:
            why = why or "empty-key"
        elif len(k) > 255:
            why = why or "overlong-key"
        if not isinstance(v, bytes):
            why = why or ("str-value" if isinstance(v, str) else "nonbytes-value")
        elif len(v) > 65535:
            why = why or "overlong-value"
    return why or "ok"


def run_sequence(specs):
    """Send the boxes; return (stream, expected_boxes, problems, n_refused, poisoned).  ``poisoned`` means an
    unrepresentable box got onto the wire, after which nothing can be demanded of the stream."""
    p, t, rec = new_proto()
    expected, problems, refused, poisoned = [], [], 0, False
    notes = set()
    for spec in specs:
        cls = classify(spec)
        box = build_box(spec)
        before = len(t.value())
        try:
            p.sendBox(box)
            raised = None
        except Exception as e:  # refusal at send time: any exception is a refusal
            raised = e
        wrote = len(t.value()) - before
        if cls == "ambiguous":
            notes.add("empty-box-refused" if raised is not None else "empty-box-accepted")
        if raised is not None:
            refused += 1
            if wrote:
                problems.append(("amp.box:refused-but-bytes-written",
                                 "sendBox raised %r after writing %d bytes" % (raised, wrote)))
                poisoned = True
            if cls == "ok":
                problems.append(("amp.box:representable-refused", "sendBox(%s) raised %r" % (short(spec), raised)))
        else:
            if cls in ("ok", "ambiguous"):
                expected.append(dict(box))
            else:
                problems.append(("amp.box:%s-not-refused" % cls,
                                 "sendBox(%s) was accepted and wrote %d bytes" % (short(spec), wrote)))
                poisoned = True
    return t.value(), expected, problems, refused, poisoned, notes


def short(spec):
    def s(x):
        x = mat(x)
        if isinstance(x, bytes) and len(x) > 12:
            return "<%d bytes>" % len(x)
        return repr(x)
    return "{" + ", ".join("%s: %s" % (s(k), s(v)) for k, v in spec) + "}"


def check_parse(stream, expected, segs):
    boxes, closed = parse(segs)
    got = [dict(b) for b in boxes]
    if closed:
        return ("amp.box:connection-closed-on-valid-stream", "parser asked to close; %d boxes parsed" % len(got))
    if got != expected:
        return ("amp.box:roundtrip-differs", "parsed %s, sent %s" % (
            [short(tuple(sorted(g.items()))) for g in got], [short(tuple(sorted(e.items()))) for e in expected]))
    for g in got:
        for k, v in g.items():
            if type(k) is not bytes or type(v) is not bytes:
                return ("amp.box:parsed-non-bytes", "%r: %r" % (k, v))
    return None


def small_alphabet(seed):
    f = bytes([ord("k") + seed % 5])
    g = bytes([ord("v") + seed % 3])
    keys = [f, b"\x00", b"\x00\x01"]
    vals = [b"", g, b"\x00\x00", b"\x00\x01" + f]
    boxes = [()]
    for k in keys:
        for v in vals:
            boxes.append(((k, v),))
    for k1, k2 in itertools.combinations(keys, 2):
        for v1 in vals[:3]:
            for v2 in vals[:3]:
                boxes.append(((k1, v1), (k2, v2)))
    return boxes


def edge_alphabet(seed):
    kb = ord("a") + seed % 7
    vb = ord("A") + seed % 11
    keys = [("rep", kb, 1), ("rep", kb, 255)]
    vals = [("rep", vb, n) for n in (0, 1, 255, 256, 65535)]
    boxes = [((k, v),) for k in keys for v in vals]
    boxes.append(((("rep", kb, 255), ("rep", vb, 65535)), (("rep", kb + 1, 1), ("rep", 0, 256))))
    boxes.append(((("rep", 0, 255), ("rep", 0, 65535)),))
    return boxes


def bad_alphabet():
    big = ("rep", 0x62, 65536)
    return [
        ((b"", b"v"),), ((b"", b""),), ((b"", b"v"), (b"k", b"w")), ((b"", b"\x00\x00"),),
        ((("rep", 0x61, 256), b"v"),), ((("rep", 0x61, 300), b""),), ((("rep", 0x61, 65536), b""),),
        ((b"k", big),), ((b"k", b"v"), (b"l", big)), ((("rep", 0x61, 255), big),),
        ((("str", "k"), b"v"),), ((b"a", b"v"), (("str", "k"), b"v")),
        ((b"k", ("str", "v")),), ((b"k", ("str", "")),),
        ((b"k", ("none",)),), ((b"k", ("int", 5)),), ((b"k", ("tuple",)),), ((b"k", ("list",)),),
        ((("int", 5), b"v"),), ((("none",), b"v"),), ((("tuple",), b"v"),),
    ]


# ----------------------------------------------------------------------------------------------
# argument alphabet

def tz(seconds):
    return datetime.timezone(datetime.timedelta(seconds=seconds))


def arg_cases():
    """[(type name, label, factory(amp)->Argument, value, trivial?)]"""
    from twisted.python.filepath import FilePath
    D = decimal.Decimal
    out = []

    def add(tname, fac, items):
        for i, (label, v) in enumerate(items):
            out.append((tname, label, fac, v, i == 0))

    add("Integer", lambda a: a.Integer(), [
        ("1", 1), ("0", 0), ("-1", -1), ("2^31", 2 ** 31), ("2^63", 2 ** 63), ("-2^63", -2 ** 63), ("2^64", 2 ** 64),
        ("-2^64", -2 ** 64), ("10^30", 10 ** 30), ("2^200", 2 ** 200), ("-(10^99)", -(10 ** 99))])
    add("String", lambda a: a.String(), [
        ("a", b"a"), ("empty", b""), ("nul", b"\x00"), ("nulnul", b"\x00\x00"), ("highbytes", b"\xff\xfe\x80"),
        ("all-bytes", bytes(range(256))), ("max", b"s" * 65535)])
    add("Unicode", lambda a: a.Unicode(), [
        ("a", "a"), ("empty", ""), ("nul", "\x00"), ("latin1", "\xe9"), ("bmp", "€中"),
        ("astral", "\U0001F600"), ("mixed", "a\xe9\U00010000\x00z"), ("bom", "﻿x"),
        ("max-3byte", "€" * 21845)])
    add("Float", lambda a: a.Float(), [
        ("1.5", 1.5), ("0.0", 0.0), ("-0.0", -0.0), ("inf", float("inf")), ("-inf", float("-inf")),
        ("nan", float("nan")), ("0.1", 0.1), ("1/3", 1 / 3), ("min-subnormal", 5e-324),
        ("max", 1.7976931348623157e308), ("-max", -1.7976931348623157e308), ("2^53+2", float(2 ** 53 + 2)),
        ("1e22", 1e22), ("1e-7", 1e-7), ("123456789.123456789", 123456789.123456789)])
    add("Boolean", lambda a: a.Boolean(), [("True", True), ("False", False)])
    add("Decimal", lambda a: a.Decimal(), [
        ("1", D("1")), ("0", D("0")), ("-0", D("-0")), ("1.0", D("1.0")), ("1E+2", D("1E+2")), ("1.5E+2", D("1.5E+2")),
        ("1E-1", D("1E-1")), ("Infinity", D("Infinity")), ("-Infinity", D("-Infinity")), ("NaN", D("NaN")),
        ("-NaN", D("-NaN")), ("sNaN", D("sNaN")), ("-sNaN", D("-sNaN")), ("NaN123", D("NaN123")),
        ("1E+999999", D("1E+999999")), ("1E-999999", D("1E-999999")), ("0E-10", D("0E-10")),
        ("40-digits", D("1234567890123456789012345678901234567890.0123456789")), ("-12.340", D("-12.340"))])
    dts = []
    stamps = [("mid", (2000, 1, 2, 3, 4, 5, 6)), ("min", (1, 1, 1, 0, 0, 0, 0)),
              ("max", (9999, 12, 31, 23, 59, 59, 999999)), ("us1", (1970, 1, 1, 0, 0, 0, 1)),
              ("leapday", (2024, 2, 29, 12, 30, 0, 500000))]
    offs = [("utc", 0), ("+05:30", 19800), ("-08:00", -28800), ("+00:01", 60), ("-00:01", -60),
            ("+23:59", 86340), ("-23:59", -86340), ("+00:00:30", 30), ("-00:00:30", -30),
            ("+12:34:56", 45296), ("-12:34:56", -45296), ("+23:59:59", 86399), ("-23:59:30", -86370)]
    for sl, st in stamps:
        for ol, o in offs:
            if sl != "mid" and ol not in ("utc", "+05:30", "-08:00", "-00:00:30"):
                continue
            dts.append(("%s@%s" % (sl, ol), datetime.datetime(*st, tzinfo=tz(o))))
    add("DateTime", lambda a: a.DateTime(), dts)
    add("ListOf(Integer)", lambda a: a.ListOf(a.Integer()), [
        ("[1]", [1]), ("[]", []), ("[0,-1,2^64]", [0, -1, 2 ** 64]), ("100 items", list(range(100))),
        ("13107 one-digit items", [7] * 13107)])
    add("ListOf(String)", lambda a: a.ListOf(a.String()), [
        ("[a]", [b"a"]), ("[empty]", [b""]), ("[empty,empty]", [b"", b""]), ("[nulnul]", [b"\x00\x00"]),
        ("[prefix-lookalike]", [b"\x00\x01", b"x"]), ("[65533 bytes]", [b"e" * 65533]),
        ("[a,empty,b]", [b"a", b"", b"b"])])
    add("ListOf(Unicode)", lambda a: a.ListOf(a.Unicode()), [("[a]", ["a"]), ("[astral,empty]", ["\U0001F600", ""])])
    add("ListOf(Float)", lambda a: a.ListOf(a.Float()), [
        ("[1.5]", [1.5]), ("[nan,inf,-0.0]", [float("nan"), float("inf"), -0.0])])
    add("ListOf(Boolean)", lambda a: a.ListOf(a.Boolean()), [("[True]", [True]), ("[False,True]", [False, True])])
    add("ListOf(Decimal)", lambda a: a.ListOf(a.Decimal()), [("[1]", [D("1")]), ("[NaN,1E+2]", [D("NaN"), D("1E+2")])])
    add("ListOf(DateTime)", lambda a: a.ListOf(a.DateTime()), [
        ("[utc]", [datetime.datetime(2000, 1, 1, tzinfo=tz(0))]),
        ("[+05:30,-08:00]", [datetime.datetime(2000, 1, 1, tzinfo=tz(19800)),
                             datetime.datetime(1999, 12, 31, 23, 59, 59, 999999, tzinfo=tz(-28800))])])
    add("ListOf(ListOf(Integer))", lambda a: a.ListOf(a.ListOf(a.Integer())), [
        ("[[1]]", [[1]]), ("[]", []), ("[[]]", [[]]), ("[[],[]]", [[], []]), ("[[],[1],[2,3]]", [[], [1], [2, 3]])])
    add("ListOf(ListOf(ListOf(String)))", lambda a: a.ListOf(a.ListOf(a.ListOf(a.String()))), [
        ("[[[a]]]", [[[b"a"]]]), ("[[[empty]],[[]],[]]", [[[b""]], [[]], []])])
    add("ListOf(Path)", lambda a: a.ListOf(a.Path()), [("[/tmp/x]", [FilePath("/tmp/x")])])
    add("AmpList(a:Integer,b:Unicode?)", lambda a: a.AmpList([(b"a", a.Integer()), (b"b", a.Unicode(optional=True))]), [
        ("[{1,x}]", [{"a": 1, "b": "x"}]), ("[]", []), ("[{1,None}]", [{"a": 1, "b": None}]),
        ("[{1,x},{2,None},{3,empty}]", [{"a": 1, "b": "x"}, {"a": 2, "b": None}, {"a": 3, "b": ""}])])
    add("AmpList()", lambda a: a.AmpList([]), [("[{}]", [{}]), ("[]", []), ("[{},{}]", [{}, {}])])
    add("AmpList(s:String)", lambda a: a.AmpList([(b"s", a.String())]), [
        ("[{a}]", [{"s": b"a"}]), ("[{empty}]", [{"s": b""}]), ("[{nulnul},{nul}]", [{"s": b"\x00\x00"}, {"s": b"\x00"}]),
        ("[{65528 bytes}]", [{"s": b"q" * 65528}])])
    add("AmpList(l:ListOf(Integer),n:AmpList(f:Float))",
        lambda a: a.AmpList([(b"l", a.ListOf(a.Integer())), (b"n", a.AmpList([(b"f", a.Float())]))]), [
            ("[{[1],[{1.5}]}]", [{"l": [1], "n": [{"f": 1.5}]}]),
            ("[{[],[]},{[1,2],[{nan},{-0.0}]}]", [{"l": [], "n": []}, {"l": [1, 2], "n": [{"f": float("nan")}, {"f": -0.0}]}])])
    add("AmpList(under_score:Boolean)", lambda a: a.AmpList([(b"under-score", a.Boolean())]), [
        ("[{True}]", [{"under_score": True}])])
    add("Path", lambda a: a.Path(), [
        ("/tmp/x", FilePath("/tmp/x")), ("/", FilePath("/")), ("bytes-mode", FilePath(b"/tmp/x")),
        ("latin1", FilePath("/tmp/\xe9")), ("astral", FilePath("/tmp/\U0001F600/y")),
        ("space-and-dots", FilePath("/tmp/a b/..c")), ("relative", FilePath("rel/x"))])
    return out


def same(a, b):
    """Statement equality of an encoded value ``a`` and its decoded value ``b``."""
    from twisted.python.filepath import FilePath
    if isinstance(a, float):
        if a != a:
            return isinstance(b, float) and b != b
        return a == b
    if isinstance(a, decimal.Decimal):
        if not isinstance(b, decimal.Decimal):
            return False
        if a.is_nan() or b.is_nan():
            return a.is_qnan() == b.is_qnan() and a.is_snan() == b.is_snan()
        return a == b
    if isinstance(a, datetime.datetime):
        if not isinstance(b, datetime.datetime):
            return False
        if a.replace(tzinfo=None) != b.replace(tzinfo=None):
            return False
        oa = a.utcoffset()
        try:
            ob = b.utcoffset()
        except Exception:       # a decoded object whose offset cannot even be read is not equal to anything
            return False
        if ob is None:
            return False
        if oa.microseconds == 0 and oa.seconds % 60 == 0:
            return oa == ob
        return abs((oa - ob).total_seconds()) < 60
    if isinstance(a, FilePath):
        return isinstance(b, FilePath) and a.asTextMode().path == b.asTextMode().path
    if isinstance(a, list):
        return isinstance(b, list) and len(a) == len(b) and all(same(x, y) for x, y in zip(a, b))
    if isinstance(a, dict):
        return isinstance(b, dict) and sorted(a) == sorted(b) and all(same(a[k], b[k]) for k in a)
    return a == b


# ----------------------------------------------------------------------------------------------
# shards

def shards(tier, seed):
    out = [["small2", i] for i in range(NSHARD)]
    out += [["small3", i] for i in range(4)]
    out += [["edge", i] for i in range(24)]
    out += [["refuse", i] for i in range(4)]
    out += [["args", i] for i in range(8)]
    return out


def seg_plans_small(stream, tier):
    """Yield cut-position tuples for a short stream."""
    n = len(stream)
    if n == 0:
        yield ()
        return
    if n <= 14:
        for comp in compositions(n):
            pos, acc = [], 0
            for c in comp[:-1]:
                acc += c
                pos.append(acc)
            yield tuple(pos)
        return
    yield ()
    for r in (1, 2):
        for pos in itertools.combinations(range(1, n), r):
            yield pos
    if tier == "thorough" and n <= 24:
        for pos in itertools.combinations(range(1, n), 3):
            yield pos
    yield tuple(range(1, n))


def seg_plans_edge(stream, tier):
    n = len(stream)
    ip = interesting_positions(stream)
    yield ()
    for p in ip:
        yield (p,)
    for pos in itertools.combinations(interesting_positions(stream, 1 if tier == "quick" else 2), 2):
        yield pos
    if tier == "thorough":
        fr = frames(stream) or []
        bp = sorted(set(x for f in fr for x in f if 0 < x < n))[:24]
        for pos in itertools.combinations(bp, 3):
            yield pos
    if n <= 3000 or tier == "thorough":
        yield tuple(range(1, n))
    yield tuple(range(997, n, 997))


def do_sequence(stats, specs, plans, tier, tag):
    stream, expected, problems, refused, poisoned, notes = run_sequence(specs)
    w0 = {"mode": "boxes", "specs": specs}
    for sig, detail in problems:
        stats.violation(sig, detail, dict(w0, cuts=None))
    for nt_ in notes:
        stats.outcome(nt_)
    if refused:
        stats.outcome("refused")
        stats.nt((tag, "refused", repr(specs)))
    if poisoned:
        stats.evaluations += 1
        stats.outcome("unrepresentable-accepted")
        return
    key = hash((tag, stream))
    for pos in plans(stream, tier):
        stats.evaluations += 1
        bad = check_parse(stream, expected, split_at(stream, pos))
        if pos and cut_inside_frame(stream, pos):
            stats.nt((key, pos))
        if bad:
            stats.violation(bad[0], bad[1], dict(w0, cuts=list(pos)))
            stats.outcome("mismatch")
        else:
            stats.outcome("roundtrip-%dbox" % min(len(expected), 3))


def run_shard(shard, tier, seed):
    kind, idx = shard
    stats = Stats()
    if kind == "small2":
        boxes = small_alphabet(seed)
        seqs = [(b,) for b in boxes] + [(a, b) for a in boxes for b in boxes]
        for n, specs in enumerate(seqs):
            if n % NSHARD != idx:
                continue
            do_sequence(stats, specs, seg_plans_small, tier, "s2")
            if n % 911 == 0:
                stats.sample({"boxes": [short(s) for s in specs]})
    elif kind == "small3":
        boxes = small_alphabet(seed)
        pick = [boxes[0], boxes[1], boxes[2], boxes[7], boxes[13]] if tier == "quick" else boxes[:13]
        seqs = list(itertools.product(pick, repeat=3))
        for n, specs in enumerate(seqs):
            if n % 4 != idx:
                continue
            do_sequence(stats, specs, seg_plans_small, tier, "s3")
    elif kind == "edge":
        E = edge_alphabet(seed)
        S = [((b"k", b"v"),), ()]
        seqs = [(e,) for e in E] + [(e, s) for e in E for s in S] + [(s, e) for e in E for s in S]
        seqs += [(a, b) for a in E[:10] for b in (E[1], E[4], E[5], E[8], E[9])]
        for n, specs in enumerate(seqs):
            if n % 24 != idx:
                continue
            do_sequence(stats, specs, seg_plans_edge, tier, "e")
            if n % 37 == 0:
                stats.sample({"boxes": [short(s) for s in specs]})
    elif kind == "refuse":
        G = [((b"k", b"v"),), ((b"a", b""), (b"\x00", b"\x00\x00"))]
        n = 0
        for u in bad_alphabet():
            for ctx in ((u,), (u, G[0]), (G[1], u), (G[0], u, G[1]), (u, u, G[0])):
                n += 1
                if n % 4 != idx:
                    continue
                do_sequence(stats, ctx, seg_plans_small, tier, "r")
        stats.sample({"refusal-context": "[good, U, good] for U in %d unrepresentable boxes" % len(bad_alphabet())})
    elif kind == "args":
        run_args(stats, idx, 8, tier)
    return stats


def run_args(stats, idx, nsh, tier):
    from twisted.protocols import amp
    proto = amp.AMP()
    for n, (tname, label, fac, value, trivial) in enumerate(arg_cases()):
        if n % nsh != idx:
            continue
        for v in arg_value_checks(amp, proto, tname, label, fac, value):
            stats.violation(v[0], v[1], {"mode": "arg", "type": tname, "label": label})
        stats.evaluations += 4
        stats.outcome("arg-" + tname.split("(")[0])
        if not trivial:
            stats.nt(("arg", tname, label))
    stats.sample({"argument-types": sorted(set(c[0] for c in arg_cases()))})


def arg_value_checks(amp, proto, tname, label, fac, value):
    """toStringProto/fromStringProto directly, then through Command + wire for (required, optional present,
    optional absent)."""
    out = []
    base = "amp.arg:%s:%s" % (tname, label)
    arg = fac(amp)
    try:
        enc = arg.toStringProto(value, proto)
        if not isinstance(enc, bytes):
            out.append((base + ":encoded-non-bytes", "toStringProto returned %r" % (type(enc),)))
            return out
        dec = arg.fromStringProto(enc, proto)
    except Exception as e:
        out.append((base + ":raised", "%s: %r" % (type(e).__name__, e)))
        return out
    if not same(value, dec):
        out.append((base + ":decoded-differs", "encoded %s as %r, decoded %s" % (trunc(value), enc[:80], trunc(dec))))
        return out

    for variant in ("required", "optional-present", "optional-absent"):
        class Cmd(amp.Command):
            commandName = b"c"
            arguments = [(b"lead", amp.Integer()),
                         (b"wire-name", fac(amp) if variant == "required" else None),
                         (b"tail", amp.String(optional=True))]
        if variant != "required":
            a2 = fac(amp)
            a2.optional = True
            Cmd.arguments[1] = (b"wire-name", a2)
        objs = {"lead": 7, "wire_name": None if variant == "optional-absent" else value, "tail": None}
        try:
            box = Cmd.makeArguments(objs, proto)
            s, t, rec = new_proto()
            s.sendBox(box)
            stream = t.value()
            results = []
            for segs in ([stream], [stream[i:i + 1] for i in range(len(stream))] if len(stream) < 400 else
                         [stream[:len(stream) // 2], stream[len(stream) // 2:]]):
                boxes, closed = parse(segs)
                if closed or len(boxes) != 1:
                    out.append((base + ":wire-roundtrip-lost-box", "%s: %d boxes, closed=%r" % (variant, len(boxes), closed)))
                    return out
                results.append(Cmd.parseArguments(boxes[0], proto))
        except Exception as e:
            out.append((base + ":raised", "%s via Command/wire: %s: %r" % (variant, type(e).__name__, e)))
            return out
        for res in results:
            want = dict(objs)
            if not same(want, res):
                out.append((base + ":decoded-differs", "%s via Command/wire: sent %r got %r" % (
                    variant, trunc(want), trunc(res))))
                return out
    return out


def trunc(x):
    import re
    r = re.sub(r" at 0x[0-9a-fA-F]+", "", repr(x))
    return r if len(r) < 200 else r[:200] + "..."


def replay(w):
    out = []
    if w.get("mode") == "arg":
        from twisted.protocols import amp
        proto = amp.AMP()
        for tname, label, fac, value, trivial in arg_cases():
            if tname == w["type"] and label == w["label"]:
                out.extend(arg_value_checks(amp, proto, tname, label, fac, value))
        return out
    specs = tuplify(w["specs"])
    stream, expected, problems, refused, poisoned, notes = run_sequence(specs)
    out.extend(problems)
    if w.get("cuts") is not None and not poisoned:
        bad = check_parse(stream, expected, split_at(stream, w["cuts"]))
        if bad:
            out.append(bad)
    return out


def tuplify(x):
    if isinstance(x, list):
        return tuple(tuplify(i) for i in x)
    return x
