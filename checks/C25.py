"""C25 static.File range requests: every (file size, Range header, method) in a grammar-built
space is rendered through a real Site/HTTPChannel/Request and compared with an RFC 9110 reference."""
import itertools
import os
import re
import shutil

from mc.runner import Stats

ID = "C25"
LEVEL = "exploration"
TECHNIQUE = "exhaustive input enumeration against an RFC 9110 reference"
RULE = ("every Range header = unit x list of <= 2 (quick) / 3 (thorough) range-specs from a token set that holds, for the "
        "file size at hand, each boundary visible in static.File (first byte, last byte, size, size+1, suffix 0 / size / "
        "size+1 / huge, reversed, open-ended, garbage, int()-lenient forms, non-UTF-8) x separators x GET/HEAD x file sizes, "
        "plus a buffer-boundary family (files around StaticProducer.bufferSize, every first-part length in a window around "
        "the buffer end).  Each request goes through a real Site + HTTPChannel + Request onto a MemTransport, the pull "
        "producer is driven by a harness-owned Cooperator, and the raw response bytes are parsed by the harness "
        "(status, headers, multipart/byteranges) and compared with a reference written from RFC 9110 section 14. "
        "non-trivial = distinct (size, method, header, buffer size) whose header is present")
BOUNDS = {
    "quick": "sizes {0,1,2,5,10}, <=2 specs from ~40 tokens, 7 unit forms, GET+HEAD; buffer family: bufferSize 256 "
             "(files 255..600, every first-part length 1..size) and 65536 (files 65535..65537+, window of 300 lengths)",
    "thorough": "same with <=3 specs (reduced token set for triples), 2 file contents, wider real-buffer window",
}
ASSUMPTIONS = [
    "HTTPChannel drives a pull producer through twisted.internet._producer_helpers.cooperate; the harness rebinds that "
    "name to a Cooperator whose scheduler it pumps (fallbacks: the global reactor's runUntilCurrent, MemTransport.pull)",
    "StaticProducer.bufferSize (public class attribute, also set by twisted's own tests) is lowered to 256 for one family; "
    "the same family is run with the default 65536",
    "where RFC 9110 and the statement leave the answer open (unit spelled in another case, whitespace inside a spec, "
    "int()-lenient digits such as +1 or 1_0, an empty range set, a non-zero suffix on an empty file) any self-consistent "
    "200 / 206 / 416 is accepted; a 500, an escaped exception or an unfinished response never is",
    "HEAD: range handling is only defined for GET (RFC 9110 14.2), so HEAD may answer 200 with the full length or mirror GET",
]
MIN = {"quick": {"evaluations": 44000, "nontrivial": 44000, "outcomes": 5},
       "thorough": {"evaluations": 108000, "nontrivial": 108000, "outcomes": 5}}

SMALL_SIZES = [0, 1, 2, 5, 10]
UNITS = [b"bytes=", b"Bytes=", b"items=", b"bytes", b"bytes =", b" bytes=", b"bytes= "]
FIXED_TOKENS = [b"0-0", b"0-", b"-1", b"-0", b"-5", b"-20", b"1-3", b"3-1", b"9-", b"10-", b"5-100", b"a-b", b"-",
                b"1-2-3", b" 1 - 2", b"+1-2", b"1_0-", b"--5", b"00-01", b"0-99999999999999999999",
                b"99999999999999999999-", b"-99999999999999999999", b"\xff-", b"0-\xe9", b"1-1", b"2-"]
SEPS = [b",", b", ", b",,"]

# --------------------------------------------------------------------------- reference (RFC 9110 section 14)

_INT = re.compile(rb"^([0-9]+)-([0-9]*)$")
_SUF = re.compile(rb"^-([0-9]+)$")
_LENIENT = re.compile(rb"^[0-9+_ \t\x0b\x0c-]*$")


def classify(header):
    """-> (kind, specs).  kind in absent / malformed / gray / valid.  specs: list of ('int', f, l|None) / ('suf', n)."""
    if header is None:
        return "absent", None
    header = header.strip(b" \t")        # a field value excludes leading and trailing OWS (RFC 9110 5.5)
    if b"=" not in header:
        return "malformed", None
    unit, rest = header.split(b"=", 1)
    if unit != b"bytes":
        if unit.strip(b" \t").lower() == b"bytes":
            return "gray", None          # case-insensitive unit / stray blanks: lenient territory
        return "malformed", None         # another unit: this resource defines no ranges for it
    gray = False
    specs = []
    for el in rest.split(b","):
        el = el.strip(b" \t")
        if not el:
            continue                      # the #rule lets recipients skip empty list elements
        m = _INT.match(el)
        if m:
            f = int(m.group(1))
            l = int(m.group(2)) if m.group(2) else None
            if l is not None and l < f:
                return "malformed", None  # invalid int-range: whole specifier is invalid
            specs.append(("int", f, l))
            continue
        m = _SUF.match(el)
        if m:
            specs.append(("suf", int(m.group(1))))
            continue
        if _LENIENT.match(el) and re.search(rb"[0-9]", el):
            gray = True
            continue
        return "malformed", None
    if gray:
        return "gray", None
    if not specs:
        return "gray", None               # "bytes=" / "bytes=,": empty set, statement is silent (malformed vs none satisfiable)
    return "valid", specs


def resolve(specs, size):
    """Satisfiable specs -> inclusive (a, b); unsatisfiable -> None."""
    out = []
    for sp in specs:
        if sp[0] == "int":
            f, l = sp[1], sp[2]
            if f >= size or f < 0:
                out.append(None)
            else:
                out.append((f, size - 1 if l is None or l >= size else l))
        else:
            n = sp[1]
            if n <= 0 or size == 0:
                out.append(None)
            else:
                out.append((max(0, size - n), size - 1))
    return out


def lenient_specs(header):
    """Labelling only (never the verdict): read a gray header the way a forgiving parser would (int() accepts '+1',
    '1_0', blanks) so that a failure on it is filed under the shape of its root cause.  None if no such reading."""
    try:
        rest = header.split(b"=", 1)[1].decode("ascii")
    except (IndexError, UnicodeDecodeError):
        return None
    specs = []
    for el in rest.split(","):
        el = el.strip()
        if not el:
            continue
        if "-" not in el:
            return None
        a, b = el.split("-", 1)
        try:
            a = int(a) if a.strip() else None
            b = int(b) if b.strip() else None
        except ValueError:
            return None
        if a is None and b is None:
            return None
        if a is None:
            specs.append(("suf", b))
        else:
            if b is not None and b < a:
                return None
            specs.append(("int", a, b))
    return specs


def shape_of(header, size, bufsize):
    kind, specs = classify(header)
    if kind in ("malformed", "gray"):
        try:
            header.decode("utf-8")
        except UnicodeDecodeError:
            return "nonutf8-header"
    if kind == "gray" and header.split(b"=", 1)[0].strip().lower() == b"bytes":
        specs = lenient_specs(header)
        if specs == []:
            return "empty-range-set"
        if not specs:
            return "gray"
        pre = "lenient-"
    elif kind != "valid":
        return kind
    else:
        pre = ""
    if any(sp[0] == "suf" and sp[1] > size for sp in specs):
        return "suffix-gt-size"
    res = resolve(specs, size)
    multi = "multi" if len(specs) > 1 else "single"
    if not any(res):
        return multi + "-none-satisfiable"
    if multi == "multi":
        total = sum(b - a + 1 for (a, b) in filter(None, res)) + 150 * len(res)
        if total >= bufsize - 300:
            return "multi-sat-near-buffer"
    return pre + multi + "-sat"


# --------------------------------------------------------------------------- driving the real code

_PUMP = {"q": None, "log": [], "installed": False}


class _DC:
    def cancel(self):
        pass


class _Hang(BaseException):
    """Raised by the CPU-time watchdog: one request burnt more than WATCHDOG_S seconds of user CPU."""


WATCHDOG_S = 1.0


def _on_vtalrm(signum, frame):
    _PUMP["hung"] = True
    raise _Hang()


def _fresh_cooperator():
    """A new harness-owned Cooperator per request (a hung or failed task must not leak into the next request)."""
    from twisted.internet import task
    q = []

    def sched(f):
        q.append(f)
        return _DC()
    coop = task.Cooperator(scheduler=sched, terminationPredicateFactory=lambda: (lambda: True))
    try:
        from twisted.internet import _producer_helpers
        if hasattr(_producer_helpers, "cooperate"):
            _producer_helpers.cooperate = coop.cooperate
    except ImportError:
        pass
    _PUMP["q"] = q


def _install():
    if _PUMP["installed"]:
        return
    from twisted.logger import globalLogPublisher

    def obs(event):
        f = event.get("log_failure") or event.get("failure")
        if f is not None:
            try:
                _PUMP["log"].append(f.type.__name__)
            except Exception:
                _PUMP["log"].append("Failure")
    # begin logging (public API) so that buffered critical events are not echoed to stderr
    from twisted.logger import globalLogBeginner
    try:
        globalLogBeginner.beginLoggingTo([obs], redirectStandardIO=False, discardBuffer=True)
    except Exception:
        globalLogPublisher.addObserver(obs)
    import signal
    signal.signal(signal.SIGVTALRM, _on_vtalrm)
    _PUMP["installed"] = True


class Env:
    def __init__(self, tag):
        _install()
        from twisted.web import static, server
        from twisted.internet import task
        self.dir = "/dev/shm/verif-C25-%d" % os.getpid()
        shutil.rmtree(self.dir, ignore_errors=True)
        os.makedirs(self.dir)
        self.static = static
        finished = self.finished = []

        class RecordingSite(server.Site):
            def log(self, request):            # access-log hook: called exactly when a request finishes
                finished.append(request.code)
        self.clock = task.Clock()
        self.site = RecordingSite(static.File(self.dir), reactor=self.clock)
        self.files = {}
        self.saved_buf = {}

    def set_bufsize(self, n):
        st = self.static
        for cls in (st.StaticProducer, st.NoRangeStaticProducer, st.SingleRangeStaticProducer,
                    st.MultipleRangeStaticProducer):
            if "bufferSize" in cls.__dict__:
                self.saved_buf.setdefault(cls, cls.__dict__["bufferSize"])
                cls.bufferSize = n if n else self.saved_buf[cls]
        return st.StaticProducer.bufferSize

    def close(self):
        self.set_bufsize(None)
        shutil.rmtree(self.dir, ignore_errors=True)

    def content(self, size, variant, seed):
        if variant == 1:
            pat = b"\r\n--\r\n\r\n-\x00-\r"
            return bytes(pat[(i + seed) % len(pat)] for i in range(size))
        if size <= 26:
            return bytes(97 + (i + seed) % 26 for i in range(size))
        return bytes((i + i // 251 + seed) % 256 for i in range(size))

    def file(self, size, variant, seed):
        key = (size, variant)
        if key not in self.files:
            name = "f%d_%d.bin" % (size, variant)
            data = self.content(size, variant, seed)
            with open(os.path.join(self.dir, name), "wb") as f:
                f.write(data)
            self.files[key] = (name.encode(), data)
        return self.files[key]

    def request(self, name, method, header):
        """-> (raw response bytes, finished?, logged failure type names, escaped exception or None)"""
        from mc.net import MemTransport
        from twisted.python.failure import Failure
        from twisted.internet.error import ConnectionDone
        del _PUMP["log"][:]
        _fresh_cooperator()
        del self.finished[:]
        ch = self.site.buildProtocol(None)
        t = MemTransport()
        ch.makeConnection(t)
        req = method + b" /" + name + b" HTTP/1.1\r\nHost: h\r\n"
        if header is not None:
            req += b"Range: " + header + b"\r\n"
        req += b"\r\n"
        escaped = None
        _PUMP["hung"] = False
        import signal
        signal.setitimer(signal.ITIMER_VIRTUAL, WATCHDOG_S, 1.0)
        try:
            ch.dataReceived(req)
            q = _PUMP["q"]
            n = 0
            while q and n < 400:
                q.pop(0)()
                n += 1
            if not self.finished and not _PUMP["log"] and n == 0:
                # fallbacks for other ways of driving a pull producer
                t.pull(400)
                import sys
                r = sys.modules.get("twisted.internet.reactor")
                k = 0
                while r is not None and not self.finished and r.getDelayedCalls() and k < 400:
                    r.runUntilCurrent()
                    k += 1
        except Exception as e:  # noqa
            escaped = e
        except _Hang as e:
            escaped = e
        finally:
            signal.setitimer(signal.ITIMER_VIRTUAL, 0)
        if _PUMP["hung"] and not isinstance(escaped, _Hang):
            escaped = _Hang()          # the watchdog exception was swallowed inside twisted: still a hang
        raw = t.value()
        done = bool(self.finished)
        logged = list(_PUMP["log"])
        try:
            ch.connectionLost(Failure(ConnectionDone()))
        except Exception:
            pass
        return raw, done, logged, escaped


# --------------------------------------------------------------------------- independent response parsing

def parse_response(raw):
    """-> (code, headers{lower: [values]}, body) or None."""
    if b"\r\n\r\n" not in raw:
        return None
    head, body = raw.split(b"\r\n\r\n", 1)
    lines = head.split(b"\r\n")
    m = re.match(rb"^HTTP/1\.[01] ([0-9]{3})( |$)", lines[0])
    if not m:
        return None
    hdrs = {}
    for ln in lines[1:]:
        if b":" not in ln:
            return None
        k, v = ln.split(b":", 1)
        hdrs.setdefault(k.strip().lower(), []).append(v.strip())
    if any(b"chunked" in v.lower() for v in hdrs.get(b"transfer-encoding", [])):
        out, rest = [], body
        while True:
            if b"\r\n" not in rest:
                return None
            ln, rest = rest.split(b"\r\n", 1)
            try:
                n = int(ln.split(b";")[0], 16)
            except ValueError:
                return None
            if n == 0:
                break
            out.append(rest[:n])
            rest = rest[n + 2:]
        body = b"".join(out)
    return int(m.group(1)), hdrs, body


_CR = re.compile(rb"^bytes ([0-9]+)-([0-9]+)/([0-9]+)$")


def parse_multipart(ctype, body):
    """-> list of (headers, payload) or an error string."""
    m = re.match(rb'^multipart/byteranges\s*;\s*boundary=("?)([^";]+)\1\s*$', ctype, re.I)
    if not m:
        return "content-type-not-multipart-byteranges"
    delim = b"\r\n--" + m.group(2)
    segs = (b"\r\n" + body).split(delim)
    if len(segs) < 2:
        return "multipart-no-delimiter"
    if not segs[-1].startswith(b"--"):
        return "multipart-unterminated"
    if segs[-1][2:].strip(b"\r\n \t"):
        return "multipart-epilogue-not-empty"
    parts = []
    for seg in segs[1:-1]:
        if seg.startswith(b"--"):
            return "multipart-early-close-delimiter"
        seg = seg.lstrip(b" \t")
        if not seg.startswith(b"\r\n"):
            return "multipart-bad-delimiter-line"
        seg = seg[2:]
        if seg.startswith(b"\r\n"):
            hs, payload = b"", seg[2:]
        elif b"\r\n\r\n" in seg:
            hs, payload = seg.split(b"\r\n\r\n", 1)
        else:
            return "multipart-part-without-header-end"
        ph = {}
        for ln in hs.split(b"\r\n"):
            if ln and b":" in ln:
                k, v = ln.split(b":", 1)
                ph[k.strip().lower()] = v.strip()
        parts.append((ph, payload))
    return parts


def one_header(hdrs, name):
    v = hdrs.get(name, [])
    return v[0] if len(v) == 1 else None


# --------------------------------------------------------------------------- oracle

def _check_single_206(hdrs, body, data, want, is_head):
    """want = (a, b) or None (any self-consistent range).  -> list of problem strings."""
    size = len(data)
    cr = one_header(hdrs, b"content-range")
    m = cr and _CR.match(cr)
    if not m:
        return ["content-range-missing-or-bad"]
    a, b, total = int(m.group(1)), int(m.group(2)), int(m.group(3))
    bad = []
    if total != size or not (0 <= a <= b < size):
        return ["content-range-mismatch"]
    if want is not None and (a, b) != want:
        bad.append("content-range-mismatch")
    cl = one_header(hdrs, b"content-length")
    if is_head:
        if cl is not None and cl != b"%d" % (b - a + 1):
            bad.append("content-length-mismatch")
        return bad
    if body != data[a:b + 1]:
        bad.append("body-mismatch")
    if cl is not None and cl != b"%d" % len(body):
        bad.append("content-length-mismatch")
    if want is not None and body != data[want[0]:want[1] + 1] and "body-mismatch" not in bad:
        bad.append("body-mismatch")
    return bad


def _check_multi_206(hdrs, body, data, want):
    """want = ordered list of expected (a, b), or None (any self-consistent parts)."""
    size = len(data)
    ct = one_header(hdrs, b"content-type") or b""
    parts = parse_multipart(ct, body)
    if isinstance(parts, str):
        return [parts]
    bad = []
    got = []
    for ph, payload in parts:
        cr = ph.get(b"content-range")
        m = cr and _CR.match(cr)
        if not m:
            return ["part-content-range-missing-or-bad"]
        a, b, total = int(m.group(1)), int(m.group(2)), int(m.group(3))
        if total != size or not (0 <= a <= b < size):
            return ["part-content-range-mismatch"]
        if payload != data[a:b + 1]:
            bad.append("part-body-mismatch")
        got.append((a, b))
    if not got:
        bad.append("multipart-without-parts")
    if want is not None and got != want:
        # coalescing / reordering is allowed by RFC 9110 15.3.7.2: same set of bytes, not more parts than requested
        cover = lambda rs: set(i for (a, b) in rs for i in range(a, b + 1)) if size <= 4096 else sorted(set(rs))
        if cover(got) != cover(want) or len(got) > len(want):
            bad.append("parts-differ-from-requested-ranges")
    cl = one_header(hdrs, b"content-length")
    if cl is not None and cl != b"%d" % len(body):
        bad.append("content-length-mismatch")
    return sorted(set(bad))


def _stable(raw):
    """Response bytes for the report with the clock-dependent parts blanked (replays must compare equal)."""
    raw = re.sub(rb"(?im)^(Date|Last-Modified): [^\r\n]*", rb"\1: -", raw[:4000])
    m = re.search(rb'boundary="?([0-9a-f]+)', raw)
    if m:
        raw = raw.replace(m.group(1), b"BOUNDARY")
    return raw


def judge(data, method, header, bufsize, raw, done, logged, escaped):
    """-> (outcome label, [(sig, detail)])"""
    size = len(data)
    shape = shape_of(header, size, bufsize)
    is_head = method == b"HEAD"

    def v(kind, extra=None):
        sig = "File.range:%s:%s" % (kind, shape)
        det = {"size": size, "method": method, "range": header, "bufferSize": bufsize, "response": _stable(raw)[:400],
               "response_len": len(raw), "logged_failures": logged[:3]}
        if extra:
            det["note"] = extra
        return (sig, det)

    # 500, an exception reaching the transport's caller, or a response that is never finished after an exception
    # was logged are the same thing for the statement ("fails with an internal error"): one kind, filed by shape
    if isinstance(escaped, _Hang):
        return "hang", [v("hang", "request used more than %.0f s of CPU" % WATCHDOG_S)]
    if escaped is not None:
        return "exception", [v("internal-error", repr(escaped)[:200])]
    resp = parse_response(raw)
    if resp is None:
        if not raw or logged:
            return "incomplete", [v("internal-error" if logged else "no-response")]
        return "unparsable", [v("response-unparsable")]
    code, hdrs, body = resp
    if code == 500:
        return "500", [v("internal-error")]
    if not done:
        return "incomplete", [v("internal-error" if logged else "response-never-finished")]

    kind, specs = classify(header)
    bad = []
    # what a GET must answer
    if kind in ("absent", "malformed"):
        want_codes = {200}
    elif kind == "gray":
        want_codes = {200, 206, 416}
    else:
        res = resolve(specs, size)
        sat = [r for r in res if r]
        if size == 0 and any(sp[0] == "suf" and sp[1] > 0 for sp in specs):
            want_codes = {200, 416}      # RFC calls it satisfiable, yet no valid Content-Range exists for an empty file
        elif sat:
            want_codes = {206}
        else:
            want_codes = {416}
    if is_head:
        if body:
            bad.append("head-with-body")
        ok_codes = want_codes | {200}
        if code not in ok_codes:
            return "head-%d" % code, [v("status-%d-want-%s" % (code, "/".join(map(str, sorted(ok_codes)))))]
        if code == 200:
            cl = one_header(hdrs, b"content-length")
            if cl is not None and cl != b"%d" % size:
                bad.append("content-length-mismatch")
        elif code == 206:
            ct = one_header(hdrs, b"content-type") or b""
            if not ct.lower().startswith(b"multipart/byteranges"):
                want = None
                if kind == "valid" and len(sat) == 1:
                    want = sat[0]
                bad += _check_single_206(hdrs, body, data, want, True)
        return "head-%d" % code, [v(b_) for b_ in sorted(set(bad))]

    if code not in want_codes:
        return str(code), [v("status-%d-want-%s" % (code, "/".join(map(str, sorted(want_codes)))))]
    label = str(code)
    cl = one_header(hdrs, b"content-length")
    if code == 200:
        label = "200-whole"
        if body != data:
            bad.append("body-mismatch")
        if cl is not None and cl != b"%d" % len(body):
            bad.append("content-length-mismatch")
    elif code == 416:
        if cl is not None and cl != b"%d" % len(body):
            bad.append("content-length-mismatch")
    elif code == 206:
        ct = one_header(hdrs, b"content-type") or b""
        is_multi = ct.lower().startswith(b"multipart/byteranges")
        if kind == "gray":
            label = "206-lenient"
            bad += _check_multi_206(hdrs, body, data, None) if is_multi else _check_single_206(hdrs, body, data, None, False)
        elif len(specs) == 1:
            label = "206-single"
            if is_multi:
                bad.append("multipart-for-single-range")
            else:
                bad += _check_single_206(hdrs, body, data, sat[0], False)
        else:
            if is_multi:
                label = "206-multipart"
                bad += _check_multi_206(hdrs, body, data, sat)
            else:
                label = "206-single-for-multi"
                lo, hi = min(a for a, b in sat), max(b for a, b in sat)
                covered = set(i for (a, b) in sat for i in range(a, b + 1)) if size <= 4096 else None
                if covered is not None and covered != set(range(lo, hi + 1)):
                    bad.append("single-part-for-disjoint-ranges")
                else:
                    bad += _check_single_206(hdrs, body, data, (lo, hi), False)
    return label, [v(b_) for b_ in sorted(set(bad))]


# --------------------------------------------------------------------------- enumeration

def tokens_for(size):
    toks = list(FIXED_TOKENS)
    s = size
    for t in (b"%d-%d" % (max(s - 1, 0), max(s - 1, 0)), b"%d-" % max(s - 1, 0), b"%d-" % s, b"%d-%d" % (s, s),
              b"-%d" % s, b"-%d" % (s + 1), b"0-%d" % max(s - 1, 0), b"0-%d" % s, b"%d-%d" % (max(s - 1, 0), s),
              b"%d-%d" % (s + 1, s + 2)):
        if t not in toks:
            toks.append(t)
    return toks


TRIPLE_TOKENS = [b"0-0", b"-1", b"-0", b"-20", b"1-3", b"3-1", b"10-", b"9-", b"a-b", b"+1-2", b"0-", b"2-2"]


def headers_small(size, tier):
    """Yield every header of the small family for this size (None = absent)."""
    yield None
    yield b""
    toks = tokens_for(size)
    for unit in UNITS:
        yield unit                      # empty set / no value
        yield unit + b","
        for t in toks:
            yield unit + t
            if unit == b"bytes=":
                yield unit + t + b","
                yield unit + b" " + t + b"\t"
        seps = SEPS if unit == b"bytes=" else SEPS[:1]
        pair_toks = toks if unit in (b"bytes=", b"Bytes=") else toks[:12]
        for a, b in itertools.product(pair_toks, repeat=2):
            for sep in seps:
                yield unit + a + sep + b
        if tier == "thorough" and unit == b"bytes=":
            for a, b, c in itertools.product(TRIPLE_TOKENS, repeat=3):
                yield unit + a + b"," + b + b", " + c


def headers_buffer(size, buf, tier):
    """Buffer-boundary family: ranges placed around multiples of the producer buffer size."""
    B = buf
    yield None
    for t in (b"0-", b"0-%d" % (B - 2), b"0-%d" % (B - 1), b"0-%d" % B, b"1-%d" % B, b"1-%d" % (B - 1), b"%d-" % (B - 1),
              b"%d-" % B, b"-%d" % B, b"-%d" % (B + 1), b"-%d" % (B - 1), b"-%d" % size, b"-%d" % (size + 1),
              b"%d-%d" % (size - 1, size - 1), b"%d-" % size):
        yield b"bytes=" + t
    if B <= 1024:
        ks = range(1, size + 1)
    else:
        w = 300 if tier == "quick" else 700
        ks = [k for k in range(B - w, B + 3) if 1 <= k <= size]
    for k in ks:
        yield b"bytes=0-%d,0-0" % (k - 1)
        yield b"bytes=0-0,1-%d" % k
        if B <= 1024 or k % 4 == 0:
            yield b"bytes=0-%d,%d-,-1" % (k - 1, k)
            yield b"bytes=%d-,0-%d" % (size - 2, k - 1)


def shards(tier, seed):
    out = []
    variants = [0] if tier == "quick" else [0, 1]
    for size in SMALL_SIZES:
        for method in ("GET", "HEAD"):
            for var in variants:
                for part in range(6):
                    out.append(["small", size, method, var, part, 6])
    for buf, sizes in ((256, [255, 256, 257, 300, 600]), (65536, [65535, 65536, 65537, 70000])):
        for size in sizes:
            for method in ("GET", "HEAD"):
                if method == "HEAD" and size not in (256, 65536):
                    continue
                out.append(["buffer", size, method, 0, buf, 1])
    return out


def run_one(env, size, variant, method, header, bufsize, seed):
    name, data = env.file(size, variant, seed)
    raw, done, logged, escaped = env.request(name, method, header)
    return judge(data, method, header, bufsize, raw, done, logged, escaped)


def run_shard(shard, tier, seed):
    family, size, method, variant, p4, p5 = shard
    method = method.encode()
    st = Stats()
    env = Env(family)
    hangs = 0
    try:
        if family == "small":
            bufsize = env.set_bufsize(None)
            hs = (h for i, h in enumerate(headers_small(size, tier)) if i % p5 == p4)
        else:
            bufsize = env.set_bufsize(p4 if p4 != 65536 else None)
            hs = headers_buffer(size, p4, tier)
        for header in hs:
            label, bad = run_one(env, size, variant, method, header, bufsize, seed)
            st.evaluations += 1
            st.outcome(label)
            if header is not None:
                st.nt((size, method, header, bufsize, variant))
            w = {"family": family, "size": size, "variant": variant, "method": method, "header": header,
                 "bufsize": bufsize, "seed": seed}
            if family == "buffer" or st.evaluations % 1500 == 7:
                st.sample({"size": size, "method": method, "range": header, "outcome": label}, 2)
            for sig, detail in bad:
                st.violation(sig, detail, w)
            if label == "hang":
                hangs += 1
                if hangs >= 3:          # a tree that hangs this often is already failed; do not burn the budget
                    st.exhaustive = False
                    st.notes.append("C25: shard %r stopped after 3 watchdog hangs" % (shard,))
                    break
    finally:
        env.close()
    return st


def replay(w):
    env = Env("replay")
    try:
        bufsize = env.set_bufsize(w["bufsize"] if w["bufsize"] != 65536 else None)
        method = w["method"]
        header = w["header"]
        label, bad = run_one(env, w["size"], w["variant"], method, header, bufsize, w.get("seed", 0))
        return [(s, d) for s, d in bad]
    finally:
        env.close()
