"""C42 IMAP4: parseNestedParens(b"(" + collapseNestedLists(x) + b")") == [x] for every small nested structure.

The serializer (server side) and the parser (client side) are the real
twisted.mail.imap4 functions; the oracle is structural equality with the
input (ints as decimal text).  Nothing of either function is re-implemented.
"""
import itertools

from mc.runner import Stats

ID = "C42"
LEVEL = "exploration"
TECHNIQUE = "bounded-exhaustive round trip (serializer -> parser) against structural identity"
RULE = ("every case is one nested list x (byte strings / None / ints / lists); it is serialised with the real "
        "collapseNestedLists, wrapped in parentheses, parsed with the real parseNestedParens and compared with [x] "
        "(ints as decimal text).  Three exhaustive families: A = every byte string of length <= LA over a 17-byte "
        "hostile alphabet (plus the 1000/1001-byte quoted/literal boundary strings) in 7 contexts; B = every ordered "
        "pair of strings of length <= 2 over that alphabet in 3 nestings; C = every forest with <= N nodes whose "
        "leaves range over a 27-atom set (each special byte, NIL/nil, {3}, a real literal prefix, None, ints; 20 of "
        "them for the largest node count).  "
        "non-trivial = distinct serialisations that contain a literal, a backslash escape, a nested list or NIL "
        "(thorough keeps at most 4000 keys per shard, so distinct_nontrivial is a lower bound there; counter "
        "nontrivial_cases is the full number)")
BOUNDS = {"quick": "A: strings <= 3 bytes; B: pairs of strings <= 2 bytes; C: forests <= 4 nodes (any depth; 27 atoms up to 3 nodes, 20 at 4)",
          "thorough": "A: strings <= 4 bytes; B: pairs (<=3 bytes, <=2 bytes); C: forests <= 5 nodes (any depth; 27 atoms up to 4 nodes, 20 at 5)"}
ASSUMPTIONS = [
    "the 17-byte alphabet contains every byte the two functions special-case (quote, backslash, CR, LF, braces, "
    "parens, brackets, ASCII whitespace, NUL, a high byte, a digit, 'N'); other bytes behave like 'a' or 0x80",
    "the top level is parenthesised as the statement says, so the parser's outer strip() never touches content",
    "only bytes / None / int / list items (the statement's domain); str, file-like objects and DontQuoteMe are not driven",
]
MIN = {"quick": {"evaluations": 400000, "nontrivial": 370000, "outcomes": 5},
       "thorough": {"evaluations": 8000000, "nontrivial": 1000000, "nontrivial_cases": 7000000, "outcomes": 5}}

B17 = [b"a", b'"', b"\\", b"\r", b"\n", b"{", b"}", b"(", b")", b"[", b"]", b" ", b"\t", b"\x80", b"\x00", b"3", b"N"]

# leaves for family C
ATOMS = [b"", b"a", b'"', b"\\", b"\r", b"\n", b"{", b"}", b"(", b")", b"[", b"]", b" ", b"\t", b"\x0c",
         b"NIL", b"nil", b"{3}", b"{1}\r\n", b"*", b"%", b"\x80", b"\x00",
         None, 0, -1, 12]

LONG = [b"a" * 1000, b"a" * 1001, b'"' * 1000, b'"' * 1001, b"a" * 999 + b'"', b" " * 1001, b"(" * 1001,
        b"a" * 1000 + b"\n", b"{5}" + b"a" * 998, b'a"' * 500 + b")"]
# literal sizes on both sides of every change in the number of digits of the {n} header (round-10 miss C42-m):
# strings holding a line break are sent as literals at any size, others above 1000 bytes
LONG += [b"\n" * n for n in (9, 10, 99, 100, 999, 1000)] + [b"a" * n for n in (9999, 10000, 99999, 100000, 999999, 1000000)]
# the biggest forests use the atoms that matter for nesting / tokenising; the dropped ones ([ ] TAB FF * % NUL)
# are covered up to 3 nodes here and exhaustively as bytes in families A and B
ATOMS_BIG = [a for a in ATOMS if a not in (b"[", b"]", b"\t", b"\x0c", b"*", b"%", b"\x00")]
INTS = [0, 7, -1, 10 ** 20, -10 ** 20, 1000]


def strings(maxlen):
    out = [b""]
    for n in range(1, maxlen + 1):
        out.extend(b"".join(t) for t in itertools.product(B17, repeat=n))
    return out


def forests(n, atoms):
    """Every forest (list of items) with exactly n nodes; an item is an atom or a list holding a forest."""
    if n == 0:
        yield []
        return
    for rest in forests(n - 1, atoms):
        for a in atoms:
            yield [a] + rest
    for j in range(0, n):
        for inner in forests(j, atoms):
            for rest in forests(n - 1 - j, atoms):
                yield [inner] + rest


def forests_first(n, first, atoms):
    """Forests with exactly n nodes whose first item is fixed: ('atom', i) or ('list', j)."""
    kind, k = first
    if kind == "atom":
        for rest in forests(n - 1, atoms):
            yield [atoms[k]] + rest
    else:
        for inner in forests(k, atoms):
            for rest in forests(n - 1 - k, atoms):
                yield [inner] + rest


def expected_of(x):
    if isinstance(x, list):
        return [expected_of(i) for i in x]
    if isinstance(x, bool):
        raise AssertionError("bools are not in the domain")
    if isinstance(x, int):
        return str(x).encode("ascii")
    return x


def _quoted_atoms(x, acc):
    for i in x:
        if isinstance(i, list):
            _quoted_atoms(i, acc)
        elif isinstance(i, bytes) and b"\r" not in i and b"\n" not in i and len(i) <= 1000:
            acc.append(i)
    return acc


def _double_bs(x):
    """What the known 'backslash comes back doubled' defect returns (classification only)."""
    if isinstance(x, list):
        return [_double_bs(i) for i in x]
    if isinstance(x, bytes) and b"\r" not in x and b"\n" not in x and len(x) <= 1000:
        return x.replace(b"\\", b"\\\\")
    return expected_of(x)


def classify(x, got, exc):
    """Signature of a failed round trip (the verdict is already 'differs'; this only names the shape)."""
    qa = _quoted_atoms(x, [])
    has_bs = any(b"\\" in a for a in qa)
    ends_bs = any(a.endswith(b"\\") for a in qa)
    if exc is None and has_bs and got == [_double_bs(x)]:
        return "imap4.splitQuoted:backslash-in-quoted-string-comes-back-doubled"
    if ends_bs:
        if exc is None:
            kind = "tokens-merged"
        else:
            kind = "raises-" + type(exc).__name__
        return "imap4.splitQuoted:closing-quote-after-backslash-taken-as-escaped:" + kind
    if exc is not None:
        return "imap4.roundtrip:raises-" + type(exc).__name__
    return "imap4.roundtrip:structure-differs"


def evaluate(x, st, family):
    from twisted.mail import imap4
    want = [expected_of(x)]
    ser = b"(" + imap4.collapseNestedLists(x) + b")"
    st.evaluations += 1
    exc = None
    got = None
    try:
        got = imap4.parseNestedParens(ser)
    except (imap4.IMAP4Exception, ValueError, IndexError, TypeError) as e:  # parser refused its own server's output
        exc = e
    if b"{" == ser[1:2] or b" {" in ser or b"\\" in ser or b"(" in ser[1:-1] or b"NIL" in ser:
        st.count("nontrivial_cases")
        if NT_CAP is None or len(st.nontrivial) < NT_CAP:
            st.nt(ser)
    if exc is None and got == want:
        st.outcome("ok:" + ("literal" if b"}\r\n" in ser else "escaped" if b"\\" in ser else "plain"))
        return []
    sig = classify(x, got, exc)
    st.outcome("bad:" + sig.split(":", 1)[1][:50])
    detail = {"structure": x, "serialised": ser[:300], "parsed": repr(got)[:300] if exc is None else None,
              "exception": repr(exc)[:200] if exc is not None else None, "family": family}
    st.violation(sig, detail, {"x": _enc(x)})
    return [(sig, detail)]


def _enc(x):
    """JSON-able structure: bytes -> ['b', hex] so that replay restores them exactly."""
    if isinstance(x, list):
        return ["l"] + [_enc(i) for i in x]
    if isinstance(x, bytes):
        if len(x) > 64 and len(set(x)) <= 2 and x == x[:2] * (len(x) // 2) + x[:len(x) % 2]:
            return ["r", x[:2].hex(), len(x)]
        return ["b", x.hex()]
    return ["v", x]


def _dec(e):
    tag = e[0]
    if tag == "l":
        return [_dec(i) for i in e[1:]]
    if tag == "b":
        return bytes.fromhex(e[1])
    if tag == "r":
        return (bytes.fromhex(e[1]) * e[2])[:e[2]]
    return e[1]


# --- the three families -------------------------------------------------------------------------

def contexts_A(s):
    yield [s]
    yield [[s]]
    yield [b"x", s, b"y"]
    yield [None, s, 1]
    yield [b"\n", s, b"\r"]
    yield [[], s, [[b"z"]]]
    yield [s, s]


def contexts_B(s, t):
    yield [s, t]
    yield [s, [t]]
    yield [[s], t]


NSH_A = 16
NSH_B = 24


def atoms_for(n, tier):
    return ATOMS_BIG if n >= (4 if tier == "quick" else 5) else ATOMS


def first_choices(n, tier):
    return [("atom", i) for i in range(len(atoms_for(n, tier)))] + [("list", j) for j in range(n)]


def shards(tier, seed):
    nC = 4 if tier == "quick" else 5
    out = [["A", k] for k in range(NSH_A)] + [["B", k] for k in range(NSH_B)]
    for n in range(0, nC + 1):
        if n <= 2:
            out.append(["C", n, None])
        else:
            for f in first_choices(n, tier):
                if tier != "quick" and n == nC and f[0] == "atom":
                    # split the biggest shards once more on the second node
                    for g in [("atom", i) for i in range(len(ATOMS_BIG))] + [("list", j) for j in range(n - 1)]:
                        out.append(["C", n, list(f), list(g)])
                else:
                    out.append(["C", n, list(f)])
    out.append(["L"])
    return out


NT_CAP = None   # thorough keeps at most this many distinct keys per shard (memory); the counter has the full count


def run_shard(shard, tier, seed):
    global NT_CAP
    NT_CAP = None if tier == "quick" else 4000
    st = Stats()
    fam = shard[0]
    if fam == "A":
        ss = strings(3 if tier == "quick" else 4)
        for s in ss[shard[1]::NSH_A]:
            for x in contexts_A(s):
                evaluate(x, st, "A")
        st.sample({"family": "A", "example": [b"x", ss[shard[1] + NSH_A * 40], b"y"]})
    elif fam == "B":
        s2 = strings(2)
        s1 = s2 if tier == "quick" else strings(3)
        for s in s1[shard[1]::NSH_B]:
            for t in s2:
                for x in contexts_B(s, t):
                    evaluate(x, st, "B")
    elif fam == "C":
        n, first = shard[1], shard[2]
        atoms = atoms_for(n, tier)
        if first is None:
            gen = forests(n, atoms)
        elif len(shard) > 3:
            (k1, i1), (k2, i2) = first, shard[3]
            assert k1 == "atom"
            gen = ([atoms[i1]] + r for r in forests_first(n - 1, (k2, i2), atoms))
        else:
            gen = forests_first(n, tuple(first), atoms)
        last = None
        for x in gen:
            evaluate(x, st, "C")
            last = x
        if last is not None and n >= 3:
            st.sample({"family": "C", "example": last})
    elif fam == "L":
        for s in LONG:
            for x in contexts_A(s):
                evaluate(x, st, "L")
        for i in INTS:
            for x in contexts_A(i):
                evaluate(x, st, "L")
        for x in ([], [[]], [[], []], [[[[[[b"deep"]]]]]], [None], [None, None], [[None]], [b"NIL", None, b"nil"]):
            evaluate(x, st, "L")
    return st


def replay(w):
    st = Stats()
    x = _dec(w["x"])
    return evaluate(x, st, "replay")
