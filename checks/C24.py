"""C24 HTTP client requests serialise to exactly the intended message.

Every case builds a real twisted.web._newclient.Request (method, target, Headers, body producer) and
writes it either directly (Request.writeTo) or through HTTP11ClientProtocol.request onto an in-memory
transport; h11 (server role) parses the bytes back."""
from __future__ import annotations
import itertools

from mc.runner import Stats
from checks._http_b import canon_value, is_token, to_bytes_utf8, sym_class, parse_request, tup

ID = "C24"
LEVEL = "exploration"
TECHNIQUE = "exhaustive enumeration of request descriptions + independent parser (h11 server role)"
RULE = ("(method) every curated method plus every byte c in 0..255 placed first, inside and last in GT; (target) every "
        "curated target plus every byte c placed first, inside and last in /ab -- each both at construction and assigned after construction, written directly "
        "and through HTTP11ClientProtocol.request; (valid product) valid methods x valid targets x body kinds; "
        "(headers) every header set of the hostile list x body kinds; (body) every piece list (1-3 pieces, empty "
        "pieces, 10/17-byte pieces, chunk look-alikes) x known/unknown length x every count of pieces written "
        "synchronously in startProducing x persistent or not x {GET, POST, custom}. Checked with h11: one request, "
        "same method/target/headers/body, Content-Length iff known length, chunked iff unknown, nothing after it; "
        "invalid method/target: an exception or failed Deferred and zero bytes on the transport. "
        "non-trivial = invalid method/target byte, hostile header value, or a body in >=2 pieces / with an empty piece")
BOUNDS = {"quick": "single-byte insertions; <=3 body pieces; <=3 headers per set",
          "thorough": "additionally every 2-byte insertion from a 24-byte hostile alphabet into method and target"}
ASSUMPTIONS = [
    "h11 0.16 (server role) is the independent parser; the caller supplies exactly one Host header and does not set "
    "Content-Length / Transfer-Encoding / Connection (those are the client's framing headers)",
    "a known-length producer writes exactly its declared length; header values carry no NUL (see C20 for NUL)",
    "target bytes that are visible ASCII but not URI characters (\"<>\\^`{|}) may be refused or passed through",
]
MIN = {"quick": {"evaluations": 7000, "nontrivial": 5000, "outcomes": 5},
       "thorough": {"evaluations": 12800, "nontrivial": 10000, "outcomes": 5}}

GREY_TARGET = frozenset(b"\"<>\\^`{|}")
CLIENT_OWN = {b"connection", b"content-length", b"transfer-encoding"}

VALID_METHODS = [b"GET", b"POST", b"PUT", b"HEAD", b"DELETE", b"M-SEARCH", b"get", b"!#$%&'*+-.^_`|~", b"X1"]
INVALID_METHODS = [b"", b"G T", b"GET\r\n", b"GET\r\nX: y", b"GET / HTTP/1.1\r\nHost: evil\r\n\r\nGET", b"G\x00T",
                   b"G\xe9T", b"GET ", b" GET", b"G\tT", b"GE:T", b"G(T)", b"GET/", b"G\x7fT", b"\r\n", b"G\nT"]
VALID_TARGETS = [b"/", b"/a/b?q=1&r=2", b"*", b"http://example.com:8080/x?y#z", b"/%20%0d%0a", b"/a;b=c,d",
                 b"example.com:443", b"/~u/$-_.+!*'()"]
INVALID_TARGETS = [b"", b"/a b", b"/\r\nX: y", b"/ HTTP/1.1\r\nHost: evil\r\n\r\nGET /x", b"/a\nb", b"/a\rb",
                   b"/\xe9", b"/\xc3\xa9", b"/a\x00", b"/a\tb", b"/a\x7f", b" /", b"/ ", b"\r\n"]
HOSTILE2 = [bytes([c]) for c in b"aZ09 \t\r\n\x00\x7f\x80\xff:/?#%@\"<{|~-"]

HEADER_SETS = [
    (),
    ((b"X-A", (b"v",)),),
    (("X-A", ("v",)),),
    ((b"x-a", (b"v1", b"v2")),),
    ((b"X-A", (b"a\r\nEvil: y",)),),
    ((b"X-A", (b"a\nEvil: y",)),),
    (("X-A", ("a\rEvil: y",)),),
    ((b"X-A", (b"a\r\n\r\nGET /evil HTTP/1.1\r\nHost: x\r\n\r\n",)),),
    ((b"X-A", (b"",)),),
    ((b"X-A", (b" padded\t",)),),
    ((b"X-A", (b"caf\xe9",)),),
    (("X-A", ("caf\xe9 €",)),),
    ((b"X-A", (b"a: b; c=d, e",)),),
    ((b"etag", (b"W/\"x\"",)), (b"www-authenticate", (b"Basic",))),
    ((b"X-A", (b"1",)), (b"X-B", (b"2",)), (b"x-a", (b"3",))),
    ((b"Content-Type", (b"text/plain",)), (b"X-|~!#$%&'*+.^_`0", (b"odd name",))),
    ((b"X-A", (b"a\r\n b",)),),
    ((b"User-Agent", (b"t",)), (b"Accept", (b"*/*", b"text/html")), (b"Cookie", (b"a=b; c=d",))),
]

PIECES = [
    (), (b"",), (b"abc",), (b"a", b"bc"), (b"a", b"b", b"c"), (b"", b"abc"), (b"a", b"", b"bc"), (b"abc", b""),
    (b"x" * 10,), (b"x" * 16, b"y"), (b"0\r\n\r\n",), (b"\r\n", b"0\r\n", b"\r\nGET /evil HTTP/1.1\r\n\r\n"),
    (bytes(range(256)),),
]


def body_kinds():
    """(length-kind, pieces, sync) ; sync = number of pieces written inside startProducing,
    len+1 = all pieces and the done-Deferred fired synchronously."""
    out = [None]
    for pieces in PIECES:
        for known in (True, False):
            for sync in range(len(pieces) + 2):
                out.append(("known" if known else "unknown", pieces, sync))
    return out


SMALL_BODIES = [None, ("known", (b"abc",), 2), ("unknown", (b"a", b"bc"), 1), ("unknown", (), 1)]


def mk(method=b"GET", target=b"/", headers=(), body=None, persistent=False, path="direct", assign=None):
    """assign: None, or ("method"|"target", value) set on the Request after construction"""
    return (method, target, headers, body, persistent, path, assign)


def all_cases(tier):
    out = []
    seen = set()

    def add(c):
        if c not in seen:
            seen.add(c)
            out.append(c)

    methods = VALID_METHODS + INVALID_METHODS
    targets = VALID_TARGETS + INVALID_TARGETS
    for c in range(256):        # every byte value first, inside and last (a trailing LF is the classic '$' slip)
        ch = bytes([c])
        methods += [ch + b"GT", b"G" + ch + b"T", b"GT" + ch]
        targets += [ch + b"/ab", b"/a" + ch + b"b", b"/ab" + ch]
    if tier == "thorough":
        methods += [b"G" + a + b + b"T" for a in HOSTILE2 for b in HOSTILE2]
        targets += [b"/a" + a + b + b"b" for a in HOSTILE2 for b in HOSTILE2]
    for path in ("direct", "protocol"):
        for m in methods:
            add(mk(method=m, path=path))
            add(mk(assign=("method", m), path=path))
            add(mk(method=m, path=path, body=("unknown", (b"abc",), 2)))
        for t in targets:
            add(mk(target=t, path=path))
            add(mk(assign=("target", t), path=path))
            add(mk(target=t, method=b"POST", path=path, body=("known", (b"abc",), 1)))
    for m in VALID_METHODS:
        for t in VALID_TARGETS:
            for body in SMALL_BODIES:
                for persistent in (False, True):
                    add(mk(m, t, body=body, persistent=persistent))
    for hs in HEADER_SETS:
        for body in SMALL_BODIES:
            for persistent in (False, True):
                for path in ("direct", "protocol"):
                    add(mk(headers=hs, body=body, persistent=persistent, path=path))
    for body in body_kinds():
        for m in (b"GET", b"POST", b"X1"):
            for persistent in (False, True):
                for path in ("direct", "protocol"):
                    add(mk(method=m, body=body, persistent=persistent, path=path))
    return out


# ---------------------------------------------------------------- reference
def method_valid(m):
    return is_token(m)


def target_class(t):
    """'valid' / 'invalid' / 'grey'"""
    if not t:
        return "invalid"
    if any(c <= 0x20 or c >= 0x7f for c in t):
        return "invalid"
    if any(c in GREY_TARGET for c in t):
        return "grey"
    return "valid"


# ---------------------------------------------------------------- execution
_PROD = None


def _producer_class():
    global _PROD
    if _PROD is None:
        from zope.interface import implementer
        from twisted.web.iweb import IBodyProducer, UNKNOWN_LENGTH
        from twisted.internet.defer import Deferred

        @implementer(IBodyProducer)
        class PieceProducer:
            def __init__(self, kind, pieces, sync):
                self.pieces = list(pieces)
                self.length = sum(len(p) for p in pieces) if kind == "known" else UNKNOWN_LENGTH
                self.sync = sync
                self.consumer = None
                self.done = Deferred()
                self.i = 0
                self.calls = []

            def startProducing(self, consumer):
                self.consumer = consumer
                while self.i < min(self.sync, len(self.pieces)):
                    self.step()
                if self.sync > len(self.pieces):
                    self.done.callback(None)
                return self.done

            def step(self):
                """One later event: the next piece, or completion."""
                if self.i < len(self.pieces):
                    self.consumer.write(self.pieces[self.i])
                    self.i += 1
                    return True
                if not self.done.called:
                    self.done.callback(None)
                    return True
                return False

            def pauseProducing(self):
                self.calls.append("pause")

            def resumeProducing(self):
                self.calls.append("resume")

            def stopProducing(self):
                self.calls.append("stop")

        _PROD = PieceProducer
    return _PROD


def execute(case):
    """Returns dict(refused=None|str, stage=..., wire=bytes, result=[...])"""
    from twisted.web._newclient import Request, HTTP11ClientProtocol
    from twisted.web.http_headers import Headers
    from mc.net import MemTransport, connect
    method, target, headers, body, persistent, path, assign = case
    obs = {"refused": None, "stage": None, "wire": b"", "result": [], "raised": None}
    h = Headers()
    h.addRawHeader(b"Host", b"example.com")
    for name, values in headers:
        for v in values:
            h.addRawHeader(name, v)
    prod = None
    if body is not None:
        prod = _producer_class()(*body)
    try:
        req = Request(method, target, h, prod, persistent=persistent)
    except ValueError as e:
        obs["refused"] = "%s: %s" % (type(e).__name__, e)
        obs["stage"] = "construct"
        return obs
    if assign is not None:
        setattr(req, {"method": "method", "target": "uri"}[assign[0]], assign[1])
    tr = MemTransport()
    try:
        if path == "direct":
            try:
                d = req.writeTo(tr)
            except ValueError as e:
                obs["refused"] = "%s: %s" % (type(e).__name__, e)
                obs["stage"] = "writeTo"
                d = None
        else:
            proto = HTTP11ClientProtocol()
            connect(proto, tr)
            d = proto.request(req)
        if d is not None:
            d.addCallbacks(lambda r: obs["result"].append(("ok", r)), lambda f: obs["result"].append(("fail", f)))
            n = 0
            while prod is not None and prod.consumer is not None and n < 10:
                if not prod.step():
                    break
                n += 1
            if obs["result"] and obs["result"][0][0] == "fail":
                f = obs["result"][0][1]
                obs["refused"] = "%s: %s" % (f.type.__name__, f.getErrorMessage()[:120])
                obs["stage"] = "deferred"
    except Exception as e:
        obs["raised"] = "%s: %s" % (type(e).__name__, e)
    obs["wire"] = tr.value()
    return obs


def check(case):
    method, target, headers, body, persistent, path, assign = case
    eff_method = assign[1] if assign and assign[0] == "method" else method
    eff_target = assign[1] if assign and assign[0] == "target" else target
    obs = execute(case)
    fails = []
    info = {"wire": obs["wire"], "outcome": None}
    if obs["raised"]:
        fails.append(("raised", obs["raised"]))
        return fails, info
    # validity of everything that was ever given to the Request
    bad_m = [m for m in {method, eff_method} if not method_valid(m)]
    tcls = [target_class(t) for t in (target, eff_target)]
    must_refuse = bool(bad_m) or "invalid" in tcls
    may_refuse = must_refuse or "grey" in tcls
    if obs["refused"] is not None:
        info["outcome"] = "refused-at-" + obs["stage"]
        if not may_refuse:
            fails.append(("valid-request-refused", obs["refused"]))
        if obs["wire"]:
            fails.append(("bytes-written-before-refusal", "%r then %s" % (obs["wire"][:80], obs["refused"])))
        return fails, info
    if must_refuse:
        what = "method" if bad_m else "target"
        fails.append(("invalid-%s-accepted" % what, "%r %r -> %r" % (eff_method, eff_target, obs["wire"][:120])))
        return fails, info
    if path == "direct" and obs["result"] != [("ok", None)]:
        fails.append(("writeTo-deferred", repr(obs["result"])))
    # ---- independent parse
    req, left, err = parse_request(obs["wire"])
    if err is not None:
        fails.append(("unparseable", "%s in %r" % (err, obs["wire"][:200])))
        return fails, info
    if req is None or not req.complete:
        fails.append(("request-not-terminated", repr(obs["wire"][-120:])))
        return fails, info
    if left:
        fails.append(("bytes-after-request", repr(left[:80])))
    if req.method != eff_method:
        fails.append(("method-differs", "%r vs %r" % (req.method, eff_method)))
    if req.target != eff_target:
        fails.append(("target-differs", "%r vs %r" % (req.target, eff_target)))
    exp_body = b"".join(body[1]) if body is not None else b""
    if req.body != exp_body:
        fails.append(("body-differs", "parsed %r, produced %r" % (req.body[:80], exp_body[:80])))
    exp = {b"host": [b"example.com"]}
    for name, values in headers:
        exp.setdefault(to_bytes_utf8(name).lower(), []).extend(canon_value(to_bytes_utf8(v)) for v in values)
    got = {}
    for n, v in req.headers:
        got.setdefault(n, []).append(v)
    for n in sorted(set(exp) | set(got)):
        if n not in exp:
            if n not in CLIENT_OWN:
                fails.append(("extra-header", "%r: %r" % (n, got[n])))
        elif n not in got:
            fails.append(("header-missing", "%r" % n))
        elif [canon_value(v) for v in got[n]] != exp[n]:
            fails.append(("header-value-differs", "%r: %r vs %r" % (n, got[n], exp[n])))
    te = [v.lower() for v in got.get(b"transfer-encoding", [])]
    cl = got.get(b"content-length", [])
    if body is None:
        info["outcome"] = "no-body"
        if te or cl not in ([], [b"0"]):
            fails.append(("framing-differs", "no body but %r %r" % (te, cl)))
    elif body[0] == "known":
        info["outcome"] = "content-length"
        if te or cl != [b"%d" % len(exp_body)]:
            fails.append(("framing-differs", "known length %d but %r %r" % (len(exp_body), te, cl)))
    else:
        info["outcome"] = "chunked"
        if te != [b"chunked"] or cl:
            fails.append(("framing-differs", "unknown length but %r %r" % (te, cl)))
    return fails, info


def context(case):
    method, target, headers, body, persistent, path, assign = case
    eff_method = assign[1] if assign and assign[0] == "method" else method
    eff_target = assign[1] if assign and assign[0] == "target" else target
    parts = []
    if not method_valid(eff_method):
        parts.append("method(%s)" % _byte_class(eff_method).replace("grey", "delimiter"))
    if target_class(eff_target) != "valid":
        parts.append("target(%s)" % _byte_class(eff_target))
    if assign:
        parts.append("assigned-after-construction")
    hc = sym_class([h[1] for h in headers])
    if hc != "plain":
        parts.append("header(%s)" % hc)
    if body is not None:
        parts.append("%s-length%s" % (body[0], "+empty-piece" if b"" in body[1] else ""))
    return "+".join(parts) or "plain"


def _byte_class(b):
    out = set()
    if not b:
        out.add("empty")
    for c in b:
        if c in (13, 10):
            out.add("line-break")
        elif c == 32 or c == 9:
            out.add("space")
        elif c == 0:
            out.add("nul")
        elif c < 32 or c == 127:
            out.add("ctl")
        elif c >= 128:
            out.add("non-ascii")
        elif c in GREY_TARGET:
            out.add("grey")
        elif c not in b"!#$%&'*+-.^_`|~0123456789ABCDEFGHIJKLMNOPQRSTUVWXYZabcdefghijklmnopqrstuvwxyz":
            out.add("delimiter")
    return "+".join(sorted(set(out))) or "token"


def signature(case, fails):
    return "client.Request:%s:%s" % (fails[0][0], context(case))


def nontrivial(case):
    ctx = context(case)
    if ctx == "plain":
        return False
    if ctx in ("known-length", "unknown-length"):
        return len(case[3][1]) >= 2
    return True


NSHARDS = 16


def shards(tier, seed):
    return [[k, NSHARDS] for k in range(NSHARDS)]


def run_shard(shard, tier, seed):
    st = Stats()
    k, n = shard
    for case in all_cases(tier)[k::n]:
        st.evaluations += 1
        fails, info = check(case)
        if nontrivial(case):
            st.nt(case)
        if info["outcome"]:
            st.outcome(info["outcome"])
        if fails:
            st.outcome("violation")
            st.violation(signature(case, fails), {"fails": fails[:3], "wire": info["wire"][:300]}, {"case": case})
        elif st.evaluations % 301 == 1:
            st.sample({"case": case, "wire": info["wire"][:200]})
    return st


def replay(w):
    case = tup(w["case"])
    case = case[:4] + (bool(case[4]),) + case[5:]
    fails, info = check(case)
    if not fails:
        return []
    return [(signature(case, fails), {"fails": fails[:3], "wire": info["wire"][:300]})]
