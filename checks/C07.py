"""C07 DeferredQueue: explicit-state search over the real queue, lock-step FIFO reference."""
from mc.bfs import bfs
from mc.runner import Stats

ID = "C07"
LEVEL = "model_checking"
RULE = ("BFS over histories of put(fresh)/get/cancel(pending get k) on a real DeferredQueue for every "
        "(size, backlog) in {None,0,1,2,3}^2; every transition is executed on the real object and compared "
        "with a list-based FIFO reference (delivery target, order, QueueOverflow/QueueUnderflow). "
        "non-trivial = distinct canonical states in which a limit was hit, a get was pending or a cancel happened")
BOUNDS = {"quick": "depth 12", "thorough": "depth 16"}
ASSUMPTIONS = ["canonical state = (config, queued values and pending gets relative to the put/get counters, "
               "Deferred.called flags); completed gets are dropped because neither the queue nor the harness "
               "references them again"]
MIN = {"quick": {"states": 1500, "nontrivial": 1000, "outcomes": 5}}

LIMS = [None, 0, 1, 2, 3]


class St:
    def __init__(self, size, backlog):
        from twisted.internet.defer import DeferredQueue
        self.q = DeferredQueue(size, backlog)
        self.size, self.backlog = size, backlog
        self.nput = 0
        self.gets = []      # dicts: d, got(list), failed(list)
        self.m_pending = []  # reference: queued values
        self.m_waiting = []  # reference: indices of pending gets, oldest first
        self.m_expect = {}   # get index -> list of expected deliveries
        self.bad = []
        self.flags = set()


def apply(st, ev):
    from twisted.internet.defer import QueueOverflow, QueueUnderflow, CancelledError
    op = ev[0]
    if op == "put":
        v = st.nput
        st.nput += 1
        # reference
        if st.m_waiting:
            g = st.m_waiting.pop(0)
            st.m_expect[g].append(v)
            exp = None
        elif st.size is None or len(st.m_pending) < st.size:
            st.m_pending.append(v)
            exp = None
        else:
            exp = QueueOverflow
            st.flags.add("overflow")
        try:
            st.q.put(v)
            got = None
        except (QueueOverflow, QueueUnderflow) as e:
            got = type(e)
        if got is not exp:
            st.bad.append(("put-exception", "put #%d raised %s, reference %s" % (
                v, got and got.__name__, exp and exp.__name__)))
    elif op == "get":
        idx = len(st.gets)
        if st.m_pending:
            st.m_expect[idx] = [st.m_pending.pop(0)]
            exp = None
        elif st.backlog is None or len(st.m_waiting) < st.backlog:
            st.m_expect[idx] = []
            st.m_waiting.append(idx)
            exp = None
            st.flags.add("pending-get")
        else:
            exp = QueueUnderflow
            st.flags.add("underflow")
        rec = {"d": None, "got": [], "failed": [], "cancelled": False}
        try:
            d = st.q.get()
            rec["d"] = d
            d.addCallbacks(rec["got"].append, lambda f, rec=rec: rec["failed"].append(f.type))
            got = None
        except (QueueOverflow, QueueUnderflow) as e:
            got = type(e)
        st.gets.append(rec)
        if got is not exp:
            st.bad.append(("get-exception", "get #%d raised %s, reference %s" % (
                idx, got and got.__name__, exp and exp.__name__)))
        if exp is not None:
            st.m_expect[idx] = None
    elif op == "cancel":
        idx = st.m_waiting[ev[1]]
        st.m_waiting.remove(idx)
        st.m_expect[idx] = "cancelled"
        st.gets[idx]["cancelled"] = True
        st.gets[idx]["d"].cancel()
        st.flags.add("cancel")


def enabled(st):
    evs = [("put",), ("get",)]
    for k in range(len(st.m_waiting)):
        evs.append(("cancel", k))
    return evs


def invariant(st, hist):
    from twisted.internet.defer import CancelledError
    out = list(st.bad)
    for i, rec in enumerate(st.gets):
        exp = st.m_expect.get(i)
        if exp is None:
            continue
        if exp == "cancelled":
            if rec["got"]:
                out.append(("delivered-to-cancelled-get", "get #%d was cancelled but received %r" % (i, rec["got"])))
            elif rec["failed"] != [CancelledError]:
                out.append(("cancelled-get-result", "get #%d: %r" % (i, rec["failed"])))
            continue
        if rec["got"] != exp or rec["failed"]:
            kind = "duplicate-delivery" if len(rec["got"]) > 1 else \
                   "lost-or-misordered-delivery"
            out.append((kind, "get #%d received %r (failures %r), reference %r" % (i, rec["got"], rec["failed"], exp)))
    # real queue agrees with the reference about what is still queued
    if list(st.q.pending) != st.m_pending:
        out.append(("queued-objects-differ", "queue holds %r, reference %r" % (st.q.pending, st.m_pending)))
    return out


def canon(st):
    q = st.q
    ng = len(st.gets)
    idx = {id(r["d"]): i for i, r in enumerate(st.gets) if r["d"] is not None}
    return (tuple(v - st.nput for v in q.pending),
            tuple((idx.get(id(d), 99) - ng, d.called) for d in q.waiting),
            tuple(i - ng for i in st.m_waiting))


def shards(tier, seed):
    return [(s, b) for s in LIMS for b in LIMS]


def run_shard(shard, tier, seed):
    size, backlog = shard
    depth = 12 if tier == "quick" else 16
    stats = Stats()

    def on_state(st, hist):
        if st.flags:
            stats.nt((shard, canon(st)))
        for f in st.flags:
            stats.outcome(f)
        stats.outcome("delivered" if any(r["got"] for r in st.gets) else "nothing-delivered")

    res = bfs(lambda: St(size, backlog), apply, enabled, canon, invariant, depth, on_state=on_state)
    stats.add_bfs(res, {"config": [size, backlog]})
    stats.samples = [{"config": [size, backlog], "history": h} for h in res.samples[:2]]
    return stats


def replay(w):
    size, backlog = w["config"]
    st = St(size, backlog)
    out = []
    for i, ev in enumerate(w["history"]):
        apply(st, tuple(ev))
    return invariant(st, w["history"])
