"""C07 DeferredQueue: explicit-state search over the real queue, lock-step FIFO reference.
Gets may carry a re-entrant callback (re-issue get(), or put() a fresh object) so that the queue is
also exercised from inside the callback of a get that is being satisfied."""
from mc.bfs import bfs
from mc.runner import Stats

ID = "C07"
LEVEL = "model_checking"
RULE = ("BFS over histories of put(fresh) / get / get whose callback re-issues get() / get whose callback puts a fresh "
        "object / cancel(pending get k) on a real DeferredQueue for every (size, backlog) in {None,0,1,2}^2; every "
        "transition is executed on the real object and its event log (puts, gets, deliveries, QueueOverflow/"
        "QueueUnderflow, including the nested ones made from callbacks) is compared with a list-based FIFO reference. "
        "non-trivial = distinct canonical states in which a limit was hit, a get was pending, a cancel or a re-entrant call happened")
BOUNDS = {"quick": "depth 8", "thorough": "depth 10"}
ASSUMPTIONS = ["canonical state = (config, queued values and pending gets relative to the put/get counters with their callback kind, "
               "Deferred.called flags); completed gets are dropped because neither the queue nor the harness references them again",
               "a re-entrant callback acts once (one nested get or put), after the object was delivered to it"]
MIN = {"quick": {"states": 40000, "nontrivial": 35000, "outcomes": 6}}

LIMS = [None, 0, 1, 2]
KINDS = ["plain", "reget", "put"]


class St:
    def __init__(self, size, backlog):
        from twisted.internet.defer import DeferredQueue
        self.q = DeferredQueue(size, backlog)
        self.size, self.backlog = size, backlog
        self.nput = 0
        self.gets = []       # real side: dicts d, kind, cancelled
        self.rlog = []       # real event log
        self.mlog = []       # reference event log
        self.m_pending = []
        self.m_waiting = []  # indices of pending gets, oldest first
        self.m_kind = {}
        self.m_nget = 0
        self.m_nput = 0
        self.bad = []
        self.flags = set()

    # ---- reference model ---------------------------------------------------------------------
    def m_deliver(self, g, v):
        self.mlog.append(("deliver", g, v))
        k = self.m_kind[g]
        if k == "reget":
            self.flags.add("reentrant-get")
            self.m_get("plain")
        elif k == "put":
            self.flags.add("reentrant-put")
            self.m_put()

    def m_put(self):
        v = self.m_nput
        self.m_nput += 1
        if self.m_waiting:
            g = self.m_waiting.pop(0)
            self.m_deliver(g, v)
            self.mlog.append(("put", v, None))
        elif self.size is None or len(self.m_pending) < self.size:
            self.m_pending.append(v)
            self.mlog.append(("put", v, None))
        else:
            self.flags.add("overflow")
            self.mlog.append(("put", v, "QueueOverflow"))

    def m_get(self, kind):
        g = self.m_nget
        self.m_nget += 1
        self.m_kind[g] = kind
        if self.m_pending:
            v = self.m_pending.pop(0)
            self.mlog.append(("get", g, None))
            self.m_deliver(g, v)
        elif self.backlog is None or len(self.m_waiting) < self.backlog:
            self.m_waiting.append(g)
            self.flags.add("pending-get")
            self.mlog.append(("get", g, None))
        else:
            self.flags.add("underflow")
            self.mlog.append(("get", g, "QueueUnderflow"))

    # ---- real side ------------------------------------------------------------------------------
    def r_put(self):
        from twisted.internet.defer import QueueOverflow, QueueUnderflow
        v = self.nput
        self.nput += 1
        try:
            self.q.put(v)
            self.rlog.append(("put", v, None))
        except (QueueOverflow, QueueUnderflow) as e:
            self.rlog.append(("put", v, type(e).__name__))

    def r_get(self, kind):
        from twisted.internet.defer import QueueOverflow, QueueUnderflow
        g = len(self.gets)
        rec = {"d": None, "kind": kind, "cancelled": False}
        self.gets.append(rec)
        try:
            d = self.q.get()
        except (QueueOverflow, QueueUnderflow) as e:
            self.rlog.append(("get", g, type(e).__name__))
            return
        rec["d"] = d
        self.rlog.append(("get", g, None))

        def cb(v, g=g, kind=kind):
            self.rlog.append(("deliver", g, v))
            if kind == "reget":
                self.r_get("plain")
            elif kind == "put":
                self.r_put()

        def eb(f, g=g):
            self.rlog.append(("failed", g, f.type.__name__))
        d.addCallbacks(cb, eb)


def apply(st, ev):
    op = ev[0]
    if op == "put":
        st.m_put()
        st.r_put()
    elif op == "get":
        st.m_get(ev[1])
        st.r_get(ev[1])
    elif op == "cancel":
        g = st.m_waiting[ev[1]]
        st.m_waiting.remove(g)
        st.mlog.append(("failed", g, "CancelledError"))
        st.flags.add("cancel")
        st.gets[g]["cancelled"] = True
        st.gets[g]["d"].cancel()


def enabled(st):
    evs = [("put",)] + [("get", k) for k in KINDS]
    for k in range(len(st.m_waiting)):
        evs.append(("cancel", k))
    return evs


def invariant(st, hist):
    out = list(st.bad)
    if st.rlog != st.mlog:
        n = next((i for i, (a, b) in enumerate(zip(st.rlog, st.mlog)) if a != b), min(len(st.rlog), len(st.mlog)))
        r = st.rlog[n] if n < len(st.rlog) else None
        m = st.mlog[n] if n < len(st.mlog) else None
        if r and m and r[0] == m[0] == "get" and r[2] != m[2]:
            kind = "get-exception"
        elif r and m and r[0] == m[0] == "put" and r[2] != m[2]:
            kind = "put-exception"
        elif r and r[0] == "deliver" and any(x[0] == "deliver" and x[2] == r[2] for x in st.rlog[:n]):
            kind = "duplicate-delivery"
        elif r and r[0] == "deliver" and r[1] < len(st.gets) and st.gets[r[1]]["cancelled"]:
            kind = "delivered-to-cancelled-get"
        else:
            kind = "lost-or-misordered-delivery"
        nested = any(st.m_kind.get(g) in ("reget", "put") for g in st.m_kind)
        out.append((kind + (":with-reentrant-callback" if nested else ""),
                    "event %d: queue did %r, reference %r (logs %r vs %r)" % (n, r, m, st.rlog[-6:], st.mlog[-6:])))
    try:
        if list(st.q.pending) != st.m_pending:
            out.append(("queued-objects-differ", "queue holds %r, reference %r" % (st.q.pending, st.m_pending)))
    except AttributeError:
        pass
    return out


def canon(st):
    q = st.q
    ng = len(st.gets)
    idx = {id(r["d"]): i for i, r in enumerate(st.gets) if r["d"] is not None}
    return (tuple(v - st.nput for v in getattr(q, "pending", ())),
            tuple((idx.get(id(d), 99) - ng, d.called) for d in getattr(q, "waiting", ())),
            tuple((g - ng, st.m_kind[g]) for g in st.m_waiting))


def shards(tier, seed):
    return [(s, b) for s in LIMS for b in LIMS]


def run_shard(shard, tier, seed):
    size, backlog = shard
    depth = 8 if tier == "quick" else 10
    stats = Stats()

    def on_state(st, hist):
        if st.flags:
            stats.nt((shard, canon(st)))
        for f in st.flags:
            stats.outcome(f)
        stats.outcome("delivered" if any(e[0] == "deliver" for e in st.rlog) else "nothing-delivered")

    res = bfs(lambda: St(size, backlog), apply, enabled, canon, invariant, depth, on_state=on_state)
    stats.add_bfs(res, {"config": [size, backlog]})
    stats.samples = [{"config": [size, backlog], "history": h} for h in res.samples[:2]]
    return stats


def replay(w):
    size, backlog = w["config"]
    st = St(size, backlog)
    for ev in w["history"]:
        apply(st, tuple(ev))
    return invariant(st, w["history"])
