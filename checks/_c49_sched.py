"""C49 part E2: the real pool construction (Team + LockWorker + ThreadWorker) and ThreadPool under
the controlled scheduler.  Lock/Queue/Thread are replaced by cooperative versions whose operations
are the scheduling points; everything else is the real code."""
from mc.choice import explore, shard_prefixes, Chooser
from mc.sched import Sched, CoopLock, CoopQueue
from mc.runner import Stats

class TaskAbort(BaseException):
    """raised by a task: its outcome must still be reported (ok=False) exactly once"""


# (max threads, number of submitters, stop?, preemption bound quick, thorough)
CONFIGS = [(1, 2, True), (2, 2, True), (1, 1, True),
           # the first attempt to start a pool thread fails ("can't start new thread"): the submitter sees the
           # exception; what the same thread submits afterwards must be handled as usual
           (1, 1, True, True), (2, 2, True, True)]


def run_one(ch, maxthreads, nsub, with_stop, failfirst=False):
    from twisted._threads import _pool, AlreadyQuit
    from twisted.python import threadpool
    s = Sched(ch, max_steps=600)
    bad = []
    pool_threads = []
    start_failed = []
    ntasks = nsub * (2 if failfirst else 1)
    live = {"n": 0, "max": 0}

    class CoopThread:
        def __init__(self, target=None, name=None, **kw):
            self.target, self.name, self.t = target, name, None

        def start(self):
            if failfirst and not start_failed:
                start_failed.append(1)
                s.point("thread.start-fails")
                raise RuntimeError("can't start new thread")

            def body():
                live["n"] += 1
                live["max"] = max(live["max"], live["n"])
                try:
                    self.target()
                finally:
                    live["n"] -= 1
            s.point("thread.start")
            self.t = s.spawn("pool-%d" % len(pool_threads), body)
            pool_threads.append(self)

        def join(self, timeout=None):
            s.point("thread.join")
            if self.t is not None and self.t.state != "done":
                s.wait(lambda: self.t.state == "done", "thread.join-wait")

        def is_alive(self):
            return self.t is not None and self.t.state != "done"

    # Team keeps idle workers in a set: give the (otherwise unmodified) ThreadWorker a creation-order
    # hash so that set.pop() does not depend on memory addresses (replay determinism)
    created = [0]

    class OrderedThreadWorker(_pool.ThreadWorker):
        def __init__(self, *a, **kw):
            created[0] += 1
            self._verif_order = created[0]
            super().__init__(*a, **kw)

        def __hash__(self):
            return self._verif_order

    saved = (_pool.Lock, _pool.Queue, _pool.ThreadWorker)
    _pool.Lock = lambda: CoopLock(s, "coordinator-lock")
    _pool.Queue = lambda: CoopQueue(s, "worker-queue")
    _pool.ThreadWorker = OrderedThreadWorker
    try:
        tp = threadpool.ThreadPool(minthreads=0, maxthreads=maxthreads, name="x")
        tp.threadFactory = CoopThread
    finally:
        pass
    rec = [{"runs": 0, "results": [], "submit": None, "returned_at": None} for _ in range(ntasks)]
    clock = {"start_returned": False, "stop_invoked_at": None, "stop_returned": False, "alive_at_stop_return": None}

    def submitter(j):
        def body():
            if failfirst:
                # submissions made before start() are only backlogged; here the failing creation has to
                # happen inside the submitter's own call
                s.wait(lambda: clock["start_returned"], "wait-for-start")
            for i in ([j, j + nsub] if failfirst else [j]):
                one(i)

        def one(i):
            s.point("submit")

            def work():
                rec[i]["runs"] += 1
                if i % 2:
                    # odd tasks fail; every other failing task with an exception that is not an Exception subclass
                    raise (TaskAbort if i % 4 == 1 else RuntimeError)("boom")
                return i

            def onResult(ok, result):
                rec[i]["results"].append(bool(ok))
            try:
                tp.callInThreadWithCallback(onResult, work)
                rec[i]["submit"] = "returned"
            except AlreadyQuit:
                rec[i]["submit"] = "AlreadyQuit"
            except AssertionError as e:
                rec[i]["submit"] = "AssertionError"
            except RuntimeError as e:
                if not (failfirst and "can't start new thread" in str(e)):
                    raise
                rec[i]["submit"] = "creation-failed"
            rec[i]["returned_at"] = s.steps
        return body

    def main():
        tp.start()
        clock["start_returned"] = True
        s.point("main-between-start-and-stop")
        if with_stop:
            clock["stop_invoked_at"] = s.steps
            tp.stop()
            clock["stop_returned"] = True
            clock["alive_at_stop_return"] = [t.name for t in pool_threads if t.is_alive()]
            clock["threads_at_stop_return"] = len(pool_threads)

    try:
        s.spawn("main", main)
        for i in range(nsub):
            s.spawn("sub%d" % i, submitter(i))
        s.run()
    finally:
        _pool.Lock, _pool.Queue, _pool.ThreadWorker = saved
    for name, exc in s.errors():
        bad.append(("thread-died:%s:%s" % (name.split("-")[0].rstrip("0123456789"), type(exc).__name__), "%s: %r" % (name, exc)))
    if s.deadlock:
        bad.append(("deadlock", repr(s.deadlock)))
    if s.horizon_hit:
        bad.append(("livelock", "step horizon"))
    if live["max"] > maxthreads:
        bad.append(("more-threads-than-limit", "%d pool threads alive at once, max %d" % (live["max"], maxthreads)))
    for i, r in enumerate(rec):
        if r["runs"] > 1:
            bad.append(("task-ran-twice", "task %d ran %d times" % (i, r["runs"])))
        if len(r["results"]) > 1:
            bad.append(("onResult-called-twice", "task %d reported %d times" % (i, len(r["results"]))))
        if r["results"] and r["results"][0] != (i % 2 == 0):
            bad.append(("onResult-wrong-outcome", "task %d reported ok=%r" % (i, r["results"][0])))
        before_stop = r["submit"] == "returned" and (clock["stop_invoked_at"] is None or (r["returned_at"] is not None and r["returned_at"] < clock["stop_invoked_at"]))
        if before_stop and not s.deadlock and not s.horizon_hit and with_stop and len(r["results"]) != 1:
            bad.append(("accepted-call-never-reported", "task %d was accepted before stop() was invoked but reported %d times" % (i, len(r["results"]))))
        if r["submit"] != "returned" and (r["runs"] or r["results"]):
            bad.append(("refused-call-ran", "task %d: submit %s but it ran" % (i, r["submit"])))
    if with_stop and clock["stop_returned"]:
        if clock["alive_at_stop_return"]:
            bad.append(("stop-returned-with-live-threads", "stop() returned while %s still ran" % clock["alive_at_stop_return"]))
        if len(pool_threads) > clock["threads_at_stop_return"]:
            bad.append(("thread-started-after-stop-returned", "%d pool threads were started after stop() had returned" % (len(pool_threads) - clock["threads_at_stop_return"])))
    outcome = (tuple((r["submit"], r["runs"], len(r["results"])) for r in rec), len(pool_threads))
    return bad, outcome, s.steps, s.multi_enabled_points


def shards(tier):
    out = []
    for cfg in CONFIGS:
        bound = (2 if cfg[0] == 1 else 1) if tier == "quick" else 3
        if len(cfg) > 3 and tier != "quick":
            bound = 2       # failing-thread-start configurations: bound 3 multiplies the thorough tier's cost several times
        for pre, dev in shard_prefixes(lambda c: run_one(c, *cfg), 4, bound):
            out.append((cfg, pre, dev, bound))
    return out


def run_shard(shard, tier):
    cfg, pre, dev, bound = shard
    cfg = tuple(cfg)
    st = Stats()
    st.exhaustive = False
    seen = set()
    for ch, (bad, outcome, steps, multi) in explore(lambda c: run_one(c, *cfg), bound, prefix=pre, prefix_dev=dev):
        st.evaluations += 1
        st.states += steps
        st.transitions += steps
        st.traces += 1
        st.count("E2_schedules")
        if multi:
            st.nt(("E2", cfg, tuple(ch.choices)))
        st.outcome("E2:" + repr(outcome))
        for sig, d in bad:
            sig = "E2:" + sig
            if sig not in seen:
                seen.add(sig)
                st.violation(sig, {"what": d, "outcome": repr(outcome)}, {"part": "E2", "config": list(cfg), "schedule": ch.choices})
    return st


def replay(w):
    ch = Chooser(w["schedule"])
    return [("E2:" + s, d) for s, d in run_one(ch, *w["config"])[0]]
