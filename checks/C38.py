"""C38 Telnet carries application bytes transparently.

Real TelnetTransport (sender) -> wire -> real TelnetTransport (receiver).  The application side writes every short
string over a byte alphabet taken from the parser's special cases through every grouping of write()/writeSequence()
calls; the wire stream is delivered to a fresh receiver in every segmentation.  Oracle (separate, boring): the peer
application must get exactly the bytes, no command/negotiation callback may fire, and every LF must travel as CR LF.
"""
from twisted.conch import telnet   # imported once in the parent; workers are forked
from mc.choice import compositions, cuts
from mc.net import MemTransport
from mc.runner import Stats

ID = "C38"
LEVEL = "exploration"
TECHNIQUE = "exhaustive inputs x call groupings x wire segmentations, reference escaping for attribution"
RULE = ("every application string of length <= N over {IAC 0xFF, LF, 'a', NUL, SE 0xF0, SB 0xFA, WILL 0xFB, NOP 0xF1} "
        "(no CR, as the statement says) x every split of the string into consecutive calls x every call being "
        "write(b), writeSequence([b]) or writeSequence(single bytes) on a real TelnetTransport; the resulting wire bytes "
        "are delivered to a fresh real TelnetTransport in every composition (wire <= 8 bytes) or whole / byte-at-a-time / "
        "every <=2-cut segmentation (longer). Verdict: peer protocol.dataReceived bytes == written bytes, no "
        "commandReceived / negotiate / unhandled* / enable* callback, nothing written back by the receiver, no exception, "
        "and no LF on the wire without a preceding CR. non-trivial = distinct (string, grouping) whose string contains IAC or LF, "
        "and distinct (wire, segmentation) with a cut strictly inside an escape pair (FF FF or CR LF)")
BOUNDS = {"quick": "N=4 (4681 strings, 8 symbols), all groupings x 3 call kinds, all wire compositions",
          "thorough": "N<=4 over 8 symbols + N=5 over the first 7 symbols (21488 strings), all groupings x 3 call kinds, all wire compositions <= 8 bytes else <= 2 cuts"}
ASSUMPTIONS = [
    "sender and receiver share no state, so the receiver is run once per distinct (wire, segmentation) and its result is "
    "reused for every (string, grouping) that produced the same wire bytes (pure memoisation of a deterministic fresh object)",
    "a violation is attributed to write/writeSequence when that call's wire bytes differ from the reference escaping "
    "(IAC doubled, LF -> CR LF), otherwise to the receiving state machine; the verdict itself never depends on the reference wire",
]
MIN = {"quick": {"evaluations": 340000, "nontrivial": 210000, "outcomes": 4},
       "thorough": {"evaluations": 4800000, "nontrivial": 3500000, "outcomes": 4}}

IAC, LF, CR = 0xFF, 0x0A, 0x0D
ALPHA = [0xFF, 0x0A, 0x61, 0x00, 0xF0, 0xFA, 0xFB, 0xF1]


# ---------------------------------------------------------------- reference
def ref_escape(d):
    out = bytearray()
    for b in d:
        if b == IAC:
            out += b"\xff\xff"
        elif b == LF:
            out += b"\r\n"
        else:
            out.append(b)
    return bytes(out)


def only_lf(d):
    return d.replace(b"\n", b"\r\n")


def only_iac(d):
    return d.replace(b"\xff", b"\xff\xff")


# ---------------------------------------------------------------- real objects
class AppProto(telnet.TelnetProtocol):
    def __init__(self, log):
        self.log = log
        self.got = []

    def dataReceived(self, data):
        self.got.append(bytes(data))

    def unhandledCommand(self, command, argument):
        self.log.append(("unhandledCommand", command, argument))

    def unhandledSubnegotiation(self, command, data):
        self.log.append(("unhandledSubnegotiation", command, tuple(data)))

    def enableLocal(self, option):
        self.log.append(("enableLocal", option))
        return False

    def enableRemote(self, option):
        self.log.append(("enableRemote", option))
        return False

    def disableLocal(self, option):
        self.log.append(("disableLocal", option))

    def disableRemote(self, option):
        self.log.append(("disableRemote", option))


class Receiver(telnet.TelnetTransport):
    """Real TelnetTransport; only records the documented callbacks before delegating to the real ones."""

    def commandReceived(self, command, argument):
        self.cmdlog.append(("commandReceived", command, argument))
        return telnet.TelnetTransport.commandReceived(self, command, argument)

    def negotiate(self, data):
        self.cmdlog.append(("negotiate", tuple(data)))
        return telnet.TelnetTransport.negotiate(self, data)


def make_receiver():
    log = []
    r = Receiver(AppProto, log)
    r.cmdlog = log
    t = MemTransport()
    r.makeConnection(t)
    return r, t, log


def run_sender(calls):
    """calls: list of (mode, bytes).  Returns (list of per-call wire bytes, exception-or-None)."""
    s = telnet.TelnetTransport(AppProto, [])
    t = MemTransport()
    s.makeConnection(t)
    app_transport = s.protocol.transport    # what the application protocol writes to
    per_call = []
    for mode, d in calls:
        before = len(t.written)
        try:
            if mode == "w":
                app_transport.write(d)
            elif mode == "s1":
                app_transport.writeSequence([d])
            else:
                app_transport.writeSequence([d[i:i + 1] for i in range(len(d))])
        except Exception as e:
            return per_call, (mode, e)
        per_call.append(b"".join(t.written[before:]))
    return per_call, None


def run_receiver(segments):
    r, t, log = make_receiver()
    exc = None
    try:
        for seg in segments:
            r.dataReceived(seg)
    except Exception as e:
        exc = type(e).__name__
    return (b"".join(r.protocol.got), tuple(log[:4]), bool(t.written), exc)


def wire_segmentations(wire):
    n = len(wire)
    if n <= 8:
        for comp in compositions(n):
            out, i = [], 0
            for c in comp:
                out.append(wire[i:i + c])
                i += c
            yield tuple(out)
        return
    for seg in cuts(wire, 2):
        yield seg
    yield tuple(wire[i:i + 1] for i in range(n))


def inside_escape(wire, seg):
    pos = 0
    for part in seg[:-1]:
        pos += len(part)
        a, b = wire[pos - 1], wire[pos]
        if (a == IAC and b == IAC) or (a == CR and b == LF):
            return True
    return False


# ---------------------------------------------------------------- verdict
def receiver_results(wire, memo, st):
    """distinct receiver results over all segmentations: {result: example segmentation}"""
    r = memo.get(wire)
    if r is None:
        r = {}
        for seg in wire_segmentations(wire):
            st.evaluations += 1
            if len(seg) > 1 and inside_escape(wire, seg):
                st.nt(("recv", wire, tuple(len(p) for p in seg)))
            res = run_receiver(seg)
            if res not in r:
                r[res] = seg
        memo[wire] = r
    return r


def judge(s, calls, per_call, send_exc, results):
    """Returns list of (sig, detail, segmentation-or-None)."""
    bad = []
    if send_exc is not None:
        mode, e = send_exc
        api = "write" if mode == "w" else "writeSequence"
        return [("TelnetTransport.%s:exception:%s" % (api, type(e).__name__), "%r: %r" % (calls, e), None)]
    wire = b"".join(per_call)
    # (a) LF travels as CR LF
    lf_bad = any(wire[i] == LF and (i == 0 or wire[i - 1] != CR) for i in range(len(wire)))
    # (b) end to end
    e2e = []
    for (got, log, wrote_back, exc), seg in results.items():
        if exc is not None:
            e2e.append(("exception:" + exc, seg, got, log))
        elif log or wrote_back:
            e2e.append(("app-data-taken-as-command", seg, got, log))
        elif got != s:
            e2e.append(("app-bytes-lost-or-altered", seg, got, log))
    if not lf_bad and not e2e:
        return []
    # attribution
    differing = [(m, d, w) for (m, d), w in zip(calls, per_call) if w != ref_escape(d)]
    if differing:
        seen = set()
        for m, d, w in differing:
            api = "TelnetTransport.write" if m == "w" else "TelnetTransport.writeSequence"
            kinds = []
            shape_iac = IAC in d and w in (only_lf(d), d)
            shape_lf = LF in d and w in (only_iac(d), d)
            if shape_iac and e2e:
                kinds.append("iac-not-escaped")
            if shape_lf and lf_bad:
                kinds.append("lf-not-sent-as-crlf")
            if not shape_iac and not shape_lf:
                kinds.append("wire-bytes-wrong")
            for k in kinds:
                if (api, k) in seen:
                    continue
                seen.add((api, k))
                seg = e2e[0][1] if (e2e and k != "lf-not-sent-as-crlf") else None
                bad.append(("%s:%s" % (api, k),
                            "app wrote %r as %r; call %r put %r on the wire (reference %r); peer app got %r, callbacks %r" % (
                                s, calls, (m, d), w, ref_escape(d), e2e[0][2] if e2e else s, e2e[0][3] if e2e else ()), seg))
        if bad:
            return bad
    whole_ok = not any(len(seg) == 1 for _, seg, _, _ in e2e)
    if lf_bad:
        bad.append(("TelnetTransport:lf-not-sent-as-crlf", "app wrote %r as %r; wire %r" % (s, calls, wire), None))
    for kind in sorted(set(k for k, _, _, _ in e2e)):
        k, seg, got, log = min((x for x in e2e if x[0] == kind), key=lambda x: len(x[1]))
        bad.append(("Telnet.dataReceived:%s%s" % (kind, ":only-when-split" if whole_ok else ""),
                    "wire %r delivered as %r: peer app got %r (wanted %r), callbacks %r" % (wire, seg, got, s, log), seg))
    return bad


def groupings(s):
    """every split of s into consecutive calls x every call kind"""
    n = len(s)
    if n == 0:
        yield ()
        yield (("w", b""),)
        yield (("s1", b""),)
        return
    for comp in compositions(n):
        parts, i = [], 0
        for c in comp:
            parts.append(s[i:i + c])
            i += c
        stack = [()]
        for p in parts:
            modes = ("w", "s1", "sb") if len(p) > 1 else ("w", "s1")
            stack = [g + ((m, p),) for g in stack for m in modes]
        for g in stack:
            yield g


def shards(tier, seed):
    out = [["short"]]
    for a in range(len(ALPHA)):
        for b in range(len(ALPHA)):
            out.append(["pre", a, b])
    return out


def _strings(shard, tier):
    import itertools
    if shard[0] == "short":
        yield b""
        for a in ALPHA:
            yield bytes([a])
        return
    pre = bytes([ALPHA[shard[1]], ALPHA[shard[2]]])
    for n in range(0, 3):
        for rest in itertools.product(ALPHA, repeat=n):
            yield pre + bytes(rest)
    if tier != "quick" and shard[1] < 7 and shard[2] < 7:
        for rest in itertools.product(ALPHA[:7], repeat=3):
            yield pre + bytes(rest)


def run_shard(shard, tier, seed):
    st = Stats()
    memo = {}
    for s in _strings(shard, tier):
        special = IAC in s or LF in s
        for calls in groupings(s):
            st.evaluations += 1
            per_call, send_exc = run_sender(calls)
            wire = b"".join(per_call)
            results = receiver_results(wire, memo, st) if send_exc is None else {}
            if special:
                st.nt(("send", s, calls))
            bad = judge(s, calls, per_call, send_exc, results)
            if not bad:
                st.outcome("transparent" + (":iac-doubled" if b"\xff\xff" in wire else "") + (":crlf" if b"\r\n" in wire else ""))
            if st.evaluations % 20011 == 1:
                st.sample({"s": s, "calls": [[m, d] for m, d in calls], "wire": wire})
            for sig, detail, seg in bad:
                st.outcome(sig)
                st.violation(sig, detail, {"s": s, "calls": [[m, d] for m, d in calls],
                                           "seg": [len(p) for p in seg] if seg else None})
        if len(memo) > 4000:
            memo.clear()
    return st


def replay(w):
    s = w["s"]
    calls = tuple((m, d) for m, d in w["calls"])
    per_call, send_exc = run_sender(calls)
    wire = b"".join(per_call)
    if w.get("seg"):
        seg, i = [], 0
        for c in w["seg"]:
            seg.append(wire[i:i + c])
            i += c
        results = {run_receiver((wire,)): (wire,)}     # the whole delivery decides the ":only-when-split" suffix
        results.setdefault(run_receiver(tuple(seg)), tuple(seg))
    else:
        results = receiver_results(wire, {}, Stats())
    return [(sig, detail) for sig, detail, _ in judge(s, calls, per_call, send_exc, results)]
