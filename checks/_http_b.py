"""Shared helpers for C20/C21 (twisted.web.http server side) and C23/C24
(twisted.web._newclient).  h11 is the independent parser of emitted bytes."""
from __future__ import annotations
import re

import h11

TCHAR = frozenset(b"!#$%&'*+-.^_`|~0123456789ABCDEFGHIJKLMNOPQRSTUVWXYZabcdefghijklmnopqrstuvwxyz")

_RUN = re.compile(rb"[\r\n ]+")
_RUN_SEMI = re.compile(rb"[\r\n; ]+")


def canon_value(v):
    """Field value up to what the statement leaves open: every run of line breaks /
    spaces is one space (a line break may become one or two spaces, a trailing one may
    vanish with the optional whitespace), surrounding SP/HT is not part of the value."""
    return _RUN.sub(b" ", v).strip(b" \t")


def canon_cookie(v):
    """Like canon_value but ';' is also a separator (a ';' inside a cookie component may
    legitimately be kept, replaced by a space or followed by one)."""
    return _RUN_SEMI.sub(b" ", v).strip(b" \t")


def is_token(name):
    """Reference: RFC 9110 token, for str or bytes."""
    if isinstance(name, str):
        try:
            name = name.encode("ascii")
        except UnicodeEncodeError:
            return False
    return len(name) > 0 and all(c in TCHAR for c in name)


def to_bytes_utf8(v):
    return v.encode("utf-8") if isinstance(v, str) else bytes(v)


def sym_class(*vals):
    """Coarse class of the hostile content of some input symbols (for signatures)."""
    out = set()
    for v in vals:
        if v is None or isinstance(v, (bool, int)):
            continue
        if isinstance(v, (list, tuple)):
            c = sym_class(*v)
            if c != "plain":
                out.update(c.split("+"))
            continue
        if isinstance(v, dict):
            c = sym_class(*v.values())
            if c != "plain":
                out.update(c.split("+"))
            continue
        b = v.encode("utf-8", "surrogatepass") if isinstance(v, str) else bytes(v)
        if b"\r" in b or b"\n" in b:
            out.add("line-break")
        if b"\x00" in b:
            out.add("nul")
        if any(c >= 0x80 for c in b):
            out.add("non-ascii")
    return "+".join(sorted(out)) or "plain"


class Parsed:
    """One HTTP message as the independent parser saw it."""
    __slots__ = ("status", "reason", "version", "headers", "body", "method", "target", "complete")

    def __init__(self):
        self.status = None
        self.reason = None
        self.version = None
        self.headers = []
        self.body = b""
        self.method = None
        self.target = None
        self.complete = False

    def get(self, name):
        name = name.lower()
        return [v for (n, v) in self.headers if n == name]

    def as_tuple(self):
        return (self.status, self.method, self.target, tuple(self.headers), self.body, self.complete)


def parse_responses(data, methods, eof):
    """Parse ``data`` as the responses to requests with the given methods (h11 client
    role).  Returns (responses, leftover_bytes, error_or_None, informational_count).
    A response whose end was not reached is returned with complete=False."""
    conn = h11.Connection(h11.CLIENT, max_incomplete_event_size=1 << 22)
    out = []
    info = 0
    try:
        if data:
            conn.receive_data(data)     # (an empty receive_data means EOF to h11)
        if eof:
            conn.receive_data(b"")
        for i, m in enumerate(methods):
            if i:
                if conn.our_state is not h11.DONE or conn.their_state is not h11.DONE:
                    break
                conn.start_next_cycle()
            conn.send(h11.Request(method=m, target="/", headers=[("Host", "x")]))
            conn.send(h11.EndOfMessage())
            cur = None
            while True:
                ev = conn.next_event()
                if ev is h11.NEED_DATA or ev is h11.PAUSED:
                    if cur is not None:
                        out.append(cur)
                    return out, bytes(conn.trailing_data[0]), None, info
                if isinstance(ev, h11.InformationalResponse):
                    info += 1
                elif isinstance(ev, h11.Response):
                    cur = Parsed()
                    cur.status = ev.status_code
                    cur.reason = bytes(ev.reason)
                    cur.version = bytes(ev.http_version)
                    cur.headers = [(bytes(n), bytes(v)) for n, v in ev.headers]
                elif isinstance(ev, h11.Data):
                    cur.body += bytes(ev.data)
                elif isinstance(ev, h11.EndOfMessage):
                    cur.complete = True
                    cur.headers += [(b"trailer:" + bytes(n), bytes(v)) for n, v in ev.headers]
                    out.append(cur)
                    break
                elif isinstance(ev, h11.ConnectionClosed):
                    if cur is not None:
                        out.append(cur)
                    return out, b"", None, info
        left = bytes(conn.trailing_data[0])
        return out, left, None, info
    except h11.ProtocolError as e:
        return out, b"", "%s: %s" % (type(e).__name__, e), info


def parse_request(data, eof=False):
    """Parse ``data`` as exactly one request (h11 server role).
    Returns (Parsed or None, leftover, error)."""
    conn = h11.Connection(h11.SERVER, max_incomplete_event_size=1 << 22)
    cur = None
    try:
        if data:
            conn.receive_data(data)
        if eof:
            conn.receive_data(b"")
        while True:
            ev = conn.next_event()
            if ev is h11.NEED_DATA or ev is h11.PAUSED:
                break
            if isinstance(ev, h11.Request):
                cur = Parsed()
                cur.method = bytes(ev.method)
                cur.target = bytes(ev.target)
                cur.version = bytes(ev.http_version)
                cur.headers = [(bytes(n), bytes(v)) for n, v in ev.headers]
            elif isinstance(ev, h11.Data):
                cur.body += bytes(ev.data)
            elif isinstance(ev, h11.EndOfMessage):
                cur.complete = True
                cur.headers += [(b"trailer:" + bytes(n), bytes(v)) for n, v in ev.headers]
                break
            elif isinstance(ev, h11.ConnectionClosed):
                break
        return cur, bytes(conn.trailing_data[0]), None
    except h11.ProtocolError as e:
        return cur, b"", "%s: %s" % (type(e).__name__, e)


def tup(x):
    """Lists (from a JSON witness) back to tuples, recursively."""
    if isinstance(x, (list, tuple)):
        return tuple(tup(i) for i in x)
    return x


def slice_cases(cases, shard):
    k, n = shard
    return cases[k::n]
