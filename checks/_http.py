"""Shared helper for C18 / C19 / C22 (twisted.web.http server side).

* ``run_stream`` drives a real ``HTTPChannel`` (wired to ``mc.net.MemTransport``, a
  ``task.Clock`` for ``callLater`` and a recording ``Request`` subclass) with a
  list of deliveries and returns what the application and the peer saw.
* ``ref_chunked`` is a boring, strict RFC 9112 section 7.1 decoder used as the oracle
  for chunked bodies.  It is written from the grammar, not from Twisted.
* the request-stream reference parser (``ref_http``) lives in C19.py, its only user.
"""
from __future__ import annotations

import re

# --------------------------------------------------------------------------
# driving the real channel
# --------------------------------------------------------------------------

_cls_cache = {}
MAX_REQUESTS = 24


class Runaway(Exception):
    """The channel keeps dispatching requests that were never sent (recorded as an observation)."""


def _classes():
    if _cls_cache:
        return _cls_cache["rq"], _cls_cache["ch"]
    from twisted.web import http

    class RecRequest(http.Request):
        """Records what the application is given; answers deterministically."""

        def process(self):
            ch = self.channel
            if len(ch.mc_log) >= MAX_REQUESTS:
                # no stream of the grammars holds that many requests: the channel is replaying input
                raise Runaway("more than %d requests dispatched" % MAX_REQUESTS)
            body = self.content.read()
            hdrs = tuple((bytes(k), tuple(bytes(x) for x in v))
                         for k, v in self.requestHeaders.getAllRawHeaders())
            ch.mc_log.append((bytes(self.method), bytes(self.uri), bytes(self.clientproto), hdrs, body))
            self.mc_index = len(ch.mc_log)
            self.mc_blen = len(body)
            if ch.mc_mode == "imm":
                respond(self)
            else:
                ch.mc_pending.append(self)

    class RecChannel(http.HTTPChannel):
        requestFactory = RecRequest
        timeOut = None

    _cls_cache["rq"], _cls_cache["ch"] = RecRequest, RecChannel
    return RecRequest, RecChannel


def respond(req):
    """Fixed response: a function of the request only (index, method, body length)."""
    payload = b"r%d:%d" % (req.mc_index, req.mc_blen)
    if req.method == b"POST":
        req.setHeader(b"content-length", b"%d" % len(payload))   # identity-framed response
        req.write(payload)
    else:
        req.write(payload)                                        # chunked on 1.1, raw on 1.0
    req.finish()


class Run:
    __slots__ = ("requests", "written", "closed", "delivered", "crash", "events")

    def key(self):
        return (tuple(self.requests), self.written, self.closed, self.crash)


def make_channel(mode="imm", limits=None):
    from twisted.internet import task
    from mc.net import MemTransport, connect
    _, RecChannel = _classes()
    ch = RecChannel()
    ch.mc_log = []
    ch.mc_pending = []
    ch.mc_mode = mode
    clock = task.Clock()
    ch.callLater = clock.callLater
    if limits:
        for k, v in limits.items():
            setattr(ch, k, v)          # documented ivars only: MAX_LENGTH, maxHeaders, totalHeadersSize
    tr = connect(ch, MemTransport())
    return ch, tr


def _finish_one(ch):
    if ch.mc_pending:
        respond(ch.mc_pending.pop(0))
        return True
    return False


def run_stream(segments, mode="imm", limits=None):
    """Deliver ``segments`` to a fresh channel.

    mode "imm": the resource answers inside ``process()``.
    mode "next": the answer is deferred to the next event (before the next
                 delivery, or after the last one).
    mode "end":  every answer is deferred until all input has been delivered
                 (or the transport asked us to pause, as a real peer would
                 experience it).
    Delivery stops, like a real reactor, once the server asked to close.
    """
    ch, tr = make_channel(mode, limits)
    r = Run()
    r.crash = None
    n = 0
    try:
        for seg in segments:
            if tr.disconnecting:
                break
            if mode == "next":
                _finish_one(ch)
                if tr.disconnecting:
                    break
            while tr.producerState == "paused" and _finish_one(ch):
                pass
            ch.dataReceived(seg)
            n += 1
        guard = 0
        while _finish_one(ch):
            guard += 1
            if guard > 1000:
                raise AssertionError("harness: endless pending requests")
    except AssertionError:
        raise
    except Exception as e:  # an exception escaping dataReceived is an observation, judged by the check
        import traceback
        tb = traceback.extract_tb(e.__traceback__)
        r.crash = "%s@%s" % (type(e).__name__, tb[-1].name if tb else "?")
    r.requests = list(ch.mc_log)
    r.written = tr.value()
    r.closed = bool(tr.disconnecting)
    r.delivered = n
    r.events = [e for e in tr.events if e[0] in ("write-after-close",)]
    return r


_STATUS = re.compile(rb"HTTP/1\.[01] (\d\d\d) [^\r\n]*\r\n")


def split_responses(out):
    """Status codes of the responses in ``out`` (responses are ours, so framing is
    known: 1xx/400 have no body, ours carry content-length or chunked or run to the end)."""
    pos, codes = 0, []
    while pos < len(out):
        m = _STATUS.match(out, pos)
        if not m:
            return codes + ["garbled"]
        code = int(m.group(1))
        he = out.find(b"\r\n\r\n", m.end() - 2)
        if he < 0:
            return codes + ["garbled"]
        head = out[m.end():he + 2].lower()
        pos = he + 4
        codes.append(code)
        if code == 400 or code < 200:
            continue
        m2 = re.search(rb"content-length: (\d+)\r\n", head)
        if m2:
            pos += int(m2.group(1))
        elif b"transfer-encoding: chunked\r\n" in head:
            rc = ref_chunked(out, pos)
            if rc["status"] != "ok":
                return codes + ["garbled"]
            pos = rc["end"]
        else:
            pos = len(out)
    return codes


# --------------------------------------------------------------------------
# reference: chunked transfer coding, RFC 9112 section 7.1
# --------------------------------------------------------------------------

HEX = frozenset(b"0123456789abcdefABCDEF")
TCHAR = frozenset(b"!#$%&'*+-.^_`|~0123456789ABCDEFGHIJKLMNOPQRSTUVWXYZabcdefghijklmnopqrstuvwxyz")
WS = b" \t"


def is_token(b):
    return len(b) > 0 and all(c in TCHAR for c in b)


def _field_byte_ok(c):
    # field-vchar / SP / HTAB
    return c == 9 or 32 <= c <= 126 or c >= 128


def _parse_ext(ext, feats):
    """ext starts with ';' (or BWS then ';').  Returns 'ok' | 'malformed' | 'bad-byte'."""
    for c in ext:
        if not _field_byte_ok(c):
            return "bad-byte"
    i, n = 0, len(ext)
    strict = True

    def bws(i):
        j = i
        while j < n and ext[j] in WS:
            j += 1
        return j

    while i < n:
        j = bws(i)
        if j != i:
            strict = False
        i = j
        if i >= n or ext[i] != 0x3B:
            return "malformed"
        i += 1
        j = bws(i)
        if j != i:
            strict = False
        i = j
        j = i
        while j < n and ext[j] in TCHAR:
            j += 1
        if j == i:
            return "malformed"
        i = j
        j = bws(i)
        if j < n and ext[j] == 0x3D:          # '='
            if j != i:
                strict = False
            i = j + 1
            j = bws(i)
            if j != i:
                strict = False
            i = j
            if i < n and ext[i] == 0x22:      # quoted-string
                i += 1
                closed = False
                while i < n:
                    c = ext[i]
                    if c == 0x22:
                        closed = True
                        i += 1
                        break
                    if c == 0x5C:             # quoted-pair
                        if i + 1 >= n:
                            return "malformed"
                        feats.add("ext-quoted-pair")
                        # Twisted deliberately treats the backslash as a disallowed
                        # extension byte (pinned by its own test_extensionsMalformed,
                        # GHSA-c2jg-hw38-jrqq hardening) and the statement lets
                        # "disallowed bytes in extensions" be rejected: either verdict is fine.
                        strict = False
                        i += 2
                        continue
                    i += 1
                if not closed:
                    return "malformed"
                feats.add("ext-quoted-string")
            else:
                j = i
                while j < n and ext[j] in TCHAR:
                    j += 1
                if j == i:
                    return "malformed"
                i = j
                feats.add("ext-token-value")
        else:
            feats.add("ext-name")
    return "ok" if strict else "malformed"


def ref_chunked(buf, pos=0):
    """Strict decoder.  Returns a dict:

    status   'ok' | 'incomplete' | 'bad'
    body     decoded bytes (so far)
    end      offset just after the final CRLF (status ok)
    cls      for 'bad': 'size-not-hex' | 'no-crlf-after-data' | 'ext-bad-byte'
             (exactly the three classes the property statements name)
    lenient  notes on constructs the grammar does not allow a sender to emit but
             which a recipient may tolerate (decoded under the tolerant reading)
    feats    notable *valid* constructs seen
    """
    body = bytearray()
    lenient, feats = [], set()
    res = {"status": "incomplete", "body": b"", "end": None, "cls": None,
           "lenient": lenient, "feats": feats, "at": pos}
    n = len(buf)
    while True:
        eol = buf.find(b"\r\n", pos)
        res["at"] = pos
        if eol < 0:
            res["body"] = bytes(body)
            return res
        line = buf[pos:eol]
        semi = line.find(b";")
        size_f = line if semi < 0 else line[:semi]
        ext = b"" if semi < 0 else line[semi:]
        if not (size_f and all(c in HEX for c in size_f)):
            core = size_f.rstrip(WS)
            if ext and core and all(c in HEX for c in core):
                # "3 ;x": RFC 9112 7.1.1 chunk-ext = *( BWS ";" ...) lets a recipient parse and drop the
                # bad whitespace before ";" -- a choice.  "3 " with no extension is simply not hexadecimal.
                lenient.append("size-trailing-ws")
                size_f = core
            else:
                res.update(status="bad", cls="size-not-hex", body=bytes(body))
                return res
        if ext:
            e = _parse_ext(ext, feats)
            if e == "bad-byte":
                res.update(status="bad", cls="ext-bad-byte", body=bytes(body))
                return res
            if e == "malformed":
                lenient.append("ext-malformed")
        if len(size_f) > 1 and size_f[0] == 0x30:
            feats.add("size-leading-zero")
        size = int(size_f, 16)
        pos = eol + 2
        if size == 0:
            break
        data = buf[pos:pos + size]
        body += data
        if len(data) < size:
            res["body"] = bytes(body)
            res["at"] = pos
            return res
        pos += size
        tail = buf[pos:pos + 2]
        if len(tail) < 2:
            res["body"] = bytes(body)
            res["at"] = pos
            return res
        if tail != b"\r\n":
            res.update(status="bad", cls="no-crlf-after-data", body=bytes(body), at=pos)
            return res
        pos += 2
    # trailer section
    while True:
        eol = buf.find(b"\r\n", pos)
        res["at"] = pos
        if eol < 0:
            res["body"] = bytes(body)
            return res
        line = buf[pos:eol]
        pos = eol + 2
        if not line:
            res.update(status="ok", body=bytes(body), end=pos)
            return res
        colon = line.find(b":")
        if colon > 0 and is_token(line[:colon]) and all(_field_byte_ok(c) for c in line[colon + 1:]):
            feats.add("trailer")
        else:
            lenient.append("trailer-malformed")


def encode_chunked(chunks, sizefmt="x", exts=None, last=b"0", trailers=()):
    """Test-side encoder (independent of twisted.web.http.toChunk)."""
    out = []
    for i, c in enumerate(chunks):
        assert c
        s = (sizefmt % len(c)) if "%" in sizefmt else format(len(c), sizefmt)
        out.append(s.encode("ascii") + (exts[i] if exts else b"") + b"\r\n" + c + b"\r\n")
    out.append(last + b"\r\n")
    for t in trailers:
        out.append(t + b"\r\n")
    out.append(b"\r\n")
    return b"".join(out)
