"""C04 DeferredList / gatherResults / race: every firing order x outcome mix x flag set x cancel point.

Every case is executed on the real aggregates; a small reference (written from the documentation,
knows nothing about the implementation) is stepped in lock-step and says when the aggregate must
have fired, with which result, what callbacks added later to the inputs see, and which inputs must
have received cancel() while still unfired.
"""
import itertools

from twisted.internet.defer import (CancelledError, Deferred, DeferredList, FailureGroup, FirstError,
                                    AlreadyCalledError, gatherResults, race)
from twisted.python.failure import Failure

from mc.runner import Stats

ID = "C04"
LEVEL = "exploration"
TECHNIQUE = "exhaustive schedule enumeration with lock-step reference"
RULE = ("itertools.product over: list length n; per input {pre-fired ok, pre-fired failure, fired later ok, fired later "
        "failure, already fired but chain suspended on an unfired inner Deferred that later fires ok / fails, already "
        "fired but pause()d with a value / failure and unpaused later}; every permutation of the later firings; aggregate in {DeferredList x 8 flag sets, gatherResults x "
        "consumeErrors, race}; cancel() of the aggregate at no point or after each prefix of the firing sequence; "
        "canceller in {none, no-op, fires a value, fires a failure} for every input that is still unfired when a cancel "
        "can reach it. Each case runs on the real objects; after construction and after every action the aggregate's "
        "fired/unfired status, and at the end its result, the value seen by callbacks added later to every input and "
        "the cancel() calls received by unfired inputs are compared with the reference. "
        "non-trivial = distinct cases with >= 2 inputs in which at least one input fired after construction "
        "(so ordering/index bookkeeping or cancellation was exercised)")
BOUNDS = {"quick": "all 8 input kinds for n = 1..3, the 4 plain kinds for n = 4; 4 canceller kinds for plain n <= 3, else "
                   "none/value/failure; 0 or 1 aggregate cancel at every position",
          "thorough": "all 8 input kinds for n = 1..3 (4 canceller kinds), n = 4 plain (4 canceller kinds) and n = 4 with exactly "
                      "one chained/paused input, n = 5 plain (none/value/failure); 0 or 1 aggregate cancel at every position"}
ASSUMPTIONS = [
    "inputs fire only from the top level (no input fires another input from a callback, cancellers fire only their own Deferred)",
    "when several inputs are already fired at construction time the statement does not say which of them is 'first': "
    "any pre-fired success (fireOnOneCallback / race) or pre-fired failure (fireOnOneErrback / gatherResults) is accepted",
    "after cancel() of the aggregate the result demanded is the one that follows from the inputs' cancellation outcomes; "
    "a plain CancelledError on the aggregate is accepted as well (statement only demands that inputs are cancelled)",
    "cancel() on an input that has fired and whose chain is suspended on an inner Deferred is forwarded to the inner "
    "Deferred and IS demanded (race losers, aggregate cancel); cancel() on an input that has fired and is idle, or fired "
    "and pause()d, is a documented no-op and is not counted; a cancelled aggregate may give up with CancelledError while "
    "a paused input is still pending",
    "canceller that raises: not in the alphabet (statement silent)",
]
MIN = {"quick": {"evaluations": 1000000, "nontrivial": 1000000, "outcomes": 12},
       "thorough": {"evaluations": 20000000, "nontrivial": 2000000, "outcomes": 12}}

KINDS = ("po", "pf", "lo", "lf")
# co/cf: input already fired, its chain suspended on an unfired inner Deferred that later fires ok / fails
#        (cancel() of the input is forwarded to the inner Deferred: observable, must happen)
# uo/uf: input already fired with a value / failure but pause()d; unpause() later delivers it
#        (cancel() of such an input is a documented no-op: nothing to demand)
SPECIAL = ("co", "cf", "uo", "uf")
KINDS8 = KINDS + SPECIAL
PRE = ("po", "pf")
OKKINDS = ("po", "lo", "co", "uo")
PAUSED = ("uo", "uf")
CHAINED = ("co", "cf")
CANC4 = ("none", "noop", "ok", "fail")
CANC3 = ("none", "ok", "fail")
AGGS = [("DL", foc, foe, ce) for foc in (0, 1) for foe in (0, 1) for ce in (0, 1)] + \
       [("gather", 0), ("gather", 1), ("race",)]
NSHARDS = 48


class E(Exception):
    def __init__(self, tag):
        Exception.__init__(self, tag)
        self.tag = tag


class In(Deferred):
    """Input Deferred that counts cancel() calls (public subclassing hook)."""

    def __init__(self, canceller=None):
        Deferred.__init__(self, canceller)
        self.liveCancels = 0
        self.deadCancels = 0

    def cancel(self):
        if self.called:
            self.deadCancels += 1
        else:
            self.liveCancels += 1
        Deferred.cancel(self)


def aggname(agg):
    return {"DL": "DeferredList", "gather": "gatherResults", "race": "race"}[agg[0]]


# ---------------------------------------------------------------- reference

class Ref:
    """Documentation-level model.  state[i] = None | ("ok", payload) | ("fail", exc-tag)."""

    def __init__(self, n, agg, canc, cancellable=None):
        self.n, self.agg, self.canc = n, agg, canc
        self.cancellable = cancellable or [True] * n
        self.state = [None] * n
        self.accept = None          # set of acceptable result descriptors once the aggregate is due
        self.cancels = [0] * n      # cancel() calls an input must receive while unfired
        self.winner = None
        self.cancelled_agg = False

    # payloads
    def val(self, i):
        return ("v", i)

    def cval(self, i):
        return ("cv", i)

    def cancel_outcome(self, i):
        c = self.canc[i]
        if c == "ok":
            return ("ok", self.cval(i))
        if c == "fail":
            return ("fail", ("ce", i))
        return ("fail", "CancelledError")

    def _list(self):
        return ("list", tuple(self.state))

    def construct(self, pre):
        for i in sorted(pre):
            self.state[i] = pre[i]
        a = self.agg
        cands = set()
        if a[0] == "race":
            for i in sorted(pre):
                if pre[i][0] == "ok":
                    cands.add(("win", i, pre[i][1]))
            if cands:
                # whichever pre-fired success is taken, every unfired input is cancelled
                self.winner = "pre"
                for j in range(self.n):
                    if self.state[j] is None and self.cancellable[j]:
                        self.cancels[j] += 1
                        self.state[j] = self.cancel_outcome(j)
                self.accept = cands
            else:
                self._race_all_failed()
            return
        foc, foe = self._flags()
        for i in sorted(pre):
            if pre[i][0] == "ok" and foc:
                cands.add(("one", pre[i][1], i))
            if pre[i][0] == "fail" and foe:
                cands.add(("firsterr", pre[i][1], i))
        if cands:
            self.accept = cands
        elif all(s is not None for s in self.state):
            self.accept = {self._done()}

    def _flags(self):
        a = self.agg
        if a[0] == "DL":
            return a[1], a[2]
        return 0, 1  # gatherResults

    def _done(self):
        if self.agg[0] == "gather":
            return ("values", tuple(s[1] for s in self.state))
        return self._list()

    def _race_all_failed(self):
        if self.accept is None and all(s is not None and s[0] == "fail" for s in self.state):
            self.accept = {("group", tuple(s[1] for s in self.state))}

    def fire(self, i, outcome):
        assert self.state[i] is None
        self.state[i] = outcome
        a = self.agg
        if a[0] == "race":
            if outcome[0] == "ok":
                if self.winner is None:
                    self.winner = i
                    self.accept = {("win", i, outcome[1])}
                    for j in range(self.n):
                        if j != i and self.state[j] is None and self.cancellable[j]:
                            self.cancels[j] += 1
                            self.fire(j, self.cancel_outcome(j))
            else:
                self._race_all_failed()
            return
        if self.accept is not None:
            return
        foc, foe = self._flags()
        if outcome[0] == "ok" and foc:
            self.accept = {("one", outcome[1], i)}
        elif outcome[0] == "fail" and foe:
            self.accept = {("firsterr", outcome[1], i)}
        elif all(s is not None for s in self.state):
            self.accept = {self._done()}

    def cancel(self):
        if self.accept is not None:
            return False
        self.cancelled_agg = True
        for j in range(self.n):
            if self.state[j] is None and self.cancellable[j]:
                self.cancels[j] += 1
                self.fire(j, self.cancel_outcome(j))
        return True

    def later_sees(self, i):
        """What a callback added to input i after the aggregate was built must see; None = not demanded."""
        a = self.agg
        if a[0] == "race":
            return None
        ce = a[3] if a[0] == "DL" else a[1]
        s = self.state[i]
        if s[0] == "ok":
            return ("ok", s[1])
        return ("ok", None) if ce else ("fail", s[1])


# ---------------------------------------------------------------- real run

def tag_of_failure(f):
    v = f.value
    if isinstance(v, E):
        return v.tag
    return type(v).__name__


def describe_item(x):
    if isinstance(x, Failure):
        return ("fail", tag_of_failure(x))
    return ("ok", x)


def classify(agg, r):
    """Real aggregate result -> descriptor comparable with the reference's."""
    if isinstance(r, Failure):
        v = r.value
        if isinstance(v, FirstError):
            sub = v.subFailure
            return ("firsterr", tag_of_failure(sub) if isinstance(sub, Failure) else ("not-a-failure", repr(sub)), v.index)
        if isinstance(v, FailureGroup):
            return ("group", tuple(tag_of_failure(f) if isinstance(f, Failure) else ("not-a-failure", repr(f)) for f in v.failures))
        if isinstance(v, CancelledError):
            return ("cancelled",)
        return ("failure", tag_of_failure(r))
    if agg[0] == "race":
        if isinstance(r, tuple) and len(r) == 2:
            return ("win", r[0], r[1])
        return ("other", repr(r))
    if agg[0] == "gather":
        if isinstance(r, list):
            return ("values", tuple(r))
        return ("other", repr(r))
    if isinstance(r, list):
        out = []
        for it in r:
            if isinstance(it, tuple) and len(it) == 2 and it[0] in (True, False):
                d = describe_item(it[1])
                # the boolean must agree with the kind of result
                if (d[0] == "ok") != bool(it[0]):
                    return ("list-flag-mismatch", repr(r))
                out.append(d)
            else:
                out.append(("bad-item", repr(it)))
        return ("list", tuple(out))
    if isinstance(r, tuple) and len(r) == 2:
        return ("one", r[0], r[1])
    return ("other", repr(r))


def make_canceller(kind, i, log):
    if kind == "none":
        return None
    if kind == "noop":
        def c(d):
            log.append(i)
    elif kind == "ok":
        def c(d):
            log.append(i)
            d.callback(("cv", i))
    else:
        def c(d):
            log.append(i)
            d.errback(E(("ce", i)))
    return c


def run_case(case):
    """case = (kinds, perm, aggIndex, cancel_at or None, canc) -> (violations, info)"""
    kinds, perm, ai, cancel_at, canc = case
    agg = AGGS[ai]
    n = len(kinds)
    name = aggname(agg)
    bad = []
    canclog = []
    inputs = []     # what the aggregate is given
    probe = []      # where an effective cancel() of input i lands (the inner Deferred of a chained input)
    pre = {}
    for i, k in enumerate(kinds):
        if k in CHAINED:
            inner = In(make_canceller(canc[i], i, canclog))
            d = In()
            d.addCallback(lambda _, inner=inner: inner)
            d.callback(None)
            inputs.append(d)
            probe.append(inner)
            continue
        if k in PAUSED:
            d = In()
            d.pause()
            if k == "uo":
                d.callback(("v", i))
            else:
                d.errback(E(("e", i)))
            inputs.append(d)
            probe.append(d)
            continue
        d = In(make_canceller(canc[i], i, canclog))
        inputs.append(d)
        probe.append(d)
        if k == "po":
            d.callback(("v", i))
            pre[i] = ("ok", ("v", i))
        elif k == "pf":
            d.errback(E(("e", i)))
            pre[i] = ("fail", ("e", i))
    cancellable = [k not in PAUSED for k in kinds]
    ref = Ref(n, agg, canc, cancellable)
    ref.construct(pre)

    def pending(i):
        if kinds[i] in PAUSED:
            return inputs[i].paused > 0
        return not probe[i].called

    def deliver(i):
        k = kinds[i]
        if k in PAUSED:
            inputs[i].unpause()
        elif k in OKKINDS:
            probe[i].callback(("v", i))
        else:
            probe[i].errback(E(("e", i)))

    if agg[0] == "DL":
        a = DeferredList(inputs, fireOnOneCallback=bool(agg[1]), fireOnOneErrback=bool(agg[2]),
                         consumeErrors=bool(agg[3]))
    elif agg[0] == "gather":
        a = gatherResults(inputs, consumeErrors=bool(agg[1]))
    else:
        a = race(inputs)
    got = []
    a.addBoth(got.append)          # returns None: result consumed, nothing left to log at GC
    seen = [[] for _ in range(n)]

    def watcher(i):
        def w(r):
            seen[i].append(r)
            return r
        return w
    for i in range(n):
        inputs[i].addBoth(watcher(i))

    def status(step):
        due = ref.accept is not None
        if len(got) > 1:
            bad.append((name + ":fired-twice", "aggregate callbacks ran %d times at %s" % (len(got), step)))
        elif got and not due and ref.cancelled_agg and classify(agg, got[0]) == ("cancelled",):
            pass    # cancelled aggregate gave up with CancelledError while an uncancellable (paused) input is pending
        elif got and not due:
            bad.append((name + ":fired-before-due", "fired with %r at %s, reference: not yet" % (classify(agg, got[0]), step)))
        elif due and not got:
            bad.append((name + ":not-fired-when-due", "reference result %r at %s, aggregate unfired" % (sorted(ref.accept, key=repr), step)))
        return bool(bad)

    status("construction")
    L = len(perm)
    step = 0
    did_cancel = False
    while not bad:
        if cancel_at is not None and step == cancel_at and not did_cancel:
            did_cancel = True
            ref.cancel()
            a.cancel()
            if status("cancel after %d firings" % step):
                break
            continue
        if step >= L:
            break
        i = perm[step]
        step += 1
        ok = kinds[i] in OKKINDS
        done = not pending(i)
        if done != (ref.state[i] is not None):
            # the aggregate cancelled (or failed to cancel) this input: report and stop, the rest of the
            # schedule is meaningless
            which = "cancelled-unexpectedly" if done else "not-cancelled"
            ctx = "on-aggregate-cancel" if ref.cancelled_agg else ("race-loser" if agg[0] == "race" else "no-cancel-due")
            if kinds[i] in CHAINED:
                ctx += ":fired-input-waiting-on-inner-deferred"
            bad.append(("%s:input-%s:%s" % (name, which, ctx),
                        "input %d (%s) is %s before its firing #%d, reference says %s" % (
                            i, kinds[i], "done" if done else "pending", step, "pending" if done else "cancelled")))
            break
        if done:
            # cancelled earlier by the aggregate (race loser / aggregate cancel)
            if canc[i] == "none" and probe[i].liveCancels:
                # a canceller-less Deferred accepts (and drops) one late result
                deliver(i)
            continue
        if ok:
            ref.fire(i, ("ok", ("v", i)))
        else:
            ref.fire(i, ("fail", ("e", i)))
        deliver(i)
        if status("firing #%d (input %d)" % (step, i)):
            break

    info = {"cancelled": did_cancel and ref.cancelled_agg, "result": None}
    if not bad:
        # all inputs have fired now
        if any(pending(i) for i in range(n)):
            bad.append(("harness:input-left-unfired", repr([pending(i) for i in range(n)])))
        if not got:
            bad.append((name + ":not-fired-when-due", "all inputs fired, aggregate unfired"))
        else:
            desc = classify(agg, got[0])
            info["result"] = desc[0]
            acc = set(ref.accept)
            if agg[0] == "gather":
                # "fires ... with the first failure": FirstError wrapper (documented) or the bare failure
                for x in list(acc):
                    if x[0] == "firsterr":
                        acc.add(("failure", x[1]))
            if ref.cancelled_agg:
                acc.add(("cancelled",))
            if desc not in acc:
                exp = sorted(acc - {("cancelled",)}, key=repr)
                ek = exp[0][0] if exp else "?"
                if ek != desc[0]:
                    what = "expected-%s-got-%s" % (ek, desc[0])
                elif ek in ("group", "list", "values"):
                    same = any(sorted(x[1], key=repr) == sorted(desc[1], key=repr) for x in exp)
                    what = "%s-not-in-input-order" % ek if same else "%s-has-wrong-entries" % ek
                else:
                    what = "%s-with-wrong-index-or-value" % ek
                bad.append(("%s:wrong-result:%s" % (name, what), "got %r, acceptable %r" % (desc, exp)))
        for i in range(n):
            if len(seen[i]) != 1:
                bad.append(("harness:watcher-ran-%d-times" % len(seen[i]), "input %d" % i))
                continue
            r = seen[i][0]
            if isinstance(r, Failure) and not isinstance(r.value, (E, CancelledError)):
                kind = "fired-twice" if isinstance(r.value, AlreadyCalledError) else \
                    "exception-in-input-callback:" + type(r.value).__name__
                if kind == "fired-twice" and ref.cancelled_agg and kinds[i] in PAUSED and len(got) == 1 \
                        and classify(agg, got[0]) == ("cancelled",):
                    # the aggregate was cancelled while this fired-but-paused input could not be cancelled; when the
                    # input is unpaused the aggregate tries to fire its (already cancelled) result again
                    kind = "fires-again-when-paused-input-delivers-after-aggregate-cancel"
                bad.append((name + ":" + kind, "input %d chain carries %r after the aggregate's callback" % (i, r.value)))
                continue
            exp = ref.later_sees(i)
            if exp is None:
                continue
            d = describe_item(r)
            if d != exp:
                if ref.state[i][0] == "fail" and exp == ("ok", None):
                    sig = name + ":consumeErrors-failure-not-turned-into-None"
                elif ref.state[i][0] == "fail":
                    sig = name + ":input-failure-not-passed-through-without-consumeErrors"
                else:
                    sig = name + ":input-success-changed-for-later-callbacks"
                bad.append((sig, "input %d: later callback saw %r, reference %r" % (i, d, exp)))
        for i in range(n):
            if kinds[i] in PAUSED:
                continue        # cancel() of a fired, paused Deferred does nothing: nothing to count
            live = probe[i].liveCancels
            if live != ref.cancels[i]:
                which = "not-cancelled" if live < ref.cancels[i] else "cancelled-unexpectedly"
                ctx = "on-aggregate-cancel" if ref.cancelled_agg else ("race-loser" if agg[0] == "race" else "no-cancel-due")
                if kinds[i] in CHAINED:
                    ctx += ":fired-input-waiting-on-inner-deferred"
                bad.append(("%s:input-%s:%s" % (name, which, ctx),
                            "input %d (%s) got %d effective cancel() calls while pending, reference %d" % (
                                i, kinds[i], live, ref.cancels[i])))
            if canc[i] != "none" and canclog.count(i) != live:
                bad.append(("harness:canceller-count", "input %d canceller ran %d times, cancel() while unfired %d" % (
                    i, canclog.count(i), live)))
    # leave nothing for the garbage collector to report
    for d in inputs + probe:
        d.addErrback(lambda f: None)
    return bad, info


# ---------------------------------------------------------------- enumeration

def cases_for(kinds, canc_kinds):
    n = len(kinds)
    later = [i for i, k in enumerate(kinds) if k not in PRE]
    L = len(later)
    clater = [i for i in later if kinds[i] not in PAUSED]      # inputs a cancel can reach
    none = ("none",) * n
    for perm in itertools.permutations(later):
        for ai, agg in enumerate(AGGS):
            if agg[0] == "race":
                # cancellers matter at win time and at aggregate-cancel time: enumerate for every later input
                for cs in itertools.product(canc_kinds, repeat=len(clater)):
                    canc = list(none)
                    for j, i in enumerate(clater):
                        canc[i] = cs[j]
                    canc = tuple(canc)
                    yield (kinds, perm, ai, None, canc)
                    for p in range(L + 1):
                        yield (kinds, perm, ai, p, canc)
            else:
                yield (kinds, perm, ai, None, none)
                for p in range(L + 1):
                    # only the inputs still unfired at the cancel can have their canceller called
                    rest = [i for i in perm[p:] if kinds[i] not in PAUSED]
                    for cs in itertools.product(canc_kinds, repeat=len(rest)):
                        canc = list(none)
                        for j, i in enumerate(rest):
                            canc[i] = cs[j]
                        yield (kinds, perm, ai, p, tuple(canc))


def all_kinds(tier):
    out = []
    for n in range(1, 4):
        out.extend(itertools.product(KINDS8, repeat=n))
    out.extend(itertools.product(KINDS, repeat=4))
    if tier != "quick":
        # n = 4 with exactly one chained / paused input, n = 5 plain
        for pos in range(4):
            for sp in SPECIAL:
                for rest in itertools.product(KINDS, repeat=3):
                    out.append(rest[:pos] + (sp,) + rest[pos:])
        out.extend(itertools.product(KINDS, repeat=5))
    return out


def canc_for(tier, kinds):
    n = len(kinds)
    special = any(k in SPECIAL for k in kinds)
    if tier == "quick":
        return CANC4 if (n <= 3 and not special) else CANC3
    if special:
        return CANC4 if n <= 3 else CANC3
    return CANC4 if n <= 4 else CANC3


def weight(kinds):
    L = sum(1 for k in kinds if k not in PRE)
    w = 1
    for i in range(2, L + 1):
        w *= i
    return w * (4 ** L)


def shards(tier, seed):
    ks = all_kinds(tier)
    # greedy balance by estimated weight
    ks.sort(key=weight, reverse=True)
    nsh = NSHARDS if tier == "quick" else 4 * NSHARDS
    bins = [[0, []] for _ in range(nsh)]
    for k in ks:
        b = min(bins, key=lambda b: b[0])
        b[0] += weight(k)
        b[1].append(list(k))
    return [b[1] for b in bins if b[1]]


def run_shard(shard, tier, seed):
    st = Stats()
    for kinds in shard:
        kinds = tuple(kinds)
        n = len(kinds)
        canc_kinds = canc_for(tier, kinds)
        has_later = any(k not in PRE for k in kinds)
        for case in cases_for(kinds, canc_kinds):
            st.evaluations += 1
            bad, info = run_case(case)
            if n >= 2 and has_later:
                st.nt(case if n <= 4 else case[:4])
            st.outcome("%s:%s%s" % (AGGS[case[2]][0], info["result"], ":after-cancel" if info["cancelled"] else ""))
            if st.evaluations % 200003 == 1:
                st.sample({"kinds": case[0], "order": case[1], "aggregate": AGGS[case[2]], "cancel_at": case[3],
                           "cancellers": case[4], "result": info["result"]})
            for sig, detail in bad:
                st.violation(sig, detail, {"case": [list(case[0]), list(case[1]), case[2], case[3], list(case[4])]})
    return st


def replay(w):
    c = w["case"]
    case = (tuple(c[0]), tuple(c[1]), c[2], c[3], tuple(c[4]))
    bad, info = run_case(case)
    return [(s, d) for s, d in bad]
