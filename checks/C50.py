"""C50 FilesystemLock mutual exclusion: every interleaving of the real lock()/unlock()
code of 2-3 'processes' over an atomic in-memory symlink filesystem."""
import errno
from mc.choice import explore, Chooser
from mc.sched import Sched
from mc.runner import Stats

ID = "C50"
LEVEL = "model_checking"
ENGINE = "mc.sched"
TECHNIQUE = "stateless exhaustive schedule enumeration (controlled scheduler over real threads) of the real lock/unlock code on a model filesystem"
RULE = ("every interleaving (quick: all, 2 processes; thorough: 3 processes up to 3 preemptions plus 2 processes with a "
        "process dying in its critical section) of the real FilesystemLock.lock/unlock code; symlink/readlink/rmlink/kill/"
        "getpid are rebound to an atomic in-memory filesystem and pid table and each call is a scheduling point. "
        "non-trivial = distinct schedules in which at least one filesystem call failed (EEXIST/ENOENT/ESRCH), i.e. processes collided")
BOUNDS = {"quick": "2 processes: 1 round x {no lock, stale lock}: all interleavings; 2 rounds: preemption bound 3 (no stale) / 2 (stale)",
          "thorough": "2 processes x 2 rounds all interleavings (no stale) / bound 4 (stale); 3 processes bound 3; a process dying in its critical section, bound 3-4"}
ASSUMPTIONS = ["secondary oracle: models/C50_FilesystemLock.tla is checked by TLC and the set of its complete behaviours (filesystem-call logs) is compared in both directions with the set produced by the real code under the scheduler; a mismatch is reported as MODEL-DRIFT, the verdict is always taken on the real code",
               "symlink/readlink/unlink/kill are individually atomic (POSIX); one Python source line between them is not a scheduling point because the code shares no memory between processes",
               "schedules = complete executions; states/transitions count scheduler steps executed on the real code"]
MIN = {"quick": {"evaluations": 1000, "nontrivial": 300, "outcomes": 3}}

DEAD_PID = 999
PARENT_PID = 50    # a parent that constructs the lock objects, forks the contenders and exits


class FS:
    def __init__(self, sched, stale):
        self.s = sched
        self.links = {}
        self.alive = set()
        self.oplog = []
        self.removed_live = False
        self.removed_live_other = False
        if stale:
            self.links["L"] = str(DEAD_PID)

    def pid(self):
        me = self.s.me()
        if me is None:
            return PARENT_PID      # code running before the processes were forked
        return 100 + me.idx

    def symlink(self, value, name):
        self.s.point("symlink")
        if name in self.links:
            self.oplog.append((self.pid(), "symlink", "EEXIST"))
            raise OSError(errno.EEXIST, "exists")
        self.links[name] = value
        self.oplog.append((self.pid(), "symlink", "ok"))

    def readlink(self, name):
        self.s.point("readlink")
        if name not in self.links:
            self.oplog.append((self.pid(), "readlink", "ENOENT"))
            raise OSError(errno.ENOENT, "gone")
        self.oplog.append((self.pid(), "readlink", self.links[name]))
        return self.links[name]

    def rmlink(self, name):
        self.s.point("rmlink")
        if name not in self.links:
            self.oplog.append((self.pid(), "rmlink", "ENOENT"))
            raise OSError(errno.ENOENT, "gone")
        v = self.links.pop(name)
        if int(v) in self.alive and int(v) != self.pid():
            # The recorded finding is exactly: this process read the *dead* owner, found it dead
            # and removes the link -- which meanwhile became another process's live lock.
            mine = [o for o in self.oplog if o[0] == self.pid()]
            last = mine[-3:]
            classic = (len(last) == 3 and last[0][1:] == ("symlink", "EEXIST") and last[1][1:] == ("readlink", str(DEAD_PID))
                       and last[2][1:] == ("kill", "ESRCH"))
            if classic:
                self.removed_live = True
            elif not self.removed_live:
                # (after the recorded race has happened, further damage -- e.g. the first holder's
                # unlock() removing the second holder's link -- is its consequence, not a new defect)
                self.removed_live_other = True
        self.oplog.append((self.pid(), "rmlink", v))

    def kill(self, pid, sig):
        self.s.point("kill")
        if pid not in self.alive:
            self.oplog.append((self.pid(), "kill", "ESRCH"))
            raise OSError(errno.ESRCH, "no such process")
        self.oplog.append((self.pid(), "kill", "ok"))


class _OSProxy:
    def __init__(self, real, fs):
        self._real, self._fs = real, fs

    def getpid(self):
        return self._fs.pid()

    def __getattr__(self, n):
        return getattr(self._real, n)


def run_one(ch, nproc, rounds, stale, die, prefork=False):
    from twisted.python import lockfile
    s = Sched(ch, max_steps=400)
    fs = FS(s, stale)
    saved = {k: getattr(lockfile, k) for k in ("symlink", "readlink", "rmlink", "kill", "os")}
    lockfile.symlink, lockfile.readlink, lockfile.rmlink, lockfile.kill = fs.symlink, fs.readlink, fs.rmlink, fs.kill
    lockfile.os = _OSProxy(saved["os"], fs)
    holders, bad, acquired = set(), [], []
    died_at, attempts = [], []     # scheduler step of the death; (start step, got) of every lock() call

    # prefork: the FilesystemLock objects are constructed by a parent process that has exited by the
    # time its children call lock() (daemonising); the lock must record the pid of the process that locks
    pre = [[lockfile.FilesystemLock("L") for _ in range(rounds)] for _ in range(nproc)] if prefork else None

    def proc(i):
        def body():
            pid = 100 + i
            for r in range(rounds):
                l = pre[i][r] if pre else lockfile.FilesystemLock("L")
                started = s.steps
                try:
                    got = l.lock()
                    attempts.append((started, bool(got)))
                except OSError as e:
                    bad.append(("lock-raised", "P%d lock() raised %r" % (i, e)))
                    return
                if got:
                    acquired.append(i)
                    holders.add(i)
                    if len(holders) > 1:
                        bad.append(("two-holders", "processes %s hold the lock together" % sorted(holders)))
                    s.point("critical")
                    if len(holders) > 1:
                        bad.append(("two-holders", "processes %s hold the lock together" % sorted(holders)))
                    if die and i == 0 and r == 0:
                        # the process dies inside its critical section: lock left behind
                        holders.discard(i)
                        fs.alive.discard(pid)
                        died_at.append(s.steps)
                        return
                    holders.discard(i)
                    try:
                        l.unlock()
                    except (OSError, ValueError) as e:
                        bad.append(("holder-cannot-release", "P%d unlock() raised %s" % (i, type(e).__name__)))
        return body

    try:
        for i in range(nproc):
            fs.alive.add(100 + i)
            s.spawn("P%d" % i, proc(i))
        s.run()
    finally:
        for k, v in saved.items():
            setattr(lockfile, k, v)
    for name, exc in s.errors():
        bad.append(("crash:%s" % type(exc).__name__, "%s: %r" % (name, exc)))
    if s.deadlock:
        bad.append(("deadlock", repr(s.deadlock)))
    if s.horizon_hit:
        bad.append(("livelock", "step horizon reached"))
    if (stale or die) and not bad:
        # a lock left by a dead process can eventually be acquired
        need = 2 if (die and stale) else 1
        if len(acquired) < 1:
            bad.append(("stale-lock-never-acquired", "no process acquired although the only lock was left by a dead process"))
        later = [got for (started, got) in attempts if died_at and started > died_at[0]]
        if later and not any(later):
            # only lock() calls that began after the holder died are judged (earlier ones rightly saw a live holder)
            bad.append(("stale-lock-never-acquired", "lock left by the process that died was not acquired by a lock() call made after its death"))
    # root-cause classification: a stale-lock breaker removed a lock owned by a live process
    out = []
    for sig, d in bad:
        if fs.removed_live_other and sig in ("two-holders", "holder-cannot-release"):
            sig = sig + ":live-lock-removed-without-having-just-read-a-dead-owner"
        elif fs.removed_live and sig in ("two-holders", "holder-cannot-release"):
            sig = sig + ":after-stale-break-removed-live-lock"
        out.append((sig, d))
    collided = any(o[2] in ("EEXIST", "ENOENT", "ESRCH") for o in fs.oplog)
    return out, fs.oplog, collided, s.steps, len(acquired)


# (nproc, rounds, stale, die, preemption bound or None = all interleavings[, lock objects constructed by an exited parent])
CONFIGS_Q = [(2, 1, False, False, None), (2, 1, True, False, None), (2, 2, False, False, 3), (2, 2, True, False, 2),
             (2, 1, False, False, None, True)]
CONFIGS_T = [(2, 1, False, False, None), (2, 1, True, False, None), (2, 2, False, False, None), (2, 2, True, False, 4),
             (3, 1, False, False, 3), (3, 1, True, False, 3), (2, 2, False, True, 4), (2, 2, True, True, 3),
             (2, 1, False, False, None, True), (2, 2, False, False, 3, True)]


def shards(tier, seed):
    from mc.choice import shard_prefixes
    out = []
    for cfg in (CONFIGS_Q if tier == "quick" else CONFIGS_T):
        bound = cfg[4]
        for pre, dev in shard_prefixes(lambda c: run_one(c, *cfg[:4], prefork=len(cfg) > 5 and cfg[5]), 5, bound):
            out.append((cfg, pre, dev))
    # TLA+ cross-model (models/C50_FilesystemLock.tla): all model traces vs all implementation traces
    out.append(("tla", False))
    if tier != "quick":
        out.append(("tla", True))
    return out


def run_tla(stale):
    from checks import _c50_tla
    st = Stats()
    res = _c50_tla.compare(stale)
    if res is None:
        st.notes.append("C50: tlc not on PATH, TLA+ cross-model skipped")
        return st
    st.count("tla_model_states", res["model_states"])
    st.count("tla_model_traces", res["model_traces"])
    st.count("tla_impl_traces", res["impl_traces"])
    st.count("tla_traces_validated_both_directions", res["model_traces"] if res["agree"] else 0)
    st.traces += res["model_traces"]
    if not res["agree"]:
        # a behaviour-preserving refactoring may change the call sequence: drift is reported, never a violation
        st.count("tla_model_drift")
        st.notes.append("MODEL-DRIFT C50 (stale=%s): only in model %r; only in implementation %r; verdicts model %r impl %r" % (
            stale, res["only_in_model"], res["only_in_impl"], res["verdict_model"], res["verdict_impl"]))
    st.sample({"tla_cross_model": {k: res[k] for k in ("stale", "model_states", "model_traces", "impl_traces", "agree")}})
    return st


def run_shard(shard, tier, seed):
    if shard[0] == "tla":
        return run_tla(shard[1])
    cfg, pre, dev = shard
    cfg = tuple(cfg)
    bound = cfg[4]
    st = Stats()
    seen_sig = {}
    for ch, (bad, oplog, collided, steps, nacq) in explore(lambda c: run_one(c, *cfg[:4], prefork=len(cfg) > 5 and cfg[5]), bound, prefix=pre, prefix_dev=dev):
        st.evaluations += 1
        st.states += steps
        st.transitions += steps
        st.traces += 1
        if collided:
            st.nt((cfg, tuple(oplog)))
        st.outcome("acquired=%d" % nacq)
        if st.evaluations % 997 == 1:
            st.sample({"config": list(cfg), "schedule": ch.choices, "fs_ops": oplog})
        for sig, d in bad:
            st.outcome(sig)
            if sig not in seen_sig:
                seen_sig[sig] = 1
                st.violation(sig, {"what": d, "fs_ops": oplog},
                             {"config": list(cfg), "schedule": ch.choices})
    if bound is not None:
        st.exhaustive = False
    return st


def replay(w):
    ch = Chooser(w["schedule"])
    bad = run_one(ch, *w["config"][:4], prefork=len(w["config"]) > 5 and w["config"][5])[0]
    return bad
