"""Real OpenSSL behind the same memory-BIO API as the C17 model engine.

pyOpenSSL is not installed, but ``cryptography`` ships cffi bindings to the libssl it was built with.  ``RealConnection``
re-implements the few pyOpenSSL ``Connection`` methods twisted.protocols.tls uses on top of those bindings, following
pyOpenSSL's own code (``_raise_ssl_error``, ``_handle_bio_errors``, ``shutdown``) line by line, and raises the *stub's*
exception classes so that tls.py (which imported them from the stub) catches them.

Used by C17 for (a) the conformance part: the model engine and real OpenSSL are driven through the same API call
sequences and must agree on every outcome class; (b) a slice of the BFS run with real OpenSSL as the engine.
"""
import errno as _errno
import os
import sys

_STUB = os.path.join(os.path.dirname(os.path.dirname(os.path.abspath(__file__))), "vendor", "openssl_stub")
if _STUB not in sys.path:
    sys.path.insert(0, _STUB)

from OpenSSL import SSL as M  # the stub: exception classes + model engine  # noqa: E402

_B = None


def binding():
    global _B
    if _B is None:
        from cryptography.hazmat.bindings.openssl.binding import Binding
        b = Binding()
        _B = (b.ffi, b.lib)
    return _B


def available():
    try:
        ffi, lib = binding()
        return all(hasattr(lib, n) for n in ("SSL_new", "SSL_set_bio", "BIO_s_mem", "SSL_do_handshake", "SSL_shutdown",
                                              "BIO_set_mem_eof_return", "SSL_CTX_set_max_proto_version"))
    except Exception:  # noqa
        return False


def openssl_version():
    ffi, lib = binding()
    return ffi.string(lib.OpenSSL_version(0)).decode()


_CERTS = {}


def _make_cert(pad):
    """Self-signed P-256 certificate; ``pad`` bytes of subjectAltName entries make the Certificate message big."""
    import datetime
    from cryptography import x509
    from cryptography.hazmat.primitives import hashes, serialization
    from cryptography.hazmat.primitives.asymmetric import ec
    from cryptography.x509.oid import NameOID
    key = ec.generate_private_key(ec.SECP256R1())
    name = x509.Name([x509.NameAttribute(NameOID.COMMON_NAME, "c17.test")])
    b = (x509.CertificateBuilder().subject_name(name).issuer_name(name).public_key(key.public_key())
         .serial_number(17).not_valid_before(datetime.datetime(2020, 1, 1)).not_valid_after(datetime.datetime(2040, 1, 1)))
    if pad:
        names = [x509.DNSName("h%05d." % i + "x" * 50 + ".test") for i in range(pad // 64 + 1)]
        b = b.add_extension(x509.SubjectAlternativeName(names), critical=False)
    cert = b.sign(key, hashes.SHA256())
    return (cert.public_bytes(serialization.Encoding.PEM),
            key.private_bytes(serialization.Encoding.PEM, serialization.PrivateFormat.PKCS8, serialization.NoEncryption()))


def _errors():
    ffi, lib = binding()
    out = []
    while True:
        e = lib.ERR_get_error()
        if e == 0:
            break

        def txt(p):
            return ffi.string(p).decode("utf-8", "replace") if p != ffi.NULL else ""
        out.append((txt(lib.ERR_lib_error_string(e)), txt(lib.ERR_func_error_string(e)), txt(lib.ERR_reason_error_string(e))))
    return out


class RealContext:
    """SSL_CTX pinned to one protocol version, with a self-signed certificate (server use)."""

    def __init__(self, version="1.3", cert_pad=0):
        ffi, lib = binding()
        self._ctx = ffi.gc(lib.SSL_CTX_new(lib.TLS_method()), lib.SSL_CTX_free)
        v = lib.TLS1_3_VERSION if version == "1.3" else lib.TLS1_2_VERSION
        assert lib.SSL_CTX_set_min_proto_version(self._ctx, v) == 1
        assert lib.SSL_CTX_set_max_proto_version(self._ctx, v) == 1
        # pyOpenSSL: Context.__init__ -> set_mode(SSL_MODE_ENABLE_PARTIAL_WRITE)
        lib.SSL_CTX_set_mode(self._ctx, lib.SSL_MODE_ENABLE_PARTIAL_WRITE)
        if cert_pad not in _CERTS:
            _CERTS[cert_pad] = _make_cert(cert_pad)
        cert_pem, key_pem = _CERTS[cert_pad]
        bio = ffi.gc(lib.BIO_new_mem_buf(cert_pem, len(cert_pem)), lib.BIO_free)
        x = ffi.gc(lib.PEM_read_bio_X509(bio, ffi.NULL, ffi.NULL, ffi.NULL), lib.X509_free)
        assert x != ffi.NULL
        assert lib.SSL_CTX_use_certificate(self._ctx, x) == 1
        bio = ffi.gc(lib.BIO_new_mem_buf(key_pem, len(key_pem)), lib.BIO_free)
        k = ffi.gc(lib.PEM_read_bio_PrivateKey(bio, ffi.NULL, ffi.NULL, ffi.NULL), lib.EVP_PKEY_free)
        assert k != ffi.NULL
        assert lib.SSL_CTX_use_PrivateKey(self._ctx, k) == 1
        _errors()


_CTX = {}


def context(version, cert_pad=0):
    key = (version, cert_pad)
    if key not in _CTX:
        _CTX[key] = RealContext(version, cert_pad)
    return _CTX[key]


class RealConnection:
    """The subset of pyOpenSSL's Connection(ctx, None) used by twisted.protocols.tls."""

    def __init__(self, ctx):
        ffi, lib = binding()
        self._ffi, self._lib = ffi, lib
        self._context = ctx
        self._ssl = ffi.gc(lib.SSL_new(ctx._ctx), lib.SSL_free)
        self._into_ssl = lib.BIO_new(lib.BIO_s_mem())
        self._from_ssl = lib.BIO_new(lib.BIO_s_mem())
        lib.SSL_set_bio(self._ssl, self._into_ssl, self._from_ssl)   # the SSL owns both BIOs
        self._app_data = None
        self._hs_ok = False
        self.log_sent = []
        self.fed = 0

    # -- pyOpenSSL's error mapping ---------------------------------------------------------------
    def _raise_ssl_error(self, result):
        lib = self._lib
        error = lib.SSL_get_error(self._ssl, result)
        if error == lib.SSL_ERROR_WANT_READ:
            raise M.WantReadError()
        elif error == lib.SSL_ERROR_WANT_WRITE:
            raise M.WantWriteError()
        elif error == lib.SSL_ERROR_ZERO_RETURN:
            raise M.ZeroReturnError()
        elif error == lib.SSL_ERROR_WANT_X509_LOOKUP:
            raise M.WantX509LookupError()
        elif error == lib.SSL_ERROR_SYSCALL:
            if lib.ERR_peek_error() == 0:
                if result < 0:
                    e = self._ffi.errno
                    if e != 0:
                        raise M.SysCallError(e, _errno.errorcode.get(e))
                raise M.SysCallError(-1, "Unexpected EOF")
            else:
                raise M.Error(_errors())
        elif error == lib.SSL_ERROR_SSL and lib.ERR_peek_error() != 0:
            raise M.Error(_errors())
        elif error == lib.SSL_ERROR_NONE:
            pass
        else:
            raise M.Error(_errors())

    def _handle_bio_errors(self, bio, result):
        lib = self._lib
        if lib.BIO_should_retry(bio):
            if lib.BIO_should_read(bio):
                raise M.WantReadError()
            elif lib.BIO_should_write(bio):
                raise M.WantWriteError()
            raise ValueError("unknown bio failure")
        raise M.Error(_errors())

    # -- API -------------------------------------------------------------------------------------
    def set_connect_state(self):
        self._lib.SSL_set_connect_state(self._ssl)

    def set_accept_state(self):
        self._lib.SSL_set_accept_state(self._ssl)

    def get_context(self):
        return self._context

    def set_app_data(self, d):
        self._app_data = d

    def get_app_data(self):
        return self._app_data

    def get_peer_certificate(self, *a, **kw):
        return None

    def get_alpn_proto_negotiated(self):
        return b""

    def get_shutdown(self):
        return self._lib.SSL_get_shutdown(self._ssl)

    def is_init_finished(self):
        return self._hs_ok or self._ffi.string(self._lib.SSL_state_string_long(self._ssl)) == \
            b"SSL negotiation finished successfully"

    def do_handshake(self):
        result = self._lib.SSL_do_handshake(self._ssl)
        self._raise_ssl_error(result)
        self._hs_ok = True

    def send(self, buf, flags=0):
        buf = bytes(buf)
        result = self._lib.SSL_write(self._ssl, buf, len(buf))
        self._raise_ssl_error(result)
        self.log_sent.append(buf[:result])
        return result

    def recv(self, bufsiz, flags=None):
        buf = self._ffi.new("char[]", bufsiz)
        result = self._lib.SSL_read(self._ssl, buf, bufsiz)
        self._raise_ssl_error(result)
        return self._ffi.buffer(buf, result)[:]

    def bio_read(self, bufsiz):
        buf = self._ffi.new("char[]", bufsiz)
        result = self._lib.BIO_read(self._from_ssl, buf, bufsiz)
        if result <= 0:
            self._handle_bio_errors(self._from_ssl, result)
        return self._ffi.buffer(buf, result)[:]

    def bio_write(self, buf):
        buf = bytes(buf)
        result = self._lib.BIO_write(self._into_ssl, buf, len(buf))
        if result <= 0:
            self._handle_bio_errors(self._into_ssl, result)
        self.fed += result
        return result

    def bio_shutdown(self):
        self._lib.BIO_set_mem_eof_return(self._into_ssl, 0)

    def shutdown(self):
        result = self._lib.SSL_shutdown(self._ssl)
        if result < 0:
            self._raise_ssl_error(result)
            raise AssertionError("unreachable")
        return result > 0

    def pending_out(self):
        """Number of bytes waiting in the write BIO (BIO_get_mem_data)."""
        p = self._ffi.new("char **")
        return int(self._lib.BIO_get_mem_data(self._from_ssl, p))


# ------------------------------------------------------------------------------------------------
# conformance of the model engine to real OpenSSL
# ------------------------------------------------------------------------------------------------
OPS = ("hs", "send", "recv", "shut", "eof", "pump")


def _outcome(fn):
    try:
        r = fn()
    except M.WantReadError:
        return "WantRead"
    except M.ZeroReturnError:
        return "ZeroReturn"
    except M.SysCallError as e:
        return "SysCall:%s" % (e.args[1] if len(e.args) > 1 else "")
    except M.Error as e:
        reason = e.args[0][-1][2] if e.args and e.args[0] else ""
        return "Error:" + reason.lower()
    return r


class Pair:
    """Client + server connection of one engine kind, with the two directions of in-flight bytes."""

    def __init__(self, make):
        self.c, self.s = make("c"), make("s")
        self.c.set_connect_state()
        self.s.set_accept_state()
        self.nsent = {"c": 0, "s": 0}

    def step(self, who, op):
        conn = self.c if who == "c" else self.s
        peer = self.s if who == "c" else self.c
        if op == "hs":
            r = _outcome(conn.do_handshake)
            return "ok" if r is None else r
        if op == "send":
            data = b"%s%d" % (who.encode(), self.nsent[who])
            r = _outcome(lambda: conn.send(data))
            if isinstance(r, int):
                self.nsent[who] += 1
                return "sent"
            return r
        if op == "recv":
            r = _outcome(lambda: conn.recv(2 ** 15))
            return "data:%s" % r.decode() if isinstance(r, bytes) else r
        if op == "shut":
            r = _outcome(conn.shutdown)
            return "shutdown:%s" % r if isinstance(r, bool) else r
        if op == "eof":
            conn.bio_shutdown()
            return "ok"
        if op == "pump":
            # move everything conn has written to the peer; only emptiness is compared (sizes differ)
            n = 0
            while True:
                r = _outcome(lambda: conn.bio_read(2 ** 15))
                if not isinstance(r, bytes):
                    break
                peer.bio_write(r)
                n += len(r)
            return "moved" if n else "nothing"
        raise ValueError(op)

    def flags(self):
        return (self.c.get_shutdown(), self.s.get_shutdown(), bool(self.c.is_init_finished()), bool(self.s.is_init_finished()))


def model_pair(profile):
    return Pair(lambda role: M.Connection(M.Context(0), None, profile=profile))


def real_pair(version, cert_pad=0):
    ctx = context(version, cert_pad)
    return Pair(lambda role: RealConnection(ctx))


def normalise(outcome, eof_style):
    """Outcome classes compared between model and real engine.  Error reasons are compared for the ones tls.py or the
    oracle depend on; other fatal errors only as 'Error'."""
    if outcome.startswith("Error:"):
        r = outcome[6:]
        for key in ("shutdown while in init", "protocol is shutdown", "unexpected eof", "application data after close notify"):
            if key in r:
                return "Error:" + key
        return "Error"
    if outcome.startswith("SysCall:"):
        return "SysCall:" + outcome[8:].lower()
    return outcome


EST = {"1.3": [("c", "hs"), ("c", "pump"), ("s", "hs"), ("s", "pump"), ("c", "hs"), ("c", "pump"), ("s", "hs")],
       "1.2": [("c", "hs"), ("c", "pump"), ("s", "hs"), ("s", "pump"), ("c", "hs"), ("c", "pump"), ("s", "hs"), ("s", "pump"),
               ("c", "hs")]}
CONF_OPS = [(w, op) for w in ("c", "s") for op in ("hs", "send", "recv", "shut", "eof", "pump", "pump1")]


class _Both:
    def __init__(self, version, eof):
        self.m = model_pair({"version": version, "eof": eof})
        self.r = real_pair(version)
        self.bad = []
        self.eof = eof
        self.neof = 0
        self.ops = 0
        self.dead = set()      # connections that reported a fatal error: tls.py stops using such an engine


def _pump1(pair, who):
    conn = pair.c if who == "c" else pair.s
    peer = pair.s if who == "c" else pair.c
    r = _outcome(lambda: conn.bio_read(1))
    if isinstance(r, bytes):
        peer.bio_write(r)
        return "moved"
    return "nothing"


def conf_apply(st, ev):
    who, op = ev
    st.ops += 1
    if op == "eof":
        st.neof += 1
    if op == "pump1":
        a, b = _pump1(st.r, who), _pump1(st.m, who)
    else:
        a, b = st.r.step(who, op), st.m.step(who, op)
    na, nb = normalise(a, st.eof), normalise(b, st.eof)
    for n in (na, nb):
        if n.startswith(("Error", "SysCall")) and "shutdown while in init" not in n:
            st.dead.add(who)
    fr, fm = st.r.flags(), st.m.flags()
    for i, w in ((2, "c"), (3, "s")):
        if w in st.dead:        # "finished" is not meaningful (nor observable the same way) after a fatal error
            fr = fr[:i] + (None,) + fr[i + 1:]
            fm = fm[:i] + (None,) + fm[i + 1:]
    if na != nb:
        st.bad.append(("model-deviates-from-real-openssl:%s" % op, "%s.%s: real OpenSSL -> %s, model -> %s" % (who, op, a, b)))
    elif fr != fm:
        st.bad.append(("model-deviates-from-real-openssl:flags-after-%s" % op,
                       "%s.%s: (shutdown c, shutdown s, finished c, finished s) real %r model %r" % (
                           who, op, fr, fm)))


def conf_enabled(st):
    out = []
    for ev in CONF_OPS:
        who, op = ev
        conn = st.m.c if who == "c" else st.m.s
        if who in st.dead and op not in ("pump", "pump1"):
            continue
        if conn._eof and op != "recv":
            # usage protocol of tls.py: bio_shutdown() happens in connectionLost only, followed by recv() until it
            # raises; whatever the engine writes afterwards goes to a transport that is already gone
            continue
        if op == "send" and st.m.nsent[who] >= 2:
            continue
        if op in ("pump", "pump1") and not conn._out:
            continue
        if op == "pump1" and len(conn._out) < 2:
            continue
        out.append(ev)
    return out


def conf_canon(st):
    def v(c):
        return (c._step, c._done, bytes(c._in), bytes(c._out), c._eof, bytes(c._plain), c._shutdown, c._fatal is not None)
    return (v(st.m.c), v(st.m.s), st.m.nsent["c"], st.m.nsent["s"], tuple(sorted(st.dead)))


def conf_invariant(st, hist):
    return list(st.bad)


def conformance(version, eof, depth, first=None):
    """BFS over the *model's* states; every transition is executed on real OpenSSL too and the outcome classes
    (return value class / exception class + the reasons tls.py depends on / shutdown + finished flags) must agree."""
    from mc.bfs import bfs

    def initial():
        st = _Both(version, eof)
        if first is not None:
            for ev in first:
                conf_apply(st, ev)
        return st
    return bfs(initial, conf_apply, conf_enabled, conf_canon, conf_invariant, depth, max_violations=40)
