"""Standalone probe for the C17 finding (no harness, no BFS): a server handshake flight larger than 2**15 bytes.

Run:  PYTHONPATH=/repo/src:/verif /venv/bin/python /verif/checks/_c17_probe.py [model]
Real twisted.protocols.tls on REAL OpenSSL (libssl through cryptography's cffi bindings, see _c17_realssl.py; pyOpenSSL
itself is absent) with a self-signed certificate carrying ~40 kB of subjectAltName entries; `model` uses the model engine.
"""
import sys, warnings
sys.path.insert(0, "/verif/vendor/openssl_stub")
sys.path.insert(0, "/verif")
warnings.simplefilter("ignore")
from zope.interface import implementer
from twisted.internet.interfaces import IOpenSSLClientConnectionCreator, IOpenSSLServerConnectionCreator
from twisted.internet.protocol import Factory, Protocol
from twisted.internet.task import Clock
from twisted.internet.testing import StringTransport
from twisted.protocols.tls import TLSMemoryBIOFactory
from OpenSSL import SSL
from checks import _c17_realssl as R

MODEL = "model" in sys.argv[1:]


@implementer(IOpenSSLClientConnectionCreator, IOpenSSLServerConnectionCreator)
class Creator:
    def clientConnectionForTLS(self, p):
        if MODEL:
            return SSL.Connection(SSL.Context(0), None, profile={"cert_bytes": 40000})
        return R.RealConnection(R.context("1.3", 40000))
    serverConnectionForTLS = clientConnectionForTLS


class App(Protocol):
    got = b""

    def dataReceived(self, d):
        self.got += d


ends = []
for isClient in (True, False):
    p = TLSMemoryBIOFactory(Creator(), isClient, Factory.forProtocol(App), Clock()).buildProtocol(None)
    t = StringTransport()
    p.makeConnection(t)
    ends.append((p, t))
(c, ct), (s, st) = ends
c.write(b"hello")                      # application data written before the handshake completes
for _ in range(10):                    # pump until nothing moves
    for (a, at), (b, bt) in ((ends[0], ends[1]), (ends[1], ends[0])):
        data = at.value()
        at.clear()
        if data:
            b.dataReceived(data)
    c.factory._clock.advance(0)
    s.factory._clock.advance(0)
print("engine:", "model" if MODEL else R.openssl_version())
print("client handshake done:", c._handshakeDone, " server handshake done:", s._handshakeDone)
eng = s._tlsConnection
print("bytes still sitting in the server's write BIO:", len(eng._out) if MODEL else eng.pending_out())
print("server application received:", s.wrappedProtocol.got, "(expected b'hello')")
