"""C05 inlineCallbacks / coroutines vs. synchronous execution, with cancellation at every suspension.

Programs are small ASTs.  ONE interpreter source is instantiated three times by text substitution: as a
generator (driven by inlineCallbacks), as an ``async def`` (driven by ensureDeferred) and as a plain
synchronous function (the oracle: ``await d`` becomes "block until d has an outcome").  The synchronous
run makes every nondeterministic decision through mc.choice (state of each awaited Deferred, whether the
returned Deferred is cancelled at this suspension and what the awaited Deferred's canceller does); the
real runs replay exactly those decisions on real Deferreds and must produce the same in-function trace,
the same final outcome exactly once, and cancel() on exactly the awaited Deferred.
"""
import warnings

from twisted.internet.defer import CancelledError, Deferred, ensureDeferred, inlineCallbacks
from twisted.python.failure import Failure

from mc.choice import Chooser, explore
from mc.runner import Stats

ID = "C05"
LEVEL = "exploration"
TECHNIQUE = "exhaustive program x schedule enumeration, differential against synchronous execution"
RULE = ("every program AST with at most S nodes over {await fresh Deferred, yield plain value, return, raise, cancel own "
        "returned Deferred (<= 4-node programs), "
        "try/except, try/finally (return/await allowed inside finally), 2-iteration loop, call of a nested function "
        "implemented as inlineCallbacks generator / ensureDeferred(coroutine) / bare coroutine object}; for every "
        "program every assignment, in dynamic order, of {already fired with value, already fired with failure, fires "
        "later with value, fires later with failure, already fired but pause()d with a queued callback that produces the "
        "final value / failure and unpaused later, already fired but chained to an unfired inner Deferred that later "
        "fires with value / failure} to the awaited Deferreds (for the larger programs the paused/chained variants are "
        "not a choice: the transport of every not-yet-available Deferred is rotated plain/paused/chained by (await index "
        "+ program index) mod 3), and at every suspension either the "
        "awaited Deferred fires or the returned Deferred is cancelled with the awaited Deferred's canceller in {none, "
        "no-op, fires value, fires failure} (mc.choice.explore, cancels bounded per execution); every such execution "
        "is run as an inlineCallbacks generator and as a coroutine and compared with the synchronous run of the same "
        "AST; raised exceptions and Deferred failures alternate deterministically (by counter parity, no extra choice) "
        "between an Exception subclass and a class deriving directly from BaseException, try/except catches both; "
        "an application exception that escapes from the call, from callback()/errback()/cancel() or into the awaited "
        "Deferred's chain is a violation. non-trivial = distinct (program, decision list) pairs with at least one real suspension "
        "(an unfired Deferred was awaited)")
BOUNDS = {"quick": "every AST with <= 4 nodes (loops not nested): all 8 awaited-Deferred states with <= 1 cancel, and 4 states + "
                   "rotated transport with <= 2 cancels; every 5-node AST of the reduced grammar (no plain-value statement; "
                   "nested calls as inlineCallbacks / bare coroutine), rotated transport, <= 1 cancel; a no-op cancel "
                   "after completion in every execution",
          "thorough": "as quick for <= 4 nodes; every 5-node AST (full grammar), rotated transport, <= 2 cancels; every 6-node "
                      "AST of the reduced grammar, rotated transport, <= 1 cancel"}
ASSUMPTIONS = [
    "a Deferred that fires before the function awaits it is indistinguishable, for inlineCallbacks, from one fired "
    "before the call (no callback is attached until it is yielded), so 'outcomes arrive in any order' reduces to the "
    "fired/unfired state of each Deferred at the moment it is awaited; the function is sequential, so at most one "
    "Deferred is outstanding",
    "each Deferred is awaited at most once; a paused awaited Deferred is unpaused exactly once, by the environment; "
    "cancel() of a fired-but-paused awaited Deferred has no effect (documented), so the function keeps waiting and "
    "the synchronous oracle uses the post-unpause result; at most one cancel per suspension",
    "the three interpreters are one source text; Python's own semantics of generators/coroutines/try/finally are trusted",
    "coroutines cannot await plain values: the 'plain value' statement is a local assignment there",
    "cancellers that raise are outside the alphabet",
    "self-cancel statement: the function calls cancel() on its own returned Deferred while running (possible only after "
    "its first real suspension, when the call has returned the Deferred; in a nested function it cancels the outermost "
    "returned Deferred); the statement is silent on it, accepted: exactly one firing with the function's own outcome "
    "(and the synchronous trace) or with CancelledError; never an exception raised by the machinery",
]
MIN = {"quick": {"evaluations": 950000, "nontrivial": 900000, "outcomes": 9},
       "thorough": {"evaluations": 12000000, "nontrivial": 11000000, "outcomes": 7}}

NSHARDS = 64
CANC = ("none", "noop", "value", "fail")
KINDS = ("pre-ok", "pre-fail", "later-ok", "later-fail")
# paused-*: the awaited Deferred has already fired (stale value) but is pause()d, a callback queued behind the pause
#           turns the stale value into the final value / failure; the environment unpause()s it later
# chained-*: the awaited Deferred has already fired but its chain is suspended on an unfired inner Deferred
KINDS8 = KINDS + ("paused-ok", "paused-fail", "chained-ok", "chained-fail")
TRANSPORT = ("later", "paused", "chained")
NESTED = ("icb", "ens", "raw")


class AppExc(Exception):
    def __init__(self, tag):
        Exception.__init__(self, tag)
        self.tag = tag


class AppBase(BaseException):
    """Application exception deriving directly from BaseException (like asyncio.CancelledError)."""

    def __init__(self, tag):
        BaseException.__init__(self, tag)
        self.tag = tag


APP = (AppExc, AppBase)


def app_exc(tag, parity):
    """Deterministic flavour: even -> Exception subclass, odd -> BaseException subclass."""
    return (AppBase if parity % 2 else AppExc)(tag)


# ------------------------------------------------------------------ the one interpreter source

TEMPLATE = '''
{ASYNC}def run_block(env, stmts):
    for s in stmts:
        sig = {CALL}run_stmt(env, s){END}
        if sig is not None:
            return sig
    return None


{ASYNC}def run_stmt(env, s):
    op = s[0]
    if op == "A":
        d = env.fresh()
        x = {AWAIT}
        env.log(("got", x))
    elif op == "P":
        x = {PLAIN}
        env.log(("plain", x))
    elif op == "C":
        env.log(("self-cancel", env.self_cancel()))
    elif op == "R":
        env.log(("return",))
        return ("ret", env.retval())
    elif op == "X":
        raise env.exc()
    elif op == "T":
        try:
            sig = {CALL}run_block(env, s[1]){END}
            if sig is not None:
                return sig
        except BaseException as e:
            if isinstance(e, GeneratorExit):
                raise
            env.log(("caught", env.tag(e)))
            sig = {CALL}run_block(env, s[2]){END}
            if sig is not None:
                return sig
    elif op == "F":
        try:
            sig = {CALL}run_block(env, s[1]){END}
            if sig is not None:
                return sig
        finally:
            env.log(("finally",))
            fsig = {CALL}run_block(env, s[2]){END}
            if fsig is not None:
                return fsig
    elif op == "L":
        for it in range(2):
            env.log(("iter", it))
            sig = {CALL}run_block(env, s[1]){END}
            if sig is not None:
                return sig
    elif op == "N":
        c = env.spawn(s[1], s[2])
        x = {NESTED}
        env.log(("call-returned", x))
    else:
        raise RuntimeError("bad op %r" % (op,))
    return None


{ASYNC}def function(env, body):
    env.log(("enter",))
    sig = {CALL}run_block(env, body){END}
    env.log(("exit",))
    if sig is not None:
        return sig[1]
    return None
'''

_GEN = dict(ASYNC="", CALL="(yield from ", END=")", AWAIT="(yield d)", PLAIN="(yield env.plain())", NESTED="(yield c)")
_ASYNC = dict(ASYNC="async ", CALL="(await ", END=")", AWAIT="(await d)", PLAIN="env.plain()", NESTED="(await c)")
_SYNC = dict(ASYNC="", CALL="(", END=")", AWAIT="env.resolve(d)", PLAIN="env.plain()", NESTED="c")


def _instantiate(subst, name):
    ns = {}
    exec(compile(TEMPLATE.format(**subst), "<C05-interpreter-%s>" % name, "exec"), ns)
    return ns["function"]


gen_function = _instantiate(_GEN, "generator")
async_function = _instantiate(_ASYNC, "coroutine")
sync_function = _instantiate(_SYNC, "synchronous")
icb_function = inlineCallbacks(gen_function)


def tag_of(e):
    if isinstance(e, APP):
        return (type(e).__name__,) + tuple(e.tag)
    return type(e).__name__


# ------------------------------------------------------------------ environments

class BaseEnv:
    def __init__(self):
        self.trace = []
        self.nret = 0
        self.nexc = 0
        self.nplain = 0
        self.nfresh = 0

    def log(self, ev):
        self.trace.append(ev)

    def retval(self):
        self.nret += 1
        return ("r", self.nret)

    def exc(self):
        self.nexc += 1
        return app_exc(("x", self.nexc), self.nexc + self.nfresh)

    def plain(self):
        self.nplain += 1
        return ("p", self.nplain)

    tag = staticmethod(tag_of)


class ModelEnv(BaseEnv):
    """Synchronous world: ``resolve`` blocks until the Deferred has an outcome; the chooser decides what the
    environment does meanwhile."""

    def __init__(self, ch, max_cancels, mode=None):
        BaseEnv.__init__(self)
        self.ch = ch
        self.mode = mode        # None: all 8 states are a choice; int: 4 states, transport rotated by (index + mode) % 3
        self.decisions = []     # per dynamic await: [kind, canceller-or-None]
        self.max_cancels = max_cancels
        self.ncancels = 0
        self.suspensions = 0
        self.selfcancels = 0

    def self_cancel(self):
        # The function can only hold its own returned Deferred once the call has returned, i.e. after it has been
        # suspended at least once.  Cancelling while running injects nothing into the function.
        if self.suspensions:
            self.selfcancels += 1
            return True
        return False

    def fresh(self):
        self.nfresh += 1
        j = len(self.decisions)
        if self.mode is None:
            kind = KINDS8[self.ch.choose(8, "state of awaited Deferred #%d" % j, free=True)]
        else:
            kind = KINDS[self.ch.choose(4, "state of awaited Deferred #%d" % j, free=True)]
            if kind.startswith("later"):
                kind = TRANSPORT[(j + self.mode) % 3] + kind[5:]
        self.decisions.append([kind, None])
        return j

    def resolve(self, j):
        kind = self.decisions[j][0]
        if kind == "pre-ok":
            return ("v", j)
        if kind == "pre-fail":
            raise app_exc(("e", j), j)
        self.suspensions += 1
        c = 0
        if kind.startswith("paused"):
            # cancel() of a fired, paused Deferred has no effect: the function keeps waiting for unpause()
            if self.ncancels < self.max_cancels:
                c = self.ch.choose(2, "at suspension on paused #%d: unpause / cancel then unpause" % j)
            if c:
                self.ncancels += 1
                self.decisions[j][1] = "no-effect"
            c = 0
        elif self.ncancels < self.max_cancels:
            c = self.ch.choose(1 + len(CANC), "at suspension on #%d: fire / cancel(canceller kind)" % j)
        if c == 0:
            if kind.endswith("-ok"):
                return ("v", j)
            raise app_exc(("e", j), j)
        self.ncancels += 1
        canc = CANC[c - 1]
        self.decisions[j][1] = canc
        if canc == "value":
            return ("cv", j)
        if canc == "fail":
            raise app_exc(("ce", j), j + 1)
        raise CancelledError()

    def spawn(self, flavour, body):
        return sync_function(self, body)


class Obs(Deferred):
    """Awaited Deferred that counts cancel() calls (public subclassing hook)."""

    def __init__(self, canceller=None):
        Deferred.__init__(self, canceller)
        self.liveCancels = 0
        self.calls = 0

    def cancel(self):
        self.calls += 1
        if not self.called:
            self.liveCancels += 1
        Deferred.cancel(self)


class RealEnv(BaseEnv):
    def __init__(self, decisions):
        BaseEnv.__init__(self)
        self.decisions = decisions
        self.ds = []
        self.probe = []         # where callback()/errback() of the pending operation goes (inner Deferred if chained)
        self.outstanding = []
        self.diverged = False
        self.canceller_runs = []
        self.handle = None          # the function's own returned Deferred, available once the call has returned
        self.selfcancelled = False

    def self_cancel(self):
        if self.handle is None:
            return False
        self.selfcancelled = True
        self.handle.cancel()
        return True

    def fresh(self):
        self.nfresh += 1
        j = len(self.ds)
        if j < len(self.decisions):
            kind, canc = self.decisions[j]
        else:
            self.diverged = True
            kind, canc = "pre-ok", None
        c = None
        if canc == "noop":
            def c(d, j=j):
                self.canceller_runs.append(j)
        elif canc == "value":
            def c(d, j=j):
                self.canceller_runs.append(j)
                d.callback(("cv", j))
        elif canc == "fail":
            def c(d, j=j):
                self.canceller_runs.append(j)
                d.errback(app_exc(("ce", j), j + 1))
        if kind.startswith("chained"):
            inner = Obs(c)
            d = Obs()
            d.addCallback(lambda _, inner=inner: inner)
            d.callback(("stale", j))
            self.ds.append(d)
            self.probe.append(inner)
            self.outstanding.append(j)
            return d
        if kind.startswith("paused"):
            d = Obs()
            d.pause()
            d.callback(("stale", j))
            if kind == "paused-ok":
                d.addCallback(lambda _, j=j: ("v", j))
            else:
                d.addCallback(lambda _, j=j: Failure(app_exc(("e", j), j)))
            self.ds.append(d)
            self.probe.append(d)
            self.outstanding.append(j)
            return d
        d = Obs(c)
        self.ds.append(d)
        self.probe.append(d)
        if kind == "pre-ok":
            d.callback(("v", j))
        elif kind == "pre-fail":
            d.errback(app_exc(("e", j), j))
        else:
            self.outstanding.append(j)
        return d

    def spawn(self, flavour, body):
        if flavour == "icb":
            return icb_function(self, body)
        if flavour == "ens":
            return ensureDeferred(async_function(self, body))
        return async_function(self, body)


def describe(r):
    if isinstance(r, Failure):
        return ("raise", tag_of(r.value))
    return ("return", r)


def run_model(program, ch, max_cancels, mode=None):
    env = ModelEnv(ch, max_cancels, mode)
    try:
        final = ("return", sync_function(env, program))
    except (Exception, AppBase) as e:
        final = ("raise", tag_of(e))
    return env, final


def run_real(flavour, program, decisions, exp_trace, exp_final):
    """-> list of (sig, detail)"""
    comp = "inlineCallbacks" if flavour == "icb" else "coroutine"
    env = RealEnv(decisions)
    bad = []
    fired = []
    cancelled = False
    ret = None

    def suffix():
        return ":after-cancel" if cancelled else ""

    try:
        if flavour == "icb":
            ret = icb_function(env, program)
        else:
            ret = ensureDeferred(async_function(env, program))
        ret.addBoth(fired.append)
        env.handle = ret
        guard = 0
        while env.outstanding and not bad:
            guard += 1
            if guard > 64:
                bad.append(("harness:event-loop-did-not-terminate", ""))
                break
            if len(env.outstanding) > 1:
                # only reachable when the function was resumed (or finalised) although its awaited Deferred
                # never fired
                bad.append((comp + ":function-advanced-while-awaited-deferred-unfired" + suffix(), repr(env.outstanding)))
                break
            j = env.outstanding.pop(0)
            kind, canc = env.decisions[j]
            d = env.ds[j]
            if fired and env.selfcancelled and isinstance(fired[0], Failure) and fired[0].check(CancelledError):
                pass    # after a re-entrant self-cancel an immediate CancelledError on the returned Deferred is accepted
            elif fired:
                bad.append((comp + ":returned-deferred-fired-while-function-still-waits" + suffix(),
                            "fired with %r while awaiting #%d" % (describe(fired[0]), j)))
                break
            transport = kind.split("-")[0]
            target = env.probe[j]

            def deliver():
                if transport == "paused":
                    d.unpause()
                elif kind.endswith("-ok"):
                    target.callback(("v", j))
                else:
                    target.errback(app_exc(("e", j), j))

            if canc is None:
                deliver()
                continue
            before = [x.liveCancels for x in env.ds]
            calls0 = d.calls
            ret.cancel()
            cancelled = True
            after = [x.liveCancels for x in env.ds[:len(before)]]
            delta = [a - b for a, b in zip(after, before)]
            delta[j] = d.calls - calls0      # the awaited one may already be `called` (paused / chained): count calls
            want = [1 if k == j else 0 for k in range(len(before))]
            if delta != want:
                if delta[j] == 0:
                    sig = comp + ":cancel-not-delivered-to-awaited-deferred"
                elif delta[j] > 1:
                    sig = comp + ":awaited-deferred-cancelled-more-than-once"
                else:
                    sig = comp + ":cancel-delivered-to-other-deferred"
                if transport != "later":
                    sig += ":awaited-" + transport
                bad.append((sig, "cancel() calls %r, awaited was #%d (%s)" % (delta, j, kind)))
                break
            if transport == "paused" or canc == "none":
                # paused: the cancel had no effect, the environment unpauses later;
                # canceller-less Deferred: the late result of the operation is dropped silently
                deliver()
        if not bad:
            # cancel after completion must be a no-op
            n0 = len(fired)
            live0 = [x.liveCancels for x in env.ds]
            if fired:
                ret.cancel()
                if len(fired) != n0 or [x.liveCancels for x in env.ds] != live0:
                    bad.append((comp + ":cancel-after-completion-had-an-effect" + suffix(), ""))
    except (Exception, AppBase) as e:  # raised out of callback()/errback()/cancel()/the call itself
        import traceback
        where = "from-the-call" if ret is None else "into-the-environment"
        bad.append(("%s:function-exception-escaped-%s:%s%s" % (comp, where, type(e).__name__, suffix())
                    if isinstance(e, APP) else
                    "%s:exception-escaped:%s%s" % (comp, type(e).__name__, suffix()),
                    traceback.format_exc()[-1200:]))
    if not bad and env.selfcancelled:
        # The function cancelled its own returned Deferred while running.  Statement: fires exactly once; accepted:
        # the function's own outcome (with the synchronous trace) or CancelledError (trace equal up to the self-cancel);
        # never an exception of the machinery.
        sfx = ":after-self-cancel"
        first = exp_trace.index(("self-cancel", True)) + 1 if ("self-cancel", True) in exp_trace else 0
        if len(fired) != 1:
            bad.append(("%s:returned-deferred-fired-%d-times%s" % (comp, len(fired), sfx),
                        "synchronous outcome %r" % (exp_final,)))
        elif isinstance(fired[0], Failure) and not isinstance(fired[0].value, APP + (CancelledError,)):
            bad.append(("%s:returned-deferred-fails-with-machinery-exception:%s%s" % (
                comp, type(fired[0].value).__name__, sfx), "real %r, synchronous %r" % (describe(fired[0]), exp_final)))
        elif describe(fired[0]) == exp_final and env.trace == exp_trace and not env.diverged:
            pass
        elif describe(fired[0]) == ("raise", "CancelledError") and env.trace[:first] == exp_trace[:first]:
            pass
        elif env.trace != exp_trace:
            bad.append((comp + ":observed-outcomes-differ-from-synchronous-run" + sfx,
                        "real %r, synchronous %r" % (env.trace[-4:], exp_trace[-4:])))
        else:
            bad.append((comp + ":final-result-differs-from-synchronous-run" + sfx,
                        "real %r, synchronous %r" % (describe(fired[0]), exp_final)))
    elif not bad:
        if env.trace != exp_trace or env.diverged:
            k = 0
            while k < len(env.trace) and k < len(exp_trace) and env.trace[k] == exp_trace[k]:
                k += 1
            bad.append((comp + ":observed-outcomes-differ-from-synchronous-run" + suffix(),
                        "first difference at event %d: real %r, synchronous %r" % (
                            k, env.trace[k:k + 3], exp_trace[k:k + 3])))
        if len(fired) != 1:
            bad.append(("%s:returned-deferred-fired-%d-times%s" % (comp, len(fired), suffix()),
                        "synchronous outcome %r" % (exp_final,)))
        elif describe(fired[0]) != exp_final:
            bad.append((comp + ":final-result-differs-from-synchronous-run" + suffix(),
                        "real %r, synchronous %r" % (describe(fired[0]), exp_final)))
    # anything left in an awaited Deferred's chain was raised inside the machinery
    for j, d in enumerate(env.ds):
        left = []
        d.addBoth(left.append)
        if left and isinstance(left[0], Failure) and not bad:
            v = left[0].value
            # a coroutine awaiting an already failed Deferred leaves that Deferred's own failure in place
            own = isinstance(v, CancelledError) or (isinstance(v, APP) and v.tag in (("e", j), ("ce", j)))
            if own:
                continue
            if isinstance(v, APP):
                bad.append(("%s:function-exception-escaped-into-awaited-deferred-chain:%s%s" % (
                    comp, type(v).__name__, suffix()), "awaited Deferred #%d ends with %r" % (j, v)))
            else:
                bad.append(("%s:exception-inside-machinery:%s%s" % (comp, type(v).__name__, suffix()),
                            "awaited Deferred #%d ends with %r" % (j, v)))
    return bad, env


# ------------------------------------------------------------------ program enumeration

FULL = (("A",), ("P",), ("R",), ("X",)), NESTED
FULLC = (("A",), ("P",), ("C",), ("R",), ("X",)), NESTED     # + "the function cancels its own returned Deferred"
REDUCED = (("A",), ("R",), ("X",)), ("icb", "raw")


def blocks(size, g, allow_empty=False, in_loop=False):
    """All statement lists with exactly `size` nodes; return/raise only in tail position; loops do not nest."""
    if size == 0:
        if allow_empty:
            yield ()
        return
    for first in range(1, size + 1):
        rest = size - first
        for s in stmts(first, g, in_loop):
            if s[0] in ("R", "X"):
                if rest == 0:
                    yield (s,)
                continue
            if rest == 0:
                yield (s,)
            else:
                for tail in blocks(rest, g, False, in_loop):
                    yield (s,) + tail


_stmt_cache = {}


def stmts(size, g, in_loop=False):
    key = (size, g, in_loop)
    if key in _stmt_cache:
        return _stmt_cache[key]
    leaves, nested = g
    out = []
    if size == 1:
        out = list(leaves)
    else:
        inner = size - 1
        # try/except and try/finally: body >= 1, second block >= 0
        for b in range(1, inner + 1):
            for body in blocks(b, g, False, in_loop):
                for second in blocks(inner - b, g, True, in_loop):
                    out.append(("T", body, second))
                    out.append(("F", body, second))
        if not in_loop:
            for body in blocks(inner, g, False, True):
                out.append(("L", body))
        for body in blocks(inner, g, False, in_loop):
            for fl in nested:
                out.append(("N", fl, body))
    _stmt_cache[key] = out
    return out


def has_await(block):
    for s in block:
        if s[0] == "A":
            return True
        for sub in s[1:]:
            if isinstance(sub, tuple) and has_await(sub):
                return True
    return False


def programs_c(upto):
    out = []
    for size in range(1, upto + 1):
        for b in blocks(size, FULLC):
            if has_await(b):
                out.append(b)
    return out


def programs(full_upto, reduced_upto=0):
    """Full grammar for sizes <= full_upto, reduced grammar (no plain-value statement, nested calls only as
    inlineCallbacks / bare coroutine) for full_upto < size <= reduced_upto."""
    out = []
    for size in range(1, max(full_upto, reduced_upto) + 1):
        g = FULL if size <= full_upto else REDUCED
        for b in blocks(size, g):
            if has_await(b):
                out.append(b)
    return out


def tier_programs(tier):
    """-> list of (program, max_cancels, mode); mode None = all 8 awaited-Deferred states are a choice,
    mode k = 4 states with the transport of unfired ones (plain / paused / chained) rotated by (await index + k) % 3"""
    small = programs(4)
    out = [(p, 1, None) for p in small] + [(p, 2, i) for i, p in enumerate(programs_c(4))]
    if tier == "quick":
        both = programs(4, 5)
        out += [(p, 1, i) for i, p in enumerate(both[len(small):])]
        return out
    full = programs(5)
    both = programs(5, 6)
    out += [(p, 2, i) for i, p in enumerate(full[len(small):])]
    out += [(p, 1, i) for i, p in enumerate(both[len(full):])]
    return out


def shards(tier, seed):
    return [[k, NSHARDS] for k in range(NSHARDS)]


def to_tuple(x):
    if isinstance(x, list):
        return tuple(to_tuple(i) for i in x)
    return x


def check_execution(program, choices, max_cancels, mode=None):
    """Run model with the given choice prefix, then both real flavours.  -> (violations, model env, final)"""
    ch = Chooser(choices)
    menv, final = run_model(program, ch, max_cancels, mode)
    out = []
    for fl in ("icb", "coro"):
        bad, _ = run_real(fl, program, menv.decisions, menv.trace, final)
        out.extend(bad)
    return out, menv, final


def run_shard(shard, tier, seed):
    k, n = shard
    st = Stats()
    progs = tier_programs(tier)
    warnings.simplefilter("ignore")
    mine = range(k, len(progs), n)
    for idx in mine:
        program, max_cancels, mode = progs[idx]

        def run(ch):
            return run_model(program, ch, max_cancels, mode)

        for ch, (menv, final) in explore(run, bound=max_cancels):
            st.evaluations += 1
            if menv.suspensions:
                st.nt((idx, tuple(ch.choices)))
            st.outcome("%s%s" % (final[0] if final[0] == "return" else
                                 ("raise-CancelledError" if final[1] == "CancelledError" else "raise-" + final[1][0]),
                                 ":cancelled-%d" % menv.ncancels if menv.ncancels else ""))
            for fl in ("icb", "coro"):
                bad, _ = run_real(fl, program, menv.decisions, menv.trace, final)
                for sig, detail in bad:
                    st.violation(sig, detail, {"program": program, "choices": ch.choices, "max_cancels": max_cancels,
                                               "mode": mode, "flavour": fl, "decisions": menv.decisions})
            if st.evaluations % 50021 == 1:
                st.sample({"program": program, "decisions": menv.decisions, "trace": menv.trace, "final": final})
    st.count("programs", len(mine))
    return st


def replay(w):
    warnings.simplefilter("ignore")
    program = to_tuple(w["program"])
    bad, menv, final = check_execution(program, list(w["choices"]), w["max_cancels"], w.get("mode"))
    return [(s, d) for s, d in bad]
