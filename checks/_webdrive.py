"""Helper for C26: drive one HTTP request through a real Site/HTTPChannel onto a MemTransport, pumping the
pull->push adapter that HTTPChannel uses for pull producers with a harness-owned Cooperator."""
import signal

_S = {"q": None, "installed": False, "hung": False, "log": []}


class Hang(BaseException):
    """CPU-time watchdog fired (one request used more than WATCHDOG_S seconds of user CPU)."""


WATCHDOG_S = 1.0


class _DC:
    def cancel(self):
        pass


def _on_vtalrm(signum, frame):
    _S["hung"] = True
    raise Hang()


def fresh_cooperator():
    from twisted.internet import task
    q = []

    def sched(f):
        q.append(f)
        return _DC()
    coop = task.Cooperator(scheduler=sched, terminationPredicateFactory=lambda: (lambda: True))
    try:
        from twisted.internet import _producer_helpers
        if hasattr(_producer_helpers, "cooperate"):
            _producer_helpers.cooperate = coop.cooperate
    except ImportError:
        pass
    _S["q"] = q


def install():
    if _S["installed"]:
        return
    from twisted.logger import globalLogPublisher, globalLogBeginner

    def obs(event):
        f = event.get("log_failure") or event.get("failure")
        if f is not None:
            try:
                _S["log"].append(f.type.__name__)
            except Exception:
                _S["log"].append("Failure")
    try:
        globalLogBeginner.beginLoggingTo([obs], redirectStandardIO=False, discardBuffer=True)
    except Exception:
        globalLogPublisher.addObserver(obs)
    signal.signal(signal.SIGVTALRM, _on_vtalrm)
    _S["installed"] = True


def request(site, raw_request, max_ticks=200):
    """-> (response bytes, hung?, logged failure type names)"""
    from mc.net import MemTransport
    from twisted.python.failure import Failure
    from twisted.internet.error import ConnectionDone
    install()
    fresh_cooperator()
    del _S["log"][:]
    _S["hung"] = False
    ch = site.buildProtocol(None)
    t = MemTransport()
    ch.makeConnection(t)
    signal.setitimer(signal.ITIMER_VIRTUAL, WATCHDOG_S, 1.0)
    try:
        ch.dataReceived(raw_request)
        q = _S["q"]
        n = 0
        while q and n < max_ticks:
            q.pop(0)()
            n += 1
    except Hang:
        pass
    finally:
        signal.setitimer(signal.ITIMER_VIRTUAL, 0)
    raw = t.value()
    try:
        ch.connectionLost(Failure(ConnectionDone()))
    except Exception:
        pass
    return raw, _S["hung"], list(_S["log"])
