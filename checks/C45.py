"""C45 Jelly: unjellying under a SecurityOptions policy never hands out, resolves names in, imports or
instantiates anything the policy does not allow; jelly -> unjelly preserves graphs of allowed objects.

Security half: every s-expression of bounded depth over jelly's tags x a name alphabet drawn from a scratch
package (allowed module, disallowed module with attribute-access logging, never-imported module, allowed
module attributes bound to disallowed modules / classes / functions, real dangerous callables) is given to the
real ``jelly.unjelly`` under three policies.  Oracle = statement: it raises, or the returned object graph
consists only of allowed things; independent of the result, no name was resolved in the disallowed scratch
module, no disallowed scratch module was imported, no class of a disallowed module was instantiated.

Round-trip half: every object graph with <= N container nodes (list/tuple/dict/set/frozenset/instance, sharing
and cycles) is jellied and unjellied; oracle = graph isomorphism incl. identity of mutable nodes.
"""
import itertools
import os
import shutil
import sys
import types

from mc.runner import Stats

ID = "C45"
LEVEL = "exploration"
TECHNIQUE = "exhaustive grammar enumeration of s-expressions x policies with side-effect instrumentation; exhaustive small object graphs"
RULE = ("security: all s-expressions of depth <= D built from the 3 naming atoms (module/class/function) and the generic "
        "dotted-type form over a 45-name alphabet (dotted and undotted) (one name per resolution special case: allowed / disallowed / "
        "never-imported module, allowed-module attribute that is a disallowed module, unlisted class, foreign class, "
        "foreign function, sub-attribute chains, package with one allowed submodule, malformed names), wrapped by every "
        "structural tag (instance, method, list, tuple, dictionary key/value, set, frozenset, reference, forward and "
        "backward dereference, persistent, unpersistable, instance state, registered unjellyable state), under 3 "
        "policies (basic types only; allowInstancesOf; + function/method types).  history: for every first call c1 out of "
        "(5 policies incl. DummySecurityOptions and one allowing the otherwise disallowed module) x (module/class/"
        "function/generic/instance/method forms over 14 names), a fresh process runs c1 and then the whole call "
        "alphabet, every call judged by its own policy -- every ordered pair of calls (both orders) plus longer "
        "histories, under three policy-object lifecycles (all constructed strict-first up front; permissive-first up "
        "front; each constructed and configured at first use inside the history); verdicts come from the harness's own "
        "record of what each policy was configured to allow, never from the policy object; a failing call is re-run in "
        "fresh processes to find the shortest reproducing history.  round trip: every constructible "
        "rooted graph with <= N container nodes of 7 kinds and <= 2 children each.  non-trivial = an expression "
        "that names something outside the policy, or a graph with a shared or cyclic reference")
BOUNDS = {"quick": "s-expression depth 3 (naming atom inside one wrapper inside one wrapper); graphs with <= 3 nodes (3rd level: 5 kinds)",
          "thorough": "s-expression depth 3 with all wrapper pairs; graphs with <= 3 nodes of all 7 kinds, <= 3 children for <= 2 nodes"}
ASSUMPTIONS = [
    "atoms inside s-expressions are what banana can deliver: bytes, int, float, list",
    "a returned function object is accepted when it is an attribute of an allowed module/class (the policy has no "
    "notion of allowed functions); jelly's own Unpersistable and unresolved crefutil placeholders are accepted",
    "importing a parent package on the way to an allowed submodule is not counted as a resolution in a disallowed module",
    "identity is demanded for mutable nodes (list, dict, set, instance) only; tuples/frozensets are compared structurally",
]
MIN = {"quick": {"evaluations": 170000, "nontrivial": 120000, "outcomes": 6},
       "thorough": {"evaluations": 170000, "nontrivial": 120000, "outcomes": 6}}

# ----------------------------------------------------------------------------------------------
# scratch package

SRC = {
    "c45ok.py": '''
import os, subprocess
import c45ok_log
import c45evil as evil
from c45evil import Bad as ImportedBad, g as imported_g
from os import system as imported_system
class GoodBase:
    def basemeth(self):
        return 0
class Good(GoodBase):
    def meth(self):
        return 1
class GoodChild(Good):
    def __new__(cls, *a, **k):
        c45ok_log.LOG.append("instantiated:c45ok.GoodChild")
        return object.__new__(cls)
    def __setstate__(self, state):
        c45ok_log.LOG.append("setstate:c45ok.GoodChild")
        self.__dict__ = state if isinstance(state, dict) else {}
class GoodSibling(GoodBase):
    pass
class Other:
    def __new__(cls, *a, **k):
        c45ok_log.LOG.append("instantiated:c45ok.Other")
        return object.__new__(cls)
    def run(self):
        return 2
class Meta(type):
    pass
class WithMeta(metaclass=Meta):
    pass
class RegCopy:
    def unjellyFor(self, unjellier, jellyList):
        self.state = unjellier.unjelly(jellyList[1])
        return self
def func():
    return 3
def factory(state):
    r = RegCopy()
    r.state = state
    return r
''',
    "c45evil.py": '''
import c45ok_log
class Bad:
    def __new__(cls, *a, **k):
        c45ok_log.LOG.append("instantiated:c45evil.Bad")
        return object.__new__(cls)
    def __setstate__(self, state):
        c45ok_log.LOG.append("setstate:c45evil.Bad")
    def run(self):
        return 4
def g():
    return 5
''',
    "c45ok_log.py": "LOG = []\n",
    "c45lazy.py": '''
import c45ok_log
c45ok_log.LOG.append("imported:c45lazy")
class X:
    pass
def f():
    pass
''',
    "c45pkg/__init__.py": "",
    "c45pkg/inner.py": '''
class Deep:
    pass
''',
    "c45pkg/secret.py": '''
import c45ok_log
c45ok_log.LOG.append("imported:c45pkg.secret")
class S:
    pass
''',
}


class Env:
    """Scratch package + instrumentation, per worker process."""
    _cur = None

    @classmethod
    def get(cls):
        if cls._cur is None or cls._cur.pid != os.getpid():
            cls._cur = Env()
        return cls._cur

    def __init__(self):
        self.pid = os.getpid()
        self.root = "/dev/shm/verif-C45-%d" % self.pid
        shutil.rmtree(self.root, ignore_errors=True)
        os.makedirs(self.root + "/c45pkg")
        for name, src in SRC.items():
            with open(os.path.join(self.root, name), "w") as f:
                f.write(src)
        sys.path.insert(0, self.root)
        import c45ok_log, c45evil, c45ok, c45pkg.inner   # noqa
        self.log = c45ok_log.LOG
        self.ok, self.evil, self.pkg, self.inner = c45ok, c45evil, c45pkg, c45pkg.inner
        log = self.log

        class LoggingModule(types.ModuleType):
            def __getattribute__(self, name):
                if not (name.startswith("__") and name.endswith("__")):
                    log.append("resolved-in:c45evil:" + name)
                return types.ModuleType.__getattribute__(self, name)

        c45evil.__class__ = LoggingModule
        from twisted.spread import jelly
        self.jelly = jelly
        jelly.setUnjellyableForClass(b"c45reg.Remote", c45ok.RegCopy)
        jelly.setUnjellyableFactoryForClass(b"c45reg.Fact", c45ok.factory)
        self.registered = {c45ok.RegCopy}
        # reference policies: what the harness *configured*, independent of how SecurityOptions stores it.  All
        # verdicts use these, never the real policy object's own answers.
        self.ref = {
            "basic": RefPolicy(set(), set()),
            "instances": RefPolicy({"c45ok", "c45pkg.inner"}, {c45ok.Good, c45pkg.inner.Deep}),
            "instances+function": RefPolicy({"c45ok", "c45pkg.inner"}, {c45ok.Good, c45pkg.inner.Deep}),
            "evil-instances+function": RefPolicy({"c45evil"}, {c45evil.Bad}),
            "dummy": RefPolicy(None, None),
        }
        self.rebuild_policies("eager")

    POLICY_ORDER = ["basic", "instances", "instances+function", "dummy", "evil-instances+function"]

    def make_policy(self, pname):
        """Construct and configure a fresh real policy object."""
        jelly = self.jelly
        if pname == "dummy":
            return jelly.DummySecurityOptions()
        p = jelly.SecurityOptions()
        p.allowBasicTypes()
        if pname in ("instances", "instances+function"):
            p.allowInstancesOf(self.ok.Good, self.inner.Deep)
        if pname == "evil-instances+function":
            p.allowInstancesOf(self.evil.Bad)
        if pname.endswith("+function"):
            p.allowTypes("function", "method")
        return p

    def rebuild_policies(self, mode):
        """eager: all policy objects constructed strict-first before any call; eager-reversed: permissive ones
        constructed and configured first, the strict ones after them; lazy: each policy object is constructed and
        configured at its first use inside the history (so a strict object made earlier is used again after a
        permissive one has been configured, and the reverse)."""
        env = self

        class Table(dict):
            def __missing__(self, pname):
                self[pname] = env.make_policy(pname)
                return self[pname]

        t = Table()
        order = {"eager": self.POLICY_ORDER, "eager-reversed": self.POLICY_ORDER[::-1], "lazy": []}[mode]
        for pname in order:
            t[pname]
        self.hist_policies = t
        self.policies = {k: t[k] for k in ("basic", "instances", "instances+function")} if mode != "lazy" else {}
        # remove the sources: everything needed is imported; the lazy ones must stay importable, so keep the dir
        # until close()

    def reset(self):
        del self.log[:]
        for m in ("c45lazy", "c45pkg.secret"):
            sys.modules.pop(m, None)
        self.pkg.__dict__.pop("secret", None)

    def close(self):
        from twisted.spread import jelly
        jelly.unjellyableRegistry.pop(b"c45reg.Remote", None)
        jelly.unjellyableFactoryRegistry.pop(b"c45reg.Fact", None)
        try:
            sys.path.remove(self.root)
        except ValueError:
            pass
        shutil.rmtree(self.root, ignore_errors=True)
        Env._cur = None


class RefPolicy:
    """Reference model of a policy: the sets the harness asked for (None = everything)."""

    def __init__(self, modules, classes):
        self.modules, self.classes = modules, classes

    def isModuleAllowed(self, name):
        if isinstance(name, bytes):
            name = name.decode("utf-8", "replace")
        return self.modules is None or name in self.modules

    def isClassAllowed(self, cls):
        return self.classes is None or cls in self.classes


# name alphabet: (bytes name, category).  Categories go into signatures.
MODULE_NAMES = [
    (b"c45ok", "allowed-module"), (b"c45evil", "disallowed-module"), (b"c45lazy", "unimported-disallowed-module"),
    (b"os", "disallowed-module"), (b"c45ok.os", "allowed.attr=disallowed-module"), (b"c45ok.evil", "allowed.attr=disallowed-module"),
    (b"c45pkg", "parent-of-allowed-module"), (b"c45pkg.inner", "allowed-submodule"), (b"c45pkg.secret", "unimported-disallowed-module"),
    (b"", "malformed"), (b"c45ok.Good", "allowed-class"),
]
QUAL_NAMES = [
    (b"c45ok.Good", "allowed-class"), (b"c45ok.Other", "allowed.attr=unlisted-class"), (b"c45ok.func", "allowed-function"),
    (b"c45ok.os", "allowed.attr=disallowed-module"), (b"c45ok.evil", "allowed.attr=disallowed-module"),
    (b"c45ok.ImportedBad", "allowed.attr=foreign-class"), (b"c45ok.imported_system", "allowed.attr=foreign-function"),
    (b"c45ok.imported_g", "allowed.attr=foreign-function"), (b"c45ok.Good.meth", "allowed-class.attr"),
    (b"c45ok.os.system", "allowed.attr.attr"), (b"c45ok.evil.Bad", "allowed.attr.attr"), (b"c45ok.evil.g", "allowed.attr.attr"),
    (b"c45evil.Bad", "disallowed.attr"), (b"c45evil.g", "disallowed.attr"), (b"c45lazy.X", "unimported-disallowed.attr"),
    (b"c45lazy.f", "unimported-disallowed.attr"), (b"os.system", "disallowed.attr"), (b"subprocess.Popen", "disallowed.attr"),
    (b"builtins.eval", "disallowed.attr"), (b"builtins.int", "disallowed.attr"), (b"c45pkg.inner.Deep", "allowed-class"),
    (b"c45pkg.secret.S", "unimported-disallowed.attr"), (b"c45pkg.inner", "parent.attr=allowed-submodule"),
    (b"c45ok.WithMeta", "allowed.attr=unlisted-class"), (b"c45ok.RegCopy", "allowed.attr=unlisted-class"),
    (b"c45ok.GoodChild", "allowed.attr=unlisted-subclass-of-allowed-class"),
    (b"c45ok.GoodBase", "allowed.attr=unlisted-superclass-of-allowed-class"),
    (b"c45ok.GoodSibling", "allowed.attr=unlisted-sibling-of-allowed-class"),
    (b"c45ok.nonexistent", "malformed"), (b"Good", "malformed"), (b"", "malformed"), (b"c45ok.", "malformed"),
    (b".c45ok", "malformed"), (b"c45ok..Good", "malformed"), (b"c45ok", "allowed-module"),
    # undotted names: the "module part" is empty, nothing may be imported or resolved for them
    (b"c45lazy", "undotted-unimported-disallowed-module"), (b"c45evil", "undotted-disallowed-module"),
    (b"c45pkg", "undotted-parent-of-allowed-module"), (b"c45nonexistent", "undotted-nonexistent"),
]
STATES = [[b"dictionary"], [b"dictionary", [b"x", 1]], 5]


def naming_atoms():
    """[(sexp, label)] -- the depth-1 expressions that name something."""
    out = []
    for n, cat in MODULE_NAMES:
        out.append(([b"module", n], "module:" + cat))
    for n, cat in QUAL_NAMES:
        out.append(([b"class", n], "class:" + cat))
        out.append(([b"function", n], "function:" + cat))
    for n, cat in QUAL_NAMES:
        for st in STATES[:2]:
            out.append(([n, st], "generic:" + cat))
    out.append(([b"c45reg.Remote", [b"dictionary", [b"q", 1]]], "registered-unjellyable"))
    out.append(([b"c45reg.Fact", [b"dictionary", [b"q", 1]]], "registered-factory"))
    out.append(([b"module", 5], "module:malformed"))
    out.append(([b"class", [b"list"]], "class:malformed"))
    out.append(([5, 5], "generic:malformed"))
    out.append(([[b"list"], 5], "generic:malformed"))
    out.append(([b"module"], "module:malformed"))
    return out


GOOD_INST = [b"c45ok.Good", [b"dictionary", [b"v", 1]]]
BAD_INST = [b"c45evil.Bad", [b"dictionary"]]


def wrappers():
    """[(name, fn(e) -> sexp)]"""
    W = [
        ("list", lambda e: [b"list", e]),
        ("tuple", lambda e: [b"tuple", 1, e]),
        ("dict-value", lambda e: [b"dictionary", [b"k", e]]),
        ("dict-key", lambda e: [b"dictionary", [e, 1]]),
        ("set", lambda e: [b"set", e]),
        ("frozenset", lambda e: [b"frozenset", e]),
        ("reference", lambda e: [b"reference", 1, e]),
        ("ref-then-deref", lambda e: [b"list", [b"reference", 1, e], [b"dereference", 1]]),
        ("deref-then-ref", lambda e: [b"tuple", [b"dereference", 1], [b"reference", 1, e]]),
        ("persistent", lambda e: [b"persistent", e]),
        ("unpersistable", lambda e: [b"unpersistable", e]),
        ("good-state", lambda e: [b"c45ok.Good", [b"dictionary", [b"x", e]]]),
        ("good-state-direct", lambda e: [b"c45ok.Good", e]),
        ("registered-state", lambda e: [b"c45reg.Remote", e]),
        ("factory-state", lambda e: [b"c45reg.Fact", e]),
        ("instance-class", lambda e: [b"instance", e, [b"dictionary", [b"a", 1]]]),
        ("instance-state", lambda e: [b"instance", [b"class", b"c45ok.Good"], e]),
        ("method-class-none", lambda e: [b"method", b"meth", [b"None"], e]),
        ("method-name", lambda e: [b"method", e[1] if len(e) > 1 else e, [b"None"], [b"class", b"c45ok.Good"]]),
        ("method-class-run", lambda e: [b"method", b"run", [b"None"], e]),
        ("method-class-self", lambda e: [b"method", b"meth", list(GOOD_INST), e]),
        ("method-run-badself", lambda e: [b"method", b"run", list(BAD_INST), e]),
        ("method-self", lambda e: [b"method", b"meth", e, [b"class", b"c45ok.Good"]]),
        ("method-self-deref", lambda e: [b"list", [b"method", b"meth", [b"dereference", 1], e], [b"reference", 1, list(GOOD_INST)]]),
        ("unicode", lambda e: [b"unicode", e]),
        ("boolean", lambda e: [b"boolean", e]),
        ("decimal", lambda e: [b"decimal", e, 0]),
        ("datetime", lambda e: [b"datetime", e]),
        ("as-type", lambda e: [e, [b"dictionary"]]),
    ]
    return W


PLAIN = [
    ([b"None"], "plain"), ([b"boolean", b"true"], "plain"), ([b"unicode", b"x"], "plain"), ([b"decimal", 15, -1], "plain"),
    ([b"datetime", b"2000 1 2 3 4 5 6"], "plain"), ([b"date", b"2000 1 2"], "plain"), ([b"time", b"1 2 3 4"], "plain"),
    ([b"timedelta", b"1 2 3"], "plain"), ([b"list", 1, b"a", 1.5], "plain"), ([b"dereference", 9], "plain"),
    ([b"persistent", b"id"], "plain"), ([b"unpersistable", b"why"], "plain"), (list(GOOD_INST), "plain"),
    ([b"instance", [b"class", b"c45ok.Good"], [b"dictionary"]], "plain"), ([b"nosuchtype", 1], "plain"),
    ([b"method", b"meth", [b"None"], [b"class", b"c45ok.Good"]], "plain"), (b"atom", "plain"), (7, "plain"),
    ([b"set", 1, 2], "plain"), ([b"frozenset", b"a"], "plain"), ([b"tuple"], "plain"), ([], "plain"),
    ([b"unjellyFull"], "plain"), ([b"_unjelly_list", 1], "plain"), ([b"long", 1], "plain"), ([b"dict", 1], "plain"),
]


def all_sexps(tier):
    """Yield (sexp, label, naming sub-expression label) exhaustively for the tier."""
    atoms = naming_atoms()
    for e, lab in atoms:
        yield e, lab
    for e, lab in PLAIN:
        yield e, lab
    W = wrappers()
    for wn, wf in W:
        for e, lab in atoms:
            yield wf(e), wn + "(" + lab + ")"
    outer = W if tier == "thorough" else [w for w in W if w[0] in (
        "list", "dict-key", "reference", "deref-then-ref", "good-state", "instance-class", "instance-state",
        "method-class-none", "method-self", "registered-state", "tuple")]
    for on, of in outer:
        for wn, wf in W:
            for e, lab in atoms:
                yield of(wf(e)), on + "(" + wn + "(" + lab + "))"


# ----------------------------------------------------------------------------------------------
# oracle for the security half

SAFE_TYPES = None


def function_ok(env, policy, f):
    mod = getattr(f, "__module__", None)
    try:
        if isinstance(mod, str) and policy.isModuleAllowed(mod):
            return True
    except Exception:
        pass
    for m in (env.ok, env.inner):
        if policy.isModuleAllowed(m.__name__):
            for v in vars(m).values():
                if v is f:
                    return True
                if isinstance(v, type) and policy.isClassAllowed(v) and any(x is f for x in vars(v).values()):
                    return True
    return False


def audit_result(env, policy, obj):
    """Return [(kind, description)] for everything in the returned graph that the policy does not allow."""
    import datetime
    import decimal
    from twisted.spread import jelly
    bad, seen, todo = [], set(), [obj]
    basic = (type(None), bool, int, float, bytes, str, decimal.Decimal, datetime.datetime, datetime.date,
             datetime.time, datetime.timedelta)
    while todo:
        o = todo.pop()
        if id(o) in seen:
            continue
        seen.add(id(o))
        t = type(o)
        if t in basic:
            continue
        if t in (list, tuple, set, frozenset):
            todo.extend(o)
        elif t is dict:
            todo.extend(o.keys())
            todo.extend(o.values())
        elif isinstance(o, types.ModuleType):
            if not policy.isModuleAllowed(o.__name__):
                bad.append(("module", o.__name__))
        elif isinstance(o, type):
            if not (policy.isClassAllowed(o) or o in env.registered):
                bad.append(("class", o.__module__ + "." + o.__qualname__))
        elif isinstance(o, types.MethodType):
            todo.append(o.__self__)
            todo.append(o.__func__)
        elif isinstance(o, (types.FunctionType, types.BuiltinFunctionType, types.MethodDescriptorType,
                            types.WrapperDescriptorType, types.BuiltinMethodType)):
            if not function_ok(env, policy, o):
                bad.append(("function", "%s.%s" % (getattr(o, "__module__", "?"), getattr(o, "__qualname__", "?"))))
        elif t is jelly.Unpersistable:
            continue
        elif t.__module__ == "twisted.persisted.crefutil":
            continue
        else:
            if not (policy.isClassAllowed(t) or t in env.registered):
                bad.append(("instance", t.__module__ + "." + t.__qualname__))
            d = getattr(o, "__dict__", None)
            if isinstance(d, dict):
                todo.append(d)
    return sorted(set(bad))


def evaluate(env, pname, sexp):
    """Run the real unjelly; return (outcome, [(kind, description)])."""
    import copy
    import warnings
    real_policy = env.hist_policies[pname]
    policy = env.ref[pname]          # the oracle's view of the same policy
    env.reset()
    problems = []
    arg = copy.deepcopy(sexp)
    with warnings.catch_warnings():
        warnings.simplefilter("ignore")
        try:
            res = env.jelly.unjelly(arg, taster=real_policy)
            raised = None
        except Exception as e:
            raised = e
            res = None
    log = list(env.log)
    if raised is None:
        for kind, what in audit_result(env, policy, res):
            problems.append(("returned-" + kind, what))
    def allowed(modname):
        try:
            return bool(policy.isModuleAllowed(modname))
        except Exception:
            return False

    for entry in sorted(set(log)):
        if entry.startswith("resolved-in:"):
            if not allowed(entry.split(":")[1]):
                problems.append(("resolved-name-in-disallowed-module", entry))
        elif entry.startswith("imported:"):
            if not allowed(entry.split(":")[1]):
                problems.append(("imported-disallowed-module", entry))
        elif entry.startswith(("instantiated:c45evil", "setstate:c45evil")):
            if not allowed("c45evil"):
                problems.append(("instantiated-class-of-disallowed-module", entry))
    for m in ("c45lazy", "c45pkg.secret"):
        if m in sys.modules and not allowed(m) and not any(p[0] == "imported-disallowed-module" for p in problems):
            problems.append(("imported-disallowed-module", m))
    env.reset()
    outcome = "raised" if raised is not None else "returned"
    return outcome, problems, (type(raised).__name__ if raised is not None else None)


def subexpressions(sexp):
    if isinstance(sexp, list):
        for x in sexp:
            if isinstance(x, list):
                yield x
                for y in subexpressions(x):
                    yield y


def label_of(sexp):
    """Category label of a naming atom (for signatures), or the bare tag."""
    for e, lab in naming_atoms():
        if e == sexp:
            return lab
    if isinstance(sexp, list) and sexp and isinstance(sexp[0], bytes):
        return sexp[0].decode("latin-1")
    return "?"


def attribute(env, pname, sexp, problems):
    """Narrow signature: blame the smallest sub-expression that violates the policy on its own (a consequence of
    an inner hole is the inner hole's finding); only an expression none of whose parts violates is blamed itself."""
    subs = sorted(subexpressions(sexp), key=lambda s: len(repr(s)))
    for s in subs:
        o, p, _ = evaluate(env, pname, s)
        if p:
            return attribute(env, pname, s, p)
    return [("jelly.unjelly:%s:%s" % (label_of(sexp), kind), what) for kind, what in problems]


def security_case(env, stats, pname, sexp, label):
    outcome, problems, exc = evaluate(env, pname, sexp)
    stats.evaluations += 1
    stats.outcome(outcome)
    if "disallowed" in label or "unlisted" in label or "foreign" in label or "allowed.attr.attr" in label:
        stats.nt((pname, repr(sexp)))
    if problems:
        stats.outcome("policy-violated")
        for sig, what in attribute(env, pname, sexp, problems):
            stats.violation(sig, "policy %s, unjelly(%r): %s" % (pname, sexp, what),
                            {"mode": "sec", "policy": pname, "sexp": sexp})
    return outcome


# ----------------------------------------------------------------------------------------------
# history dimension: state carried from one unjelly call (and policy) to the next in ONE process

HIST_NAMES = [b"c45ok.Good", b"c45ok.Other", b"c45ok.func", b"c45ok.os", b"c45ok.evil", b"c45ok.ImportedBad",
              b"c45ok.imported_g", b"c45ok.evil.Bad", b"c45evil.Bad", b"c45evil.g", b"c45lazy.X", b"os.system",
              b"c45pkg.inner.Deep", b"c45pkg.secret.S", b"c45lazy", b"c45ok",
              b"c45ok.GoodChild", b"c45ok.GoodBase"]
HIST_MODULES = [b"c45ok", b"c45evil", b"c45lazy", b"os", b"c45pkg.inner", b"c45pkg.secret"]
HIST_POLICIES = ["dummy", "evil-instances+function", "instances+function", "instances", "basic"]


def hist_calls():
    """[(policy name, sexp, label)]: every name-resolving / instance-producing form x every policy, permissive
    policies first."""
    cat = dict(QUAL_NAMES)
    mcat = dict(MODULE_NAMES)
    exprs = [([b"module", n], "module:" + mcat[n]) for n in HIST_MODULES]
    for n in HIST_NAMES:
        exprs.append(([b"class", n], "class:" + cat[n]))
        exprs.append(([b"function", n], "function:" + cat[n]))
        exprs.append(([n, [b"dictionary", [b"x", 1]]], "generic:" + cat[n]))
        exprs.append(([b"instance", [b"class", n], [b"dictionary", [b"a", 1]]], "instance-class(class:%s)" % cat[n]))
    exprs.append(([b"method", b"run", [b"None"], [b"class", b"c45evil.Bad"]], "method(class:disallowed.attr)"))
    exprs.append(([b"method", b"meth", list(GOOD_INST), [b"class", b"c45ok.Good"]], "method(class:allowed-class)"))
    exprs.append(([b"c45reg.Remote", [b"dictionary", [b"q", 1]]], "registered-unjellyable"))
    return [(p, e, lab) for p in HIST_POLICIES for e, lab in exprs]


def in_fresh_fork(fn):
    """Run fn() in a forked child (the caller has not executed any unjelly itself) and return its JSON-able result."""
    import json
    r, w = os.pipe()
    pid = os.fork()
    if pid == 0:
        code = 0
        try:
            os.close(r)
            data = json.dumps(fn()).encode()
            while data:
                n = os.write(w, data)
                data = data[n:]
        except BaseException:
            import traceback
            traceback.print_exc()
            code = 1
        finally:
            os._exit(code)
    os.close(w)
    chunks = []
    while True:
        b = os.read(r, 1 << 16)
        if not b:
            break
        chunks.append(b)
    os.close(r)
    _, status = os.waitpid(pid, 0)
    if status != 0:
        raise RuntimeError("history child failed (status %r)" % status)
    return json.loads(b"".join(chunks).decode())


def run_history(env, calls, seq, mode="eager"):
    """Execute the calls with indices ``seq`` in order in this process; return the problems of each."""
    env.rebuild_policies(mode)
    out = []
    for i in seq:
        pname, sexp, label = calls[i]
        outcome, problems, exc = evaluate(env, pname, sexp)
        out.append([[k, wh] for k, wh in problems])
    return out


def hist_sig(calls, seq, kind, mode="eager"):
    base = hist_sig0(calls, seq, kind)
    return base if mode == "eager" else base + ":policies-" + mode


def hist_sig0(calls, seq, kind):
    p2, e2, l2 = calls[seq[-1]]
    if len(seq) == 1:
        return "jelly.unjelly:%s:%s" % (l2, kind)
    if len(seq) == 2:
        p1, e1, l1 = calls[seq[0]]
        return "jelly.unjelly.history:%s@%s:%s:after:%s@%s" % (l2, p2, kind, l1, p1)
    return "jelly.unjelly.history:%s@%s:%s:after-longer-history" % (l2, p2, kind)


def hist_main(idx, nparts, tier):
    """Entry point of the fresh interpreter started by a 'hist' shard.  This process never calls unjelly itself.
    Phase 1: one forked child runs the long history  c1, <whole call alphabet>, c1', <whole call alphabet>, ...  for
    this shard's first calls, each call judged by its own policy.  Phase 2: every failing call is re-run in further
    fresh forks of this (still pristine) process to find the shortest history that reproduces it: alone, after the
    block's c1, or after one predecessor found by bisection."""
    import json
    env = Env.get()
    try:
        calls = hist_calls()
        n = len(calls)
        seq = []
        for c1 in range(n):
            if c1 % nparts == idx:
                seq.append(c1)
                seq.extend(range(n))
        found = {}      # (label, policy, kind) of the failing call -> (mode, position of its first failure, text)
        for mode in ("eager", "eager-reversed", "lazy"):
            res = in_fresh_fork(lambda: run_history(env, calls, seq, mode))
            for pos, problems in enumerate(res):
                for kind, what in problems:
                    found.setdefault((calls[seq[pos]][2], calls[seq[pos]][0], kind), (mode, pos, what))
        findings = []
        for (label, pname, kind), (mode, pos, what) in sorted(found.items(), key=lambda kv: kv[1][1])[:6]:
            c2 = seq[pos]

            def fails(history):
                r = in_fresh_fork(lambda: run_history(env, calls, history + [c2], mode))
                return any(k == kind for k, _ in r[-1])

            preds = sorted(set(seq[:pos]))
            if fails([]):
                best = [c2]
            elif not fails(preds):
                best = seq[:pos + 1]            # order-dependent: keep the literal history
            else:
                cur = preds
                while len(cur) > 1:
                    half = cur[:len(cur) // 2]
                    if fails(half):
                        cur = half
                    elif fails(cur[len(cur) // 2:]):
                        cur = cur[len(cur) // 2:]
                    else:
                        break
                best = cur + [c2]
            findings.append({"sig": hist_sig(calls, best, kind, mode),
                             "detail": "policies %s; history %s: last call %s" % (
                                 mode, [[calls[i][0], repr(calls[i][1])] for i in best[-3:]], what),
                             "seq": best[-40:], "mode": mode})
        evaluations = 3 * len(seq)
        sys.stdout.write("C45HIST " + json.dumps({"evaluations": evaluations, "ncalls": n, "findings": findings}) + "\n")
    finally:
        env.close()


def hist_shard(stats, idx, nparts, tier):
    import json
    import subprocess
    code = "from checks import C45; C45.hist_main(%d, %d, %r)" % (idx, nparts, tier)
    p = subprocess.run([sys.executable, "-c", code], capture_output=True, text=True, timeout=1500)
    line = [l for l in p.stdout.splitlines() if l.startswith("C45HIST ")]
    if p.returncode != 0 or not line:
        raise RuntimeError("history subprocess failed rc=%s\n%s" % (p.returncode, p.stderr[-2000:]))
    out = json.loads(line[-1][8:])
    calls = hist_calls()
    n = out["ncalls"]
    stats.evaluations += out["evaluations"]
    for c1 in range(n):
        if c1 % nparts == idx:
            for c2 in range(n):
                if calls[c1][0] != calls[c2][0]:
                    stats.nt(("hist", c1, c2))
    stats.outcome("history-run")
    for f in out["findings"]:
        stats.outcome("history-violation")
        stats.violation(f["sig"], f["detail"], {"mode": "hist", "calls": [[calls[i][0], calls[i][1]] for i in f["seq"]],
                                                "labels": [calls[i][2] for i in f["seq"]], "policies": f["mode"]})
    stats.sample({"history": "c1 then all %d (policy, expression) calls in one process, for every c1" % n})


# ----------------------------------------------------------------------------------------------
# round trip half

KINDS = ["list", "tuple", "dict", "dictk", "set", "frozenset", "inst"]
MUTABLE = {"list", "dict", "dictk", "set", "inst"}
ATOMS = [1, b"s"]


class Unbuildable(Exception):
    pass


def build_graph(env, spec):
    """spec: list of (kind, children) with child = ("n", j) | ("a", k).  Returns the list of node objects or
    raises Unbuildable when Python itself cannot construct the graph (unhashable member, immutable cycle)."""
    n = len(spec)
    objs = [None] * n
    for i, (kind, kids) in enumerate(spec):
        if kind == "list":
            objs[i] = []
        elif kind in ("dict", "dictk"):
            objs[i] = {}
        elif kind == "set":
            objs[i] = set()
        elif kind == "inst":
            objs[i] = env.ok.Good()
    state = {}

    def val(c):
        if c[0] == "a":
            return ATOMS[c[1]]
        j = c[1]
        if objs[j] is None:
            make(j)
        return objs[j]

    def make(i):
        if state.get(i) == "building":
            raise Unbuildable("immutable cycle")
        state[i] = "building"
        kind, kids = spec[i]
        vals = [val(c) for c in kids]
        try:
            objs[i] = tuple(vals) if kind == "tuple" else frozenset(vals)
        except TypeError:
            raise Unbuildable("unhashable member")
        if kind == "frozenset" and len(objs[i]) != len(vals):
            raise Unbuildable("duplicate set member")
        state[i] = "done"

    for i, (kind, kids) in enumerate(spec):
        if kind in ("tuple", "frozenset") and objs[i] is None:
            make(i)
    for i, (kind, kids) in enumerate(spec):
        vals = [val(c) for c in kids]
        try:
            if kind == "list":
                objs[i].extend(vals)
            elif kind == "dict":
                for k, v in enumerate(vals):
                    objs[i][b"k%d" % k] = v
            elif kind == "dictk":
                if vals:
                    objs[i][vals[0]] = vals[1] if len(vals) > 1 else 1
            elif kind == "set":
                for v in vals:
                    if v in objs[i]:
                        raise Unbuildable("duplicate set member")
                    objs[i].add(v)
            elif kind == "inst":
                for k, v in enumerate(vals):
                    setattr(objs[i], "a%d" % k, v)
        except TypeError:
            raise Unbuildable("unhashable member")
    return objs


def kind_of(o, env):
    t = type(o)
    if t is list:
        return "list"
    if t is tuple:
        return "tuple"
    if t is dict:
        return "dict"
    if t is set:
        return "set"
    if t is frozenset:
        return "frozenset"
    if t is env.ok.Good:
        return "inst"
    return "atom"


def iso(env, a, b, fwd, bwd):
    """Is the graph under ``a`` isomorphic to the one under ``b`` (extending the identity maps)?  Backtracks over
    unordered containers; sizes are tiny."""
    ka, kb = kind_of(a, env), kind_of(b, env)
    if ka != kb:
        return False
    if ka == "atom":
        return type(a) is type(b) and a == b
    if id(a) in fwd:
        if ka in ("tuple", "frozenset"):
            pass
        else:
            return fwd[id(a)] == id(b)
    elif ka not in ("tuple", "frozenset"):
        if id(b) in bwd:
            return False
        fwd[id(a)] = id(b)
        bwd[id(b)] = id(a)
    elif (id(a), id(b)) in fwd:
        return True
    if ka in ("tuple", "frozenset"):
        fwd[(id(a), id(b))] = True
    if ka in ("list", "tuple"):
        return len(a) == len(b) and all(iso(env, x, y, fwd, bwd) for x, y in zip(a, b))
    if ka == "inst":
        return iso(env, a.__dict__, b.__dict__, fwd, bwd)
    if ka == "dict":
        if len(a) != len(b):
            return False
        return match_unordered(env, list(a.items()), list(b.items()), fwd, bwd, pair=True)
    return len(a) == len(b) and match_unordered(env, list(a), list(b), fwd, bwd, pair=False)


def match_unordered(env, xs, ys, fwd, bwd, pair):
    if not xs:
        return True
    x = xs[0]
    for j, y in enumerate(ys):
        f2, b2 = dict(fwd), dict(bwd)
        ok = (iso(env, x[0], y[0], f2, b2) and iso(env, x[1], y[1], f2, b2)) if pair else iso(env, x, y, f2, b2)
        if ok and match_unordered(env, xs[1:], ys[:j] + ys[j + 1:], f2, b2, pair):
            fwd.clear(); fwd.update(f2)
            bwd.clear(); bwd.update(b2)
            return True
    return False


def leftovers(obj):
    """crefutil placeholders still reachable from the result."""
    seen, todo, n = set(), [obj], 0
    while todo:
        o = todo.pop()
        if id(o) in seen:
            continue
        seen.add(id(o))
        if type(o).__module__ == "twisted.persisted.crefutil":
            n += 1
        elif type(o) in (list, tuple, set, frozenset):
            todo.extend(o)
        elif type(o) is dict:
            todo.extend(o.keys()); todo.extend(o.values())
        elif hasattr(o, "__dict__") and not isinstance(o, (type, types.ModuleType)):
            todo.append(o.__dict__)
    return n


def graph_features(spec):
    """(shared?, cyclic?, description of the cycle/sharing shape for signatures)."""
    n = len(spec)
    indeg = [0] * n
    for kind, kids in spec:
        for c in kids:
            if c[0] == "n":
                indeg[c[1]] += 1
    shared = any(d > 1 for d in indeg)
    # cycles: node kinds on some cycle, with the role of each edge
    cyc = set()
    for s in range(n):
        stack = [(s, [s])]
        while stack:
            v, path = stack.pop()
            for ci, c in enumerate(spec[v][1]):
                if c[0] != "n":
                    continue
                if c[1] == s:
                    for p in path:
                        cyc.add(p)
                elif c[1] not in path and len(path) < n:
                    stack.append((c[1], path + [c[1]]))
    return shared, bool(cyc), cyc


def reaches(spec, a, b):
    seen, todo = set(), [a]
    while todo:
        v = todo.pop()
        if v == b:
            return True
        if v in seen:
            continue
        seen.add(v)
        todo.extend(c[1] for c in spec[v][1] if c[0] == "n")
    return False


def edge_roles(spec, nodes):
    """Sorted distinct 'parentkind[role]->childkind' strings for edges among ``nodes``."""
    out = set()
    for i in nodes:
        kind, kids = spec[i]
        for ci, c in enumerate(kids):
            if c[0] == "n" and c[1] in nodes:
                role = "key" if kind == "dictk" and ci == 0 else "member"
                out.add("%s[%s]->%s" % (kind, role, spec[c[1]][0]))
    return sorted(out)


def roundtrip_case(env, stats, spec):
    try:
        objs = build_graph(env, spec)
    except Unbuildable:
        stats.count("unbuildable")
        return
    stats.evaluations += 1
    shared, cyclic, cyc = graph_features(spec)
    if shared or cyclic:
        stats.nt(repr(spec))
    bad = roundtrip_check(env, spec, objs)
    stats.outcome("roundtrip-" + ("cyclic" if cyclic else "shared" if shared else "tree"))
    if bad:
        stats.outcome("roundtrip-failed")
        stats.violation(bad[0], bad[1], {"mode": "rt", "spec": spec})


def roundtrip_check(env, spec, objs):
    policy = env.policies["instances"]
    shared, cyclic, cyc = graph_features(spec)
    indeg = {}
    for kind, kids in spec:
        for c in kids:
            if c[0] == "n":
                indeg[c[1]] = indeg.get(c[1], 0) + 1
    indeg[0] = indeg.get(0, 0) + 1          # the root is referenced by the caller
    hot = any(spec[i][0] in ("tuple", "set", "frozenset") and indeg.get(i, 0) > 1 for i in cyc)
    # a dict key edge that lies on a cycle: dictk -> key node -> ... -> dictk
    keycyc = False
    for i in cyc:
        kind, kids = spec[i]
        if kind == "dictk" and kids and kids[0][0] == "n" and reaches(spec, kids[0][1], i):
            keycyc = True
    feats = (["dict-key-on-cycle"] if keycyc else []) + (["shared-immutable-container-on-cycle"] if hot else [])
    if feats:
        shape = "+".join(feats)
    else:
        shape = "cycle(" + ",".join(sorted(set(spec[i][0] for i in cyc))) + ")" if cyclic else ("shared" if shared else "tree")
    try:
        sexp = env.jelly.jelly(objs[0], taster=policy)
        back = env.jelly.unjelly(sexp, taster=policy)
    except Exception as e:
        return ("jelly.roundtrip:%s:raised-%s" % (shape, type(e).__name__), "%s: %s; graph %r" % (
            type(e).__name__, str(e)[:100], spec))
    if leftovers(back):
        return ("jelly.roundtrip:%s:unresolved-placeholder" % shape, "result still contains crefutil placeholders; graph %r" % (spec,))
    if not iso(env, objs[0], back, {}, {}):
        return ("jelly.roundtrip:%s:not-isomorphic" % shape, "graph %r came back as %s" % (spec, safe_repr(back)))
    return None


def safe_repr(o):
    import re
    try:
        return re.sub(r" at 0x[0-9a-fA-F]+", "", repr(o))[:200]
    except Exception as e:
        return "<unrepr-able %s>" % type(e).__name__


def child_options(n, natoms, maxkids):
    opts = [("n", j) for j in range(n)] + [("a", k) for k in range(natoms)]
    out = []
    for r in range(maxkids + 1):
        out.extend(itertools.product(opts, repeat=r))
    return out


def graph_specs(n, kinds_by_level, natoms, maxkids, part=0, nparts=1):
    """All specs with exactly n nodes, every node reachable from node 0, nodes numbered in BFS discovery order
    (canonical numbering removes relabelled duplicates).  ``part/nparts`` deals the root node's options out to
    shards."""
    co = child_options(n, natoms, maxkids)
    per_node = [[(k, kids) for k in kinds_by_level[min(i, len(kinds_by_level) - 1)] for kids in co] for i in range(n)]
    per_node[0] = per_node[0][part::nparts]
    for spec in itertools.product(*per_node):
        # BFS order check
        order, seen = [0], {0}
        q = 0
        while q < len(order):
            for c in spec[order[q]][1]:
                if c[0] == "n" and c[1] not in seen:
                    seen.add(c[1])
                    order.append(c[1])
            q += 1
        if len(order) != n or order != list(range(n)):
            continue
        yield spec


ATOM_VALUES = None


def atom_roundtrips(env, stats):
    import datetime
    import decimal
    D = decimal.Decimal
    vals = [("int", 0), ("int", -1), ("int", 2 ** 70), ("bytes", b""), ("bytes", b"\x00\xff"), ("str", ""), ("str", "é€\U0001F600"),
            ("float", 1.5), ("float", -0.0), ("float", float("inf")), ("None", None), ("bool", True), ("bool", False),
            ("decimal", D("1.5")), ("decimal", D("-0.015")), ("decimal", D("1E+3")), ("decimal", D("0")), ("decimal", D("Infinity")),
            ("decimal-nan", D("NaN")), ("datetime", datetime.datetime(2000, 1, 2, 3, 4, 5, 6)), ("date", datetime.date(1, 1, 1)),
            ("time", datetime.time(23, 59, 59, 999999)), ("timedelta", datetime.timedelta(-1, 2, 3)),
            ("timedelta", datetime.timedelta(999999999, 86399, 999999))]
    policy = env.policies["instances"]
    for label, v in vals:
        for ctx_name, wrap in (("bare", lambda x: x), ("in-list", lambda x: [x, x]), ("in-dict", lambda x: {b"k": x}),
                               ("in-inst", None)):
            if wrap is None:
                o = env.ok.Good()
                o.v = v
            else:
                o = wrap(v)
            stats.evaluations += 1
            stats.nt(("atom", label, ctx_name, repr(v)))
            try:
                back = env.jelly.unjelly(env.jelly.jelly(o, taster=policy), taster=policy)
                ok = (back.__dict__ == o.__dict__ and type(back) is type(o)) if wrap is None else (back == o and type(back) is type(o))
                if ok and label == "float":
                    import struct
                    b2 = back.v if wrap is None else (back if ctx_name == "bare" else (back[0] if ctx_name == "in-list" else back[b"k"]))
                    ok = struct.pack("d", b2) == struct.pack("d", v)
                if label == "decimal-nan":
                    b2 = back.v if wrap is None else (back if ctx_name == "bare" else (back[0] if ctx_name == "in-list" else back[b"k"]))
                    ok = isinstance(b2, D) and b2.is_nan()
                if not ok:
                    stats.violation("jelly.roundtrip:atom:%s:differs" % label, "%r (%s) came back as %s" % (v, ctx_name, safe_repr(back)),
                                    {"mode": "atom", "label": label})
            except Exception as e:
                stats.violation("jelly.roundtrip:atom:%s:raised-%s" % (label, type(e).__name__), "%r (%s): %s" % (v, ctx_name, str(e)[:100]),
                                {"mode": "atom", "label": label})
            stats.outcome("roundtrip-atom")


# ----------------------------------------------------------------------------------------------
NSEC = 12
NHIST = 4
NRT = 32


def shards(tier, seed):
    return [["hist", i] for i in range(NHIST)] + [["sec", i] for i in range(NSEC)] + [["rt", i] for i in range(NRT)] + [["atoms", 0]]


def rt_specs(tier, part, nparts):
    full = [KINDS]
    yield from graph_specs(1, full, 2, 3, part, nparts)
    yield from graph_specs(2, full, 2, 3 if tier == "thorough" else 2, part, nparts)
    if tier == "thorough":
        yield from graph_specs(3, full, 1, 2, part, nparts)
    else:
        yield from graph_specs(3, [KINDS, KINDS, ["list", "tuple", "dictk", "set", "inst"]], 1, 2, part, nparts)


def run_shard(shard, tier, seed):
    kind, idx = shard
    stats = Stats()
    if kind == "hist":
        hist_shard(stats, idx, NHIST, tier)
        return stats
    env = Env.get()
    try:
        if kind == "sec":
            n = 0
            pnames = sorted(env.policies)
            for sexp, label in all_sexps(tier):
                n += 1
                if n % NSEC != idx:
                    continue
                for pname in pnames:
                    security_case(env, stats, pname, sexp, label)
                if n % 1499 == 0:
                    stats.sample({"sexp": sexp})
        elif kind == "rt":
            n = 0
            for spec in rt_specs(tier, idx, NRT):
                n += 1
                roundtrip_case(env, stats, spec)
                if n % 20011 == 0:
                    stats.sample({"graph": spec})
        else:
            atom_roundtrips(env, stats)
    finally:
        env.close()
    return stats


def untuple(x):
    if isinstance(x, list):
        return tuple(untuple(i) for i in x)
    return x


def replay(w):
    env = Env.get()
    try:
        if w["mode"] == "hist":
            calls = [(c[0], c[1], lab) for c, lab in zip(w["calls"], w["labels"])]
            mode = w.get("policies", "eager")
            res = run_history(env, calls, list(range(len(calls))), mode)
            seq = list(range(len(calls)))
            env.rebuild_policies("eager")
            return [(hist_sig(calls, seq, k, mode), wh) for k, wh in res[-1]]
        if w["mode"] == "sec":
            outcome, problems, exc = evaluate(env, w["policy"], w["sexp"])
            return attribute(env, w["policy"], w["sexp"], problems)
        if w["mode"] == "rt":
            spec = tuple((k, tuple(tuple(c) for c in kids)) for k, kids in w["spec"])
            objs = build_graph(env, spec)
            bad = roundtrip_check(env, spec, objs)
            return [bad] if bad else []
        if w["mode"] == "atom":
            st = Stats()
            atom_roundtrips(env, st)
            return [(v["sig"], v["detail"]) for v in st.violations if v["witness"]["label"] == w["label"]][:1]
    finally:
        env.close()
    return []
