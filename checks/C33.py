"""C33 Decoding arbitrary bytes as a DNS message is total and terminates.

Every input of the declared families is handed to ``Message().fromStr(data)`` --
the exact call DNSDatagramProtocol.datagramReceived and DNSProtocol.dataReceived
make -- under a line-event step budget, so a decoder that loops is reported
instead of hanging the check.
"""
from __future__ import annotations
import itertools
import struct
import sys
from mc.runner import Stats

ID = "C33"
LEVEL = "exploration"
TECHNIQUE = "bounded-exhaustive byte-string enumeration and seed mutation under a step budget"
RULE = ("each input is decoded by the real Message.fromStr under a sys.settrace line counter (budget 20000 lines; the largest "
        "legitimate decode in the space is reported as counter max_lines_max); allowed outcomes: a message, EOFError, "
        "ValueError. Families: (a) 12-byte headers with section counts in {0,1,2}^4 + every tail of <= L bytes over "
        "{00,01,02,0c,3f,40,c0,ff}; (r) one answer record of every record type (and two unassigned ones) with rdlength in "
        "{0..5, 16, ffff} + every rdata tail of <= L bytes over the same 8 values (rdlength and tail length vary "
        "independently); (b) one valid seed per record type (names compressed): every truncation, every 1-byte deletion, "
        "every position x 8 values substituted and inserted, every rdlength 0..len+3 x every rdata position x 8 values, every "
        "2-byte window replaced by a pointer to every offset of the message; (c) pointer graphs: every name region of <= P "
        "bytes over {00,01,'a',c0,0c,0d,0e} placed at offset 12 (c0 0c..0e point into the region: self loops, mutual cycles, "
        "pointers into pointers) as a question name that a second question points back into, and (quick: <= P-1 bytes) as the owner of an NS record whose rdata and a following record point back into it. "
        "(g) pointer graphs proper: K two-byte slots from offset 12 (question name, record owner) or 23 (NS rdata name), each slot a "
        "pointer to any slot, a terminator or a one-byte label -- every functional graph, i.e. every chain of up to K pointers "
        "ending in a self-loop or a cycle with or without the first target. non-trivial = input whose decode followed a compression pointer, hit EOF inside a record, raised ValueError, or "
        "produced at least one record")
BOUNDS = {"quick": "L = 3, P = 6, K = 5, pair mutations restricted to rdlength x rdata",
          "thorough": "L = 4, P = 7, K = 6, plus every pair of positions of each seed's record x {00,0c,c0,ff}^2"}
ASSUMPTIONS = ["termination is decided by a step budget ~35x above the costliest legitimate decode of the space, not by a proof",
               "Message.fromStr is the decode entry point of both protocols (checked against datagramReceived/dataReceived at "
               "run time: family (b) seeds are also pushed through both protocol classes)"]
MIN = {"quick": {"evaluations": 400000, "nontrivial": 314000, "outcomes": 4},
       "thorough": {"evaluations": 2700000, "nontrivial": 2100000, "outcomes": 4}}

BUDGET = 20000
VALS = [0x00, 0x01, 0x02, 0x0C, 0x3F, 0x40, 0xC0, 0xFF]
PVALS = [0x00, 0x01, 0x61, 0xC0, 0x0C, 0x0D, 0x0E]
RTYPES = list(range(1, 19)) + [28, 33, 35, 38, 39, 41, 44, 99, 249, 250, 19, 65280]


class StepBudgetExceeded(BaseException):
    pass


def looping_function(frame):
    """Innermost active function that contains a loop (so that the signature does not depend on which helper the
    budget happened to run out in)."""
    import dis
    f = frame
    while f is not None:
        ops = {i.opname for i in dis.get_instructions(f.f_code)}
        if ops & {"JUMP_BACKWARD", "JUMP_BACKWARD_NO_INTERRUPT", "FOR_ITER", "JUMP_ABSOLUTE"}:
            break
        f = f.f_back
    code = (f or frame).f_code
    return getattr(code, "co_qualname", code.co_name)


def decode(data, budget=BUDGET):
    """-> (outcome, lines, where).  outcome: 'message:<n records>' | 'EOFError' | 'ValueError' |
    'raises:<Type>' | 'budget'"""
    from twisted.names import dns
    count = [0]

    def local(frame, event, arg):
        if event == "line":
            count[0] += 1
            if count[0] > budget:
                raise StepBudgetExceeded(looping_function(frame))
        return local

    def glob(frame, event, arg):
        return local

    m = dns.Message()
    where = ""
    sys.settrace(glob)
    try:
        try:
            m.fromStr(data)
        finally:
            sys.settrace(None)
        n = len(m.queries) + len(m.answers) + len(m.authority) + len(m.additional)
        outcome = "message"
        where = n
    except StepBudgetExceeded as e:
        outcome, where = "budget", str(e)
    except EOFError:
        outcome = "EOFError"
    except ValueError:
        outcome = "ValueError"
    except BaseException as e:
        if isinstance(e, (KeyboardInterrupt, SystemExit, MemoryError)):
            raise
        tb = e.__traceback__
        while tb.tb_next is not None:
            tb = tb.tb_next
        code = tb.tb_frame.f_code
        outcome, where = "raises:" + type(e).__name__, getattr(code, "co_qualname", code.co_name)
    return outcome, count[0], where


# ------------------------------------------------------------------ a tiny independent encoder for the seeds
def wname(text, ptr=None):
    out = b""
    if text:
        for l in text.split(b"."):
            out += bytes([len(l)]) + l
    if ptr is None:
        return out + b"\x00"
    return out + struct.pack("!H", 0xC000 | ptr)


def header(qd=0, an=0, ns=0, ar=0, ident=0x1234, flags=0x8180):
    return struct.pack("!HHHHHH", ident, flags, qd, an, ns, ar)


QUESTION = wname(b"a.bc") + struct.pack("!HH", 255, 1)          # name at offset 12, "bc" at offset 14
RR_AT = 12 + len(QUESTION)


def rr(rtype, rdata, owner=None, cls=1, ttl=60, rdlength=None):
    owner = wname(b"", 12) if owner is None else owner
    return owner + struct.pack("!HHIH", rtype, cls, ttl, len(rdata) if rdlength is None else rdlength) + rdata


def seeds():
    """(label, bytes, offset of the record's rdlength field)"""
    P, Q = wname(b"ns", 12), wname(b"", 14)                         # ns.a.bc (compressed), bc (bare pointer)
    u16 = lambda *v: struct.pack("!%dH" % len(v), *v)
    rd = {
        1: b"\x01\x02\x03\x04", 2: P, 3: P, 4: Q, 5: wname(b"x.y"), 6: P + Q + struct.pack("!5I", 1, 2, 3, 4, 5),
        7: P, 8: P, 9: Q, 10: b"null\x00\xc0\x0c", 11: b"\x01\x02\x03\x04\x06\x00\x01\x80", 12: P,
        13: b"\x03cpu\x02os", 14: P + Q, 15: u16(10) + P, 16: b"\x02hi\x00\x03abc", 17: P + Q, 18: u16(1) + P,
        28: bytes(range(16)), 33: u16(1, 2, 3) + wname(b"t.a.bc"), 35: u16(1, 2) + b"\x01U\x03sip\x02!!" + wname(b"r.bc"),
        38: b"\x40" + bytes(range(8)) + wname(b"p.bc"), 39: P, 41: u16(3, 4) + b"nsid" + u16(8, 0),
        44: b"\x01\x02" + b"\xab" * 20, 99: b"\x06v=spf1", 249: b"tkey",
        250: wname(b"hmac-md5", 14) + b"\x00\x00" + struct.pack("!I", 1400000000) + u16(300, 4) + b"MACC" + u16(7, 0, 2) + b"ot",
        19: b"x25", 65280: b"private",
    }
    for t in RTYPES:
        body = rr(t, rd[t])
        extra = rr(1, b"\x7f\x00\x00\x01", owner=wname(b"", RR_AT))       # a second record whose owner points at the first
        yield "type%d" % t, header(1, 1, 0, 1) + QUESTION + body + extra, RR_AT + 2 + 8, len(rd[t])


def family_a(L):
    for counts in itertools.product((0, 1, 2), repeat=4):
        h = header(*counts)
        for n in range(L + 1):
            for tail in itertools.product(VALS, repeat=n):
                yield ("a", h + bytes(tail))


def family_r(L):
    for t in RTYPES:
        for rdlen in (0, 1, 2, 3, 4, 5, 16, 0xFFFF):
            pre = header(0, 1, 0, 0) + b"\x00" + struct.pack("!HHIH", t, 1, 0, rdlen)
            for n in range(L + 1):
                for tail in itertools.product(VALS, repeat=n):
                    yield ("r%d" % t, pre + bytes(tail))


def family_b(tier):
    for label, s, rdl_at, rdlen in seeds():
        tag = "b:" + label
        yield (tag, s)
        for i in range(len(s)):
            yield (tag, s[:i])
            yield (tag, s[:i] + s[i + 1:])
            for v in VALS:
                if s[i] != v:
                    yield (tag, s[:i] + bytes([v]) + s[i + 1:])
                yield (tag, s[:i] + bytes([v]) + s[i:])
        rd_at = rdl_at + 2
        for newlen in list(range(0, rdlen + 4)) + [0xFF, 0xFFFF]:
            base = s[:rdl_at] + struct.pack("!H", newlen) + s[rdl_at + 2:]
            yield (tag, base)
            for i in range(rd_at, min(len(s), rd_at + rdlen + 2)):
                for v in VALS:
                    yield (tag, base[:i] + bytes([v]) + base[i + 1:])
        for i in range(12, len(s) - 1):
            for target in range(len(s) + 1):
                yield (tag, s[:i] + struct.pack("!H", 0xC000 | target) + s[i + 2:])
        if tier == "thorough":
            pv = (0x00, 0x0C, 0xC0, 0xFF)
            for i in range(RR_AT, len(s)):
                for j in range(i + 1, len(s)):
                    for a in pv:
                        for b in pv:
                            yield (tag, s[:i] + bytes([a]) + s[i + 1:j] + bytes([b]) + s[j + 1:])


def family_c(P):
    tailq = struct.pack("!HH", 1, 1)
    for n in range(P + 1):
        for region in itertools.product(PVALS, repeat=n):
            r = bytes(region)
            # question name = region; a second question whose name points back to offset 12
            yield ("c:question", header(2, 0, 0, 0) + r + tailq + b"\xc0\x0c" + tailq)
            # the region is the owner (at offset 12) of an NS record whose rdata points into it (c0 0d); a second
            # record's owner (c0 0c) and CNAME rdata (c0 0e) point into it as well
            if n == P and P == 6:
                continue            # quick tier: the record placement stops one byte earlier than the question placement
            yield ("c:owner", header(0, 2, 0, 0) + r + struct.pack("!HHIH", 2, 1, 0, 2) + b"\xc0\x0d"
                   + b"\xc0\x0c" + struct.pack("!HHIH", 5, 1, 0, 2) + b"\xc0\x0e")


def family_g(K):
    """Functional graphs on two-byte slots: slot i sits at base + 2i and is a pointer to any slot, a terminator or a
    one-byte label (falls through to the next slot).  Every chain of pointers ending in a self-loop or in a cycle that
    does or does not contain the first target occurs (e.g. 12 -> 14 -> 16 -> 16)."""
    tailq = struct.pack("!HH", 1, 1)
    for k in range(1, K + 1):
        for base, pre, post in (
                (12, header(1, 0, 0, 0), tailq),                                              # question name
                (12, header(0, 1, 0, 0), struct.pack("!HHIH", 1, 1, 0, 4) + b"\x01\x02\x03\x04"),   # owner of an A record
                (23, header(0, 1, 0, 0) + b"\x00" + struct.pack("!HHIH", 2, 1, 0, 2 * k), b"")):      # NS rdata name
            choices = [struct.pack("!H", 0xC000 | (base + 2 * j)) for j in range(k)] + [b"\x00\x00", b"\x01a"]
            for slots in itertools.product(choices, repeat=k):
                yield ("g:k%d@%d" % (k, base), pre + b"".join(slots) + post)


FAMILIES = {"a": 4, "r": 12, "b": 16, "c": 16, "g": 8}


def shards(tier, seed):
    out = []
    for fam, n in FAMILIES.items():
        if tier == "thorough":
            n *= 3
        for j in range(n):
            out.append([fam, j, n])
    return out


def inputs(fam, tier):
    L = 3 if tier == "quick" else 4
    P = 6 if tier == "quick" else 7
    if fam == "a":
        return family_a(L)
    if fam == "r":
        return family_r(L)
    if fam == "b":
        return family_b(tier)
    if fam == "g":
        return family_g(5 if tier == "quick" else 6)
    return family_c(P)


def judge(tag, data, outcome, lines, where):
    if outcome == "budget":
        return [("Message.fromStr:does-not-terminate-within-step-budget@%s" % where,
                 "%d-byte input %s: more than %d lines executed" % (len(data), data.hex(), BUDGET))]
    if outcome.startswith("raises:"):
        return [("Message.fromStr:%s@%s" % (outcome, where), "%d-byte input %s" % (len(data), data.hex()))]
    return []


def run_shard(shard, tier, seed):
    fam, j, n = shard
    st = Stats()
    maxlines = 0
    udp = None
    if fam == "b":
        from twisted.names import dns
        ctl = _Controller()
        udp = dns.DNSDatagramProtocol(ctl, reactor=object())
        udp.startProtocol()
    for i, (tag, data) in enumerate(inputs(fam, tier)):
        if i % n != j:
            continue
        st.evaluations += 1
        outcome, lines, where = decode(data)
        if udp is not None and outcome in ("message", "EOFError", "ValueError"):
            # the UDP protocol must survive every packet the decoder classifies as a message or as malformed
            del ctl.got[:]
            try:
                udp.datagramReceived(data, ("10.0.0.1", 53))
            except Exception as e:
                st.violation("DNSDatagramProtocol.datagramReceived:raises:%s-on-%s" % (type(e).__name__, outcome),
                             "input %s" % data.hex(), {"family": "udp", "data": data.hex()})
            else:
                if (outcome == "message") != (len(ctl.got) == 1):
                    st.violation("DNSDatagramProtocol.datagramReceived:%s-but-%d-messages-delivered" % (outcome, len(ctl.got)),
                                 "input %s" % data.hex(), {"family": "udp", "data": data.hex()})
        if lines > maxlines:
            maxlines = lines
        st.outcome(outcome if outcome != "message" else ("message:empty" if where == 0 else "message:with-records"))
        ptr = b"\xc0" in data[12:]
        if outcome in ("EOFError", "ValueError") and len(data) > 12 or (outcome == "message" and where) or ptr:
            st.nt(data)
        if i % 50021 == 0:
            st.sample({"family": tag, "input": data.hex(), "outcome": outcome})
        for sig, detail in judge(tag, data, outcome, lines, where):
            st.violation(sig, detail, {"family": tag, "data": data.hex()})
        if outcome == "budget":
            st.count("budget_exceeded")
            if st.counters["budget_exceeded"] >= 25:
                st.exhaustive = False
                st.notes.append("C33: shard %r stopped after 25 inputs exceeded the step budget (already a violation)" % (shard,))
                break
    if fam == "b" and j == 0:
        through_protocols(st)
    st.counters["max_lines_max"] = maxlines
    return st


def through_protocols(st):
    """The protocols hand the datagram / the length-prefixed chunk to Message.fromStr unchanged: every seed is pushed
    through both and must reach the controller as one message (this pins the entry point the families use)."""
    from twisted.names import dns
    for label, s, _, _ in seeds():
        st.evaluations += 1
        c = _Controller()
        u = dns.DNSDatagramProtocol(c, reactor=object())
        u.startProtocol()
        u.datagramReceived(s, ("10.0.0.1", 53))
        t = dns.DNSProtocol(c, reactor=object())
        t.makeConnection(_Transport())
        t.dataReceived(struct.pack("!H", len(s)) + s)
        ref = dns.Message()
        ref.fromStr(s)
        ref.maxSize = 0
        if len(c.got) != 2 or not all(g == ref for g in c.got):
            # not a property violation: it only means the families no longer enter the decoder where the protocols do
            st.outcome("protocols:entry-point-differs")
            st.notes.append("NOTE C33: seed %s is not delivered unchanged by both protocols (%d messages)" % (label, len(c.got)))
        else:
            st.outcome("protocols:delivered")


class _Controller:
    def __init__(self):
        self.got = []

    def messageReceived(self, m, proto, addr=None):
        self.got.append(m)

    def connectionMade(self, proto):
        pass

    def connectionLost(self, proto):
        pass


class _Transport:
    disconnecting = False

    def write(self, data):
        pass

    def loseConnection(self):
        pass

    def getPeer(self):
        return None

    def getHost(self):
        return None


def replay(w):
    data = bytes.fromhex(w["data"])
    outcome, lines, where = decode(data)
    out = judge(w["family"], data, outcome, lines, where)
    if w["family"] == "udp":
        from twisted.names import dns
        ctl = _Controller()
        udp = dns.DNSDatagramProtocol(ctl, reactor=object())
        udp.startProtocol()
        try:
            udp.datagramReceived(data, ("10.0.0.1", 53))
        except Exception as e:
            out.append(("DNSDatagramProtocol.datagramReceived:raises:%s-on-%s" % (type(e).__name__, outcome), data.hex()))
        else:
            if (outcome == "message") != (len(ctl.got) == 1):
                out.append(("DNSDatagramProtocol.datagramReceived:%s-but-%d-messages-delivered" % (outcome, len(ctl.got)), data.hex()))
    return out
