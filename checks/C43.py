"""C43 IRC: IRCClient.msg/notice split within the octet limit without losing content; CTCP / low-level quoting round-trip.

The real IRCClient is connected to an in-memory transport and asked to send
every message built from a small token alphabet under every small limit; the
bytes that reach the transport are judged line by line by a separate oracle.
"""
import itertools

from mc.runner import Stats

ID = "C43"
LEVEL = "exploration"
TECHNIQUE = "bounded-exhaustive input enumeration through the real client, line-by-line oracle on the transport bytes"
RULE = ("S: every message that is a sequence of <= K tokens from {a, bc, space, LF, CR, TAB, '-', e-acute (2 octets), "
        "emoji (4 octets), 0x10, NUL, a 12-character word} is sent with IRCClient.msg('u', ...) and "
        "IRCClient.notice('#chan', ...) for every limit = len(command prefix)+2+room, room in ROOMS; the transport bytes "
        "are cut at LF and every line is checked: <= limit octets incl. CR LF, no CR/LF inside, starts with the command "
        "prefix, and the message parts concatenated (as sent, or as a receiver low-dequotes them) have the message's "
        "non-whitespace characters in order.  A limit is only enforced when every single character fits into the room "
        "(otherwise the statement is unsatisfiable and ValueError / an over-long line are both accepted).  "
        "R: the same with lineRate set (irc.reactor rebound to a task.Clock, queue drained by advancing it), so the order "
        "in which queued lines reach the wire is judged.  An over-long line is attributed to its cause: multibyte "
        "characters, quoted NUL/0x10, or a quoted CR/LF (which the unmodified splitter never lets through).  The content "
        "and the no-CR/LF clause must hold under one and the same reading of the lines (as sent / low-dequoted).  "
        "T: sessions of two calls on ONE rate-limited client - msg('u', m1) then notice('#chan', m2), m1 and m2 every "
        "message of <= 2 tokens over 8 tokens - with the second call made after the queue drained to full quiescence, "
        "immediately, or after one clock tick; the wire lines are attributed to the calls by their command prefix and "
        "every call is judged on its own (state carried from one message to the next).  "
        "Q: every string of <= 5 characters over {0x10, backslash, 0x01, LF, CR, NUL, a, n, r, 0} through "
        "lowQuote/lowDequote, ctcpQuote/ctcpDequote and their composition.  "
        "non-trivial = distinct transport outputs with >= 2 lines, or a quoted string that differs from its input")
BOUNDS = {"quick": "S: K<=4 over 12 tokens, rooms {1,2,4,5,10}, msg+notice; K=5 over 8 tokens, msg; R (lineRate): K<=3 over "
                   "12 tokens msg, K<=4 over 8 tokens notice; T (two-call sessions): 73 x 73 messages x rooms {1,4} x 3 gaps; "
                   "Q: length <= 5",
          "thorough": "S: K<=5 over 12 tokens, rooms {1,2,3,4,5,8,10}, msg+notice; R (lineRate): K<=4 over 12 tokens, "
                      "msg+notice; T: 73 x 73 messages x rooms {1,2,4,10} x 3 gaps; Q: length <= 6"}
ASSUMPTIONS = [
    "lineRate is None, or 0.5 s with twisted.words.protocols.irc.reactor rebound to a task.Clock by the harness "
    "(the module-global seam the client schedules its queue on); user/channel names are ASCII; messages are encodable text (no lone surrogates)",
    "whitespace = str.isspace(); the alphabet avoids characters on which textwrap and str.isspace disagree",
    "a character's wire cost is its UTF-8 length, 2 for NUL and 0x10 (low-level quoting) - used only to decide whether "
    "a limit is satisfiable at all, never for the verdict on a line",
]
MIN = {"quick": {"evaluations": 370000, "nontrivial": 135000, "outcomes": 9, "rate_limited_cases_with_3_or_more_lines": 8000,
                 "sessions_with_lines_from_both_calls": 15000},
       "thorough": {"evaluations": 3400000, "nontrivial": 1200000, "outcomes": 9,
                    "rate_limited_cases_with_3_or_more_lines": 70000,
                    "sessions_with_lines_from_both_calls": 30000}}

LONGW = "0123456789AB"
TOK12 = ["a", "bc", " ", "\n", "\r", "\t", "-", "é", "\U0001F600", "\x10", "\x00", LONGW]
TOK8 = ["a", " ", "\n", "\r", "é", "\U0001F600", "\x00", LONGW]
ROOMS_Q = [1, 2, 4, 5, 10]
ROOMS_T = [1, 2, 3, 4, 5, 8, 10]
KINDS = {"msg": ("PRIVMSG", "u"), "notice": ("NOTICE", "#chan")}
QALPHA = ["\x10", "\\", "\x01", "\n", "\r", "\x00", "a", "n", "r", "0"]

P = "IRCClient._sendMessage:"


# ---- oracle helpers (reference, independent of irc.py) ------------------------------------------

def nonws(s):
    return "".join(ch for ch in s if not ch.isspace())


_DEQ = {"0": "\x00", "n": "\n", "r": "\r", "\x10": "\x10"}


def ref_lowdequote(s):
    out, i = [], 0
    while i < len(s):
        if s[i] == "\x10" and i + 1 < len(s):
            out.append(_DEQ.get(s[i + 1], s[i + 1]))
            i += 2
        else:
            out.append(s[i])
            i += 1
    return "".join(out)


def quoted_kinds(s):
    """Which kinds of low-level quoted pairs a wire text contains (names the cause of an over-long line)."""
    out, i = set(), 0
    while i < len(s):
        if s[i] == "\x10" and i + 1 < len(s):
            out.add("nul-or-mquote" if s[i + 1] in "0\x10" else "cr-or-lf" if s[i + 1] in "rn" else "other")
            i += 2
        else:
            i += 1
    return out


def char_cost(ch):
    return 2 if ch in "\x00\x10" else len(ch.encode("utf-8"))


RATE = 0.5      # lineRate of the rate-limited configuration (seconds of harness clock between lines)


def make_client(rate=None):
    from twisted.words.protocols import irc
    from mc.net import MemTransport, connect
    c = irc.IRCClient()
    c.performLogin = 0
    c.lineRate = rate
    t = connect(c, MemTransport())
    t.clear()
    return c, t


def _send(c, kind, user, message, limit, rate):
    """Call msg/notice; with a lineRate, irc.reactor is a task.Clock for the duration and the queue is drained by
    advancing it until nothing is scheduled any more."""
    if rate is None:
        getattr(c, kind)(user, message, limit)
        return
    from twisted.words.protocols import irc
    from twisted.internet import task
    clock = task.Clock()
    saved = irc.reactor
    irc.reactor = clock
    try:
        getattr(c, kind)(user, message, limit)
        for _ in range(100000):
            if not clock.getDelayedCalls():
                break
            clock.advance(rate)
        else:
            raise AssertionError("rate-limited queue never drains")
    finally:
        irc.reactor = saved


def judge(kind, message, room, client=None, rate=None):
    """Run one case on the real client; return (violations, outcome-class, transport bytes)."""
    c, t = client or make_client(rate)
    t.clear()
    cmd, user = KINDS[kind]
    prefix = ("%s %s :" % (cmd, user)).encode("ascii")
    limit = len(prefix) + 2 + room
    want = nonws(message)
    satisfiable = all(char_cost(ch) <= room for ch in want)
    exc = None
    try:
        _send(c, kind, user, message, limit, rate)
    except Exception as e:  # noqa - judged below
        exc = e
    stream = t.value()
    t.clear()
    return oracle(kind, message, room, stream, exc, rate)


def oracle(kind, message, room, stream, exc, rate, session=None):
    """Judge the wire bytes that belong to ONE msg()/notice() call."""
    cmd, user = KINDS[kind]
    prefix = ("%s %s :" % (cmd, user)).encode("ascii")
    limit = len(prefix) + 2 + room
    want = nonws(message)
    satisfiable = all(char_cost(ch) <= room for ch in want)
    bad = []
    det = {"kind": kind, "message": message, "limit": limit, "room": room, "sent": stream[:400], "lineRate": rate}
    if session:
        det["session"] = session
    if exc is not None:
        if isinstance(exc, ValueError) and not satisfiable:
            return [], "refused-unsatisfiable", stream
        bad.append((P + "raises-" + type(exc).__name__, dict(det, exception=repr(exc)[:200])))
        return bad, "raised", stream
    if stream and not stream.endswith(b"\n"):
        bad.append((P + "unterminated-line", det))
        return bad, "bad", stream
    pieces = stream.split(b"\n")[:-1]
    parts = []
    over_unsat = False
    for piece in pieces:
        wire_len = len(piece) + 1
        body = piece[:-1] if piece.endswith(b"\r") else piece
        if b"\r" in body:
            bad.append((P + "line-contains-CR", det))
        if not body.startswith(prefix):
            bad.append((P + "line-contains-LF", det))   # a cut at LF produced a piece that is not a command line
            continue
        part = body[len(prefix):]
        parts.append(part)
        if wire_len > limit:
            if not satisfiable:
                over_unsat = True
                continue
            try:
                chars = part.decode("utf-8")
            except UnicodeDecodeError:
                chars = None
            if chars is not None and len(prefix) + 2 + len(ref_lowdequote(chars)) <= limit:
                causes = []
                if len(part) > len(chars):
                    causes.append("multibyte-characters-counted-as-one-octet")
                quoted = quoted_kinds(chars)
                if "nul-or-mquote" in quoted:
                    causes.append("low-level-quoting-expands-after-split")
                if "cr-or-lf" in quoted:
                    # the unmodified splitter turns CR/LF into blanks / line breaks before anything is quoted
                    causes.append("low-level-quoted-CR-or-LF-sent")
                if "other" in quoted:
                    causes.append("low-level-quoted-other")
                for cause in causes or ["unexplained"]:
                    bad.append((P + "line-over-limit:" + cause, dict(det, line=piece, octets=wire_len)))
            else:
                bad.append((P + "line-over-limit:split-width", dict(det, line=piece, octets=wire_len)))
    # content: one consistent reading of the lines (as sent, or as a receiver low-dequotes them) must have the
    # message's non-whitespace characters in order AND no CR/LF inside a line
    views = []       # (text, has CR/LF inside a message part under this reading)
    try:
        per_line = [ref_lowdequote(p.decode("utf-8")) for p in parts]
        views.append(("".join(per_line), any("\r" in p or "\n" in p for p in per_line)))
    except UnicodeDecodeError:
        pass
    try:
        whole = b"".join(parts).decode("utf-8")
        views.append((whole, False))          # raw CR/LF were already judged above
        deq = ref_lowdequote(whole)
        views.append((deq, "\r" in deq or "\n" in deq))
    except UnicodeDecodeError:
        pass
    matching = [crlf for v, crlf in views if nonws(v) == want]
    if matching and all(matching):
        bad.append((P + "line-contains-CR-or-LF:after-low-level-dequoting", det))
    elif not matching:
        got = nonws(views[0][0]) if views else ""
        if sorted(got) == sorted(want):
            k = "content-reordered"
        elif len(got) < len(want):
            k = "content-lost"
        elif len(got) > len(want):
            k = "content-duplicated"
        else:
            k = "content-altered"
        bad.append((P + k, dict(det, got=got, want=want)))
    if bad:
        return bad, "bad", stream
    if over_unsat:
        return [], "over-limit-unsatisfiable", stream
    return [], ("nothing-sent" if not pieces else "one-line" if len(pieces) == 1 else "many-lines"), stream


GAPS = ["quiescent", "immediately", "after-one-tick"]


def judge_session(m1, m2, room, gap):
    """Two calls on ONE rate-limited client: msg('u', m1), then notice('#chan', m2) either after the queue has drained
    to full quiescence, immediately, or after one tick of the clock; every call is judged on its own lines."""
    from twisted.words.protocols import irc
    from twisted.internet import task
    c, t = make_client(RATE)
    clock = task.Clock()
    saved = irc.reactor
    irc.reactor = clock
    calls = [("msg", m1), ("notice", m2)]
    excs = [None, None]

    def drain():
        for _ in range(100000):
            if not clock.getDelayedCalls():
                return
            clock.advance(RATE)
        raise AssertionError("rate-limited queue never drains")
    try:
        for i, (kind, message) in enumerate(calls):
            cmd, user = KINDS[kind]
            limit = len("%s %s :" % (cmd, user)) + 2 + room
            try:
                getattr(c, kind)(user, message, limit)
            except Exception as e:  # noqa - judged by the oracle
                excs[i] = e
            if i == 0:
                if gap == "quiescent":
                    drain()
                elif gap == "after-one-tick":
                    clock.advance(RATE)
        drain()
    finally:
        irc.reactor = saved
    stream = t.value()
    # hand every wire line to the call whose command prefix it carries
    streams = [b"", b""]
    stray = []
    pieces = stream.split(b"\n")
    tail = pieces.pop()
    for piece in pieces:
        for i, (kind, _) in enumerate(calls):
            if piece.startswith(("%s %s :" % KINDS[kind]).encode("ascii")):
                streams[i] += piece + b"\n"
                break
        else:
            stray.append(piece)
    bad, outcomes = [], []
    sess = {"first": m1, "second": m2, "gap": gap, "wire": stream[:400]}
    if tail or stray:
        bad.append((P + "line-contains-LF", dict(sess, stray=stray[:3], tail=tail)))
    for i, (kind, message) in enumerate(calls):
        b, o, _ = oracle(kind, message, room, streams[i], excs[i], RATE, dict(sess, judged="first" if i == 0 else "second"))
        bad.extend(b)
        outcomes.append(o)
    return bad, "+".join(outcomes), stream


def judge_quote(s):
    from twisted.words.protocols import irc
    bad = []
    lq = irc.lowQuote(s)
    if irc.lowDequote(lq) != s:
        bad.append(("irc.lowQuote/lowDequote:roundtrip-differs", {"text": s, "quoted": lq, "back": irc.lowDequote(lq)}))
    cq = irc.ctcpQuote(s)
    if irc.ctcpDequote(cq) != s:
        bad.append(("irc.ctcpQuote/ctcpDequote:roundtrip-differs", {"text": s, "quoted": cq, "back": irc.ctcpDequote(cq)}))
    both = irc.lowQuote(cq)
    if irc.ctcpDequote(irc.lowDequote(both)) != s:
        bad.append(("irc.lowQuote(ctcpQuote):roundtrip-differs", {"text": s, "quoted": both}))
    return bad, (lq != s or cq != s)


# ---- enumeration --------------------------------------------------------------------------------

def shards(tier, seed):
    out = []
    if tier == "quick":
        for kind in ("msg", "notice"):
            out.append(["S", kind, 12, None, 0])          # sequences of length 0..1
            for f in range(12):
                out.append(["S", kind, 12, f, 4])       # first token f, total length 2..4
        for f in range(8):
            for g in range(8):
                out.append(["S5", "msg", 8, [f, g], 5])
        out.append(["R", "msg", 12, None, 0])
        for f in range(12):
            out.append(["R", "msg", 12, f, 3])
        for f in range(8):
            out.append(["R", "notice", 8, f, 4])
        for k in range(NSH_T):
            out.append(["T", k, [1, 4]])
        qn = 5
    else:
        for kind in ("msg", "notice"):
            out.append(["S", kind, 12, None, 0])
            for f in range(12):
                for g in range(12):
                    out.append(["S", kind, 12, [f, g], 5])
        out.append(["R", "msg", 12, None, 0])
        for f in range(12):
            out.append(["R", "msg", 12, f, 4])
            out.append(["R", "notice", 12, f, 4])
        for k in range(NSH_T):
            out.append(["T", k, [1, 2, 4, 10]])
        qn = 6
    for f in range(len(QALPHA)):
        out.append(["Q", f, qn])
    out.append(["Q", None, qn])
    return out


NSH_T = 12


def session_messages():
    """Messages of 0..2 tokens over the 8-token alphabet (73), for both calls of a session."""
    out = [""]
    out += list(TOK8)
    out += [a + b for a in TOK8 for b in TOK8]
    return out


def _messages(shard):
    fam, kind, ntok, first, maxlen = shard
    toks = TOK12 if ntok == 12 else TOK8
    if first is None:
        yield ()
        for a in toks:
            yield (a,)
        return
    if isinstance(first, int):
        first = [first]
    head = tuple(toks[i] for i in first)
    lengths = [maxlen] if fam == "S5" else range(max(2, len(head)), maxlen + 1)   # families S and R
    for n in lengths:
        for rest in itertools.product(toks, repeat=n - len(head)):
            yield head + rest


def run_shard(shard, tier, seed):
    st = Stats()
    if shard[0] == "Q":
        _, f, qn = shard
        if f is None:
            cases = [""]
        else:
            cases = (QALPHA[f] + "".join(r) for n in range(0, qn) for r in itertools.product(QALPHA, repeat=n))
        for s in cases:
            st.evaluations += 1
            bad, changed = judge_quote(s)
            if changed:
                st.nt(("q", s))
            st.outcome("quoting-roundtrip-ok" if not bad else "quoting-roundtrip-bad")
            for sig, det in bad:
                st.violation(sig, det, {"family": "Q", "text": [ord(ch) for ch in s]})
        return st
    if shard[0] == "T":
        msgs = session_messages()
        for m1 in msgs[shard[1]::NSH_T]:
            for m2 in msgs:
                for room in shard[2]:
                    for gap in GAPS:
                        st.evaluations += 1
                        bad, outcome, stream = judge_session(m1, m2, room, gap)
                        st.outcome("session:" + gap)
                        if "many-lines" in outcome:
                            st.nt((stream, gap))
                        if stream.count(b"PRIVMSG") >= 1 and stream.count(b"NOTICE") >= 1:
                            st.count("sessions_with_lines_from_both_calls")
                        for sig, det in bad:
                            st.outcome("bad:" + sig.split(":", 1)[1])
                            st.violation(sig, det, {"family": "T", "m1": [ord(ch) for ch in m1], "m2": [ord(ch) for ch in m2],
                                                    "room": room, "gap": gap})
        st.sample({"session": [m1, m2], "room": room, "gaps": GAPS})
        return st
    rooms = ROOMS_Q if tier == "quick" else ROOMS_T
    kind = shard[1]
    rate = RATE if shard[0] == "R" else None
    client = None if rate else make_client()      # the rate-limited client is built fresh for every case
    for toks in _messages(shard):
        message = "".join(toks)
        for room in rooms:
            st.evaluations += 1
            bad, outcome, stream = judge(kind, message, room, client, rate)
            st.outcome(outcome if rate is None else "rate-limited:" + outcome)
            if stream.count(b"\n") >= 2:
                st.nt((stream, rate))
            if rate and stream.count(b"\n") >= 3:
                st.count("rate_limited_cases_with_3_or_more_lines")
            for sig, det in bad:
                st.outcome("bad:" + sig.split(":", 1)[1])
                st.violation(sig, det, {"family": "S", "kind": kind, "message": [ord(ch) for ch in message], "room": room,
                                        "rate": rate})
    st.sample({"kind": kind, "message": message, "room": rooms[-1]})
    return st


def replay(w):
    if w["family"] == "Q":
        return judge_quote("".join(chr(i) for i in w["text"]))[0]
    if w["family"] == "T":
        return judge_session("".join(chr(i) for i in w["m1"]), "".join(chr(i) for i in w["m2"]), w["room"], w["gap"])[0]
    return judge(w["kind"], "".join(chr(i) for i in w["message"]), w["room"], None, w.get("rate"))[0]
