"""C23 HTTP client: the request Deferred fires exactly once, the body is delivered exactly.

For every response of a bounded grammar, every truncation point (connection lost after t bytes),
every segmentation of the delivered prefix (whole, byte-at-a-time, every single cut; thorough: every
double cut of the full response) and every deliverBody timing, a real HTTP11ClientProtocol is driven
on an in-memory transport and compared with a reference computed from the response *specification*
(not from Twisted's parse)."""
from __future__ import annotations
import itertools

from mc.runner import Stats
from checks._http_b import tup

ID = "C23"
LEVEL = "fault_enumeration"
TECHNIQUE = "exhaustive truncation x segmentation x consumer timing on the real client, spec-derived reference"
RULE = ("responses = {GET,HEAD} x {persistent,not} x status{200,204,304} x 0..2 interim 1xx x framing{Content-Length, "
        "Content-Length 0, duplicated Content-Length, chunked (1 chunk / 2 chunks with extension and trailer), "
        "close-delimited, none} x body{abc, empty, chunk-lookalike} x line ending{CRLF, LF} x extras{folded header, "
        "no reason phrase, HTTP/1.0, header names and the chunked/close tokens respelt UPPER / mIXED / lower, an interim 100/103 that itself carries Content-Length 0/5, Transfer-Encoding: "
        "chunked or Connection: close, surplus bytes (X / a next status line) after a length-, chunk- or "
        "status-delimited response}; for each: connection lost after every byte count t in 0..len, the prefix "
        "delivered whole / byte-at-a-time / with every single cut, deliverBody called inside the callback / before "
        "the next event / after the loss. Checked: request Deferred fires exactly once (response as soon as the "
        "headers are complete, failure if they never are), body bytes = body bytes delivered, consumer "
        "connectionLost once with ResponseDone / PotentialDataLoss / other failure. "
        "non-trivial = executions whose truncation or cut falls strictly inside the message")
BOUNDS = {"quick": "72 responses x every truncation x {whole, bytewise, every 1-cut} x 3 consumer timings",
          "thorough": "~250 responses (full product of method x persistence x status x framing x line ending, interim x framing, bodies x framing, extras); additionally every 2-cut of each full response"}
ASSUMPTIONS = [
    "the transport is the in-memory MemTransport: while the client has paused it nothing is delivered, so a "
    "consumer attached only after the loss sees the bytes delivered up to the pause",
    "responses are well-formed (the statement quantifies over responses, not over garbage); bytes that follow a "
    "complete response (surplus variants) are only required not to be delivered as body",
]
MIN = {"quick": {"evaluations": 380000, "nontrivial": 380000, "outcomes": 7},
       "thorough": {"evaluations": 2000000, "nontrivial": 2000000, "outcomes": 7}}

TIMINGS = ["now", "before-next-event", "after-loss"]


# ---------------------------------------------------------------- response grammar
def build(spec):
    """spec = (method, persistent, status, interim, framing, body, eol, extra)
    Returns (bytes, H, marks, end) where H = offset just after the final header block, marks[i] is True
    when byte i is a body octet, end = offset at which the body is complete (None: only at close)."""
    method, persistent, status, interim, framing, body, eol, extra = spec
    nl = b"\r\n" if eol == "crlf" else b"\n"
    out = bytearray()
    # field names and the transfer-coding / connection-option tokens are case-insensitive (RFC 9110 5.1,
    # 9112 7, 9110 7.6.1): the "case-*" extras respell them, the expected outcome is unchanged
    if extra == "case-upper":
        nm, tok = bytes.upper, bytes.upper
    elif extra == "case-mixed":
        nm, tok = bytes.swapcase, bytes.capitalize
    elif extra == "case-lower":
        nm, tok = bytes.lower, bytes.lower
    else:
        nm = tok = lambda b: b
    for i in range(interim):
        out += b"HTTP/1.1 10%d Continue" % (i * 2) + nl
        if i:
            out += b"X-Interim: y" + nl
        out += nl
    if extra.startswith("i1"):
        # an interim response that itself carries a framing / connection header: it has no body and
        # nothing of it applies to the final response
        icode, ihdr = extra[1:4], extra[5:]
        out += b"HTTP/1.1 " + icode.encode() + (b" Continue" if icode == "100" else b" Early Hints") + nl
        out += {"cl0": b"Content-Length: 0", "cl5": b"Content-Length: 5", "te": b"Transfer-Encoding: chunked",
                "close": b"Connection: close"}[ihdr] + nl + nl
    version = b"HTTP/1.0" if extra == "http10" else b"HTTP/1.1"
    reason = {200: b" OK", 204: b" No Content", 304: b" Not Modified"}[status]
    if extra == "noreason":
        reason = b""
    out += version + b" %d" % status + reason + nl
    out += nm(b"X-A") + b": v" + nl
    if extra.startswith("case-"):
        out += nm(b"Connection") + b": " + tok(b"close") + nl
    if extra == "fold":
        out += b"X-Fold: a" + nl + b"  b" + nl
    if framing == "cl":
        out += nm(b"Content-Length") + b": %d" % len(body) + nl
    elif framing == "cl-dup":
        out += nm(b"Content-Length") + b": %d" % len(body) + nl + b"content-length: %d" % len(body) + nl
    elif framing == "cl-list":
        out += nm(b"Content-Length") + b": %d, %d" % (len(body), len(body)) + nl
    elif framing in ("chunked1", "chunked2"):
        out += nm(b"Transfer-Encoding") + b": " + tok(b"chunked") + nl
    out += nl
    H = len(out)
    marks = [False] * H
    bodyless = method == "HEAD" or status in (204, 304)
    end = H
    if not bodyless:
        if framing in ("cl", "cl-dup", "cl-list", "close"):
            out += body
            marks += [True] * len(body)
            end = len(out) if framing != "close" else None
        elif framing == "none":
            # no framing header at all and no body bytes: read until close
            end = None
        else:
            pieces = [body] if framing == "chunked1" or len(body) < 2 else [body[:1], body[1:]]
            for j, p in enumerate(pieces):
                if not p:
                    continue
                ext = b";x=1" if framing == "chunked2" and j == 0 else b""
                head = (b"%x" % len(p) if j == 0 else b"%X" % len(p)) + ext + b"\r\n"
                out += head
                marks += [False] * len(head)
                out += p
                marks += [True] * len(p)
                out += b"\r\n"
                marks += [False, False]
            tail = b"0\r\n" + (b"X-Trailer: t\r\n" if framing == "chunked2" else b"") + b"\r\n"
            out += tail
            marks += [False] * len(tail)
            end = len(out)
    if extra.startswith("surplus-") and end is not None:
        # bytes that FOLLOW the complete response (a stray byte / the next status line): they may share
        # a delivery with the end of the body; they are not body and are not judged otherwise
        extra_bytes = b"X" if extra == "surplus-X" else b"HTTP/1.1 200 OK\r\n"
        out += extra_bytes
        marks += [False] * len(extra_bytes)
    return bytes(out), H, marks, end


def specs(tier):
    out = []

    def add(method="GET", persistent=False, status=200, interim=0, framing="cl", body=b"abc", eol="crlf", extra=""):
        s = (method, persistent, status, interim, framing, body, eol, extra)
        if s not in out:
            out.append(s)

    lookalike = b"0\r\n\r\nHTTP/1.1 200"
    if tier == "quick":
        for framing in ("cl", "chunked1", "chunked2", "close"):
            for body in (b"abc", b""):
                add(framing=framing, body=body)
                add(framing=framing, body=body, persistent=True)
            add(framing=framing, eol="lf")
            add(framing=framing, interim=1)
            add(framing=framing, method="HEAD")
            add(framing=framing, status=204)
            add(framing=framing, status=304, persistent=True)
        add(framing="cl", body=lookalike)
        add(framing="chunked2", body=lookalike)
        add(framing="close", body=lookalike)
        add(framing="cl-dup")
        add(framing="cl-list")
        add(framing="none", body=b"")
        add(framing="none", body=b"", status=204)
        add(framing="cl", interim=2, eol="lf")
        add(framing="chunked1", interim=2, persistent=True)
        add(framing="cl", extra="fold")
        add(framing="chunked1", extra="noreason", eol="lf")
        add(framing="close", extra="http10")
        add(framing="cl", extra="http10", persistent=True)
        add(framing="chunked2", method="HEAD", interim=1, eol="lf")
        for case in ("case-upper", "case-mixed", "case-lower"):
            add(framing="chunked1", extra=case)
        add(framing="chunked2", extra="case-mixed", persistent=True, eol="lf")
        add(framing="cl", extra="case-upper", persistent=True)
        add(framing="cl-dup", extra="case-mixed")
        add(framing="close", extra="case-mixed", persistent=True)
        add(framing="cl", extra="surplus-X")
        add(framing="cl", extra="surplus-H", persistent=True)
        add(framing="chunked1", extra="surplus-H")
        add(framing="chunked2", extra="surplus-X", persistent=True, eol="lf")
        add(framing="cl", status=204, extra="surplus-X")
        add(framing="cl", method="HEAD", extra="surplus-H", persistent=True)
        add(framing="chunked1", status=304, extra="surplus-X")
        add(framing="cl", body=b"", extra="surplus-X")
        add(framing="cl", extra="i100-cl0")
        add(framing="cl", extra="i103-te", persistent=True)
        add(framing="chunked1", extra="i103-cl5", eol="lf")
        add(framing="chunked1", extra="i100-close", persistent=True)
        add(framing="close", extra="i100-cl0", persistent=True)
        add(framing="close", extra="i103-cl5")
        add(framing="close", extra="i100-te", eol="lf")
        return out
    out.extend(specs("quick"))
    base = ("cl", "chunked1", "chunked2", "close", "none")
    for method in ("GET", "HEAD"):
        for persistent in (False, True):
            for status in (200, 204, 304):
                for framing in base:
                    for eol in ("crlf", "lf"):
                        add(method, persistent, status, 0, framing, b"" if framing == "none" else b"abc", eol)
    for interim in (1, 2):
        for persistent in (False, True):
            for framing in base:
                for eol in ("crlf", "lf"):
                    add("GET", persistent, 200, interim, framing, b"" if framing == "none" else b"abc", eol)
    for body in (b"", lookalike):
        for persistent in (False, True):
            for framing in ("cl", "chunked1", "chunked2", "close"):
                for eol in ("crlf", "lf"):
                    add("GET", persistent, 200, 0, framing, body, eol)
    for framing in ("cl-dup", "cl-list"):
        for persistent in (False, True):
            for method in ("GET", "HEAD"):
                add(method, persistent, 200, 0, framing, b"abc", "crlf")
        add("GET", False, 204, 1, framing, b"abc", "lf")
    for framing in ("cl", "cl-dup", "chunked1", "chunked2"):
        for surplus in ("surplus-X", "surplus-H"):
            for persistent in (False, True):
                for method, status in (("GET", 200), ("HEAD", 200), ("GET", 204), ("GET", 304)):
                    add(method, persistent, status, 0, framing, b"abc", "crlf", surplus)
                add("GET", persistent, 200, 1, framing, b"", "lf", surplus)
    for framing in ("cl", "chunked1", "chunked2", "close", "none"):
        for icode in ("100", "103"):
            for ihdr in ("cl0", "cl5", "te", "close"):
                for persistent in (False, True):
                    add(framing=framing, body=b"" if framing == "none" else b"abc", extra="i%s-%s" % (icode, ihdr),
                        persistent=persistent, interim=1 if icode == "103" else 0)
    for framing in ("cl", "cl-list", "chunked1", "chunked2", "close"):
        for extra in ("case-upper", "case-mixed", "case-lower"):
            for persistent in (False, True):
                add(framing=framing, extra=extra, persistent=persistent)
    for framing in ("cl", "chunked1", "chunked2", "close"):
        for extra in ("fold", "noreason", "http10"):
            for eol in ("crlf", "lf"):
                add(framing=framing, extra=extra, eol=eol)
    return out


def segmentations(n, tier, full):
    """Cut positions (tuples of interior offsets) for a delivered prefix of n bytes."""
    yield ()
    if n > 1:
        yield tuple(range(1, n))
    if n > 2:
        for c in range(1, n):
            yield (c,)
    if tier == "thorough" and full and n > 3:
        for c in itertools.combinations(range(1, n), 2):
            yield c


# ---------------------------------------------------------------- execution
class Obs:
    def __init__(self):
        self.fired = []          # ("resp", response) / ("fail", failure)
        self.fired_at = None     # bytes delivered when the Deferred fired
        self.made = 0
        self.data = []
        self.lost = []
        self.response = None
        self.attached = False
        self.raised = None
        self.delivered = 0
        self.lost_before_close = None   # consumer connectionLost calls seen before the transport went away


_BODY = None


def _body_class():
    global _BODY
    if _BODY is None:
        from twisted.internet.protocol import Protocol

        class Body(Protocol):
            def __init__(self, obs):
                self.obs = obs

            def makeConnection(self, transport):
                self.obs.made += 1
                Protocol.makeConnection(self, transport)

            def dataReceived(self, data):
                self.obs.data.append(bytes(data))

            def connectionLost(self, reason):
                self.obs.lost.append(reason)

        _BODY = Body
    return _BODY


def execute(spec, t, cuts, timing):
    from twisted.web._newclient import HTTP11ClientProtocol, Request
    from twisted.web.http_headers import Headers
    from twisted.python.failure import Failure
    from twisted.internet.error import ConnectionDone
    from mc.net import MemTransport, connect
    method, persistent = spec[0], spec[1]
    raw, H, marks, end = build(spec)
    obs = Obs()
    proto = HTTP11ClientProtocol()
    tr = connect(proto, MemTransport())
    req = Request(method.encode(), b"/", Headers({b"Host": [b"x"]}), None, persistent=persistent)
    Body = _body_class()

    def attach():
        obs.attached = True
        obs.response.deliverBody(Body(obs))

    def on_resp(resp):
        obs.fired.append(("resp", resp))
        obs.fired_at = obs.delivered
        obs.response = resp
        if timing == "now":
            attach()

    def on_fail(f):
        obs.fired.append(("fail", f))
        obs.fired_at = obs.delivered

    try:
        d = proto.request(req)
        d.addCallbacks(on_resp, on_fail)
        prefix = raw[:t]
        bounds = [0] + list(cuts) + [len(prefix)]
        for a, b in zip(bounds, bounds[1:]):
            if a == b:
                continue
            if tr.producerState == "paused" and timing == "before-next-event" and obs.response is not None and not obs.attached:
                attach()
            if tr.producerState != "producing" or tr.disconnecting:
                break       # a paused / closing transport delivers nothing more
            obs.delivered = b       # counted before the call so that callbacks see it
            proto.dataReceived(prefix[a:b])
        if timing == "before-next-event" and obs.response is not None and not obs.attached:
            attach()
        obs.lost_before_close = len(obs.lost) if obs.attached else None
        proto.connectionLost(Failure(ConnectionDone()))
        if obs.response is not None and not obs.attached:
            attach()
    except Exception as e:
        obs.raised = "%s: %s" % (type(e).__name__, e)
    return obs, (raw, H, marks, end)


def check(spec, t, cuts, timing):
    from twisted.python.failure import Failure
    from twisted.web._newclient import ResponseDone
    from twisted.web.http import PotentialDataLoss
    method, persistent, status, interim, framing, body, eol, extra = spec
    obs, (raw, H, marks, end) = execute(spec, t, cuts, timing)
    D = obs.delivered
    fails = []
    bodyless = method == "HEAD" or status in (204, 304)
    where = "complete" if (end is not None and D >= end) else ("in-headers" if D < H else "in-body")
    if obs.raised:
        fails.append(("raised", obs.raised))
        return fails, where, obs
    if len(obs.fired) == 0:
        fails.append(("request-deferred-never-fired", "%d of %d bytes delivered, headers end at %d" % (D, len(raw), H)))
        return fails, where, obs
    if len(obs.fired) > 1:
        fails.append(("request-deferred-fired-twice", repr(obs.fired)))
    kind, val = obs.fired[0]
    if D < H:
        if kind != "fail" or not isinstance(val, Failure):
            fails.append(("response-before-headers-complete", "fired with %r after %d bytes, headers end at %d" % (val, D, H)))
        return fails, where, obs
    if kind != "resp":
        fails.append(("failure-although-headers-complete", "%r; %d bytes delivered, headers end at %d" % (val, D, H)))
        return fails, where, obs
    if obs.fired_at < H:
        fails.append(("response-before-headers-complete", "fired after %d bytes, headers end at %d" % (obs.fired_at, H)))
    # "with the response once its headers are complete": the delivery that completed them fired it
    first_after = min([b for b in list(cuts) + [t] if b >= H] or [t])
    if obs.fired_at > first_after:
        fails.append(("response-later-than-headers", "headers complete at %d (delivery ending %d), fired at %d" % (H, first_after, obs.fired_at)))
    if val.code != status:
        fails.append(("status-differs", "%r vs %r" % (val.code, status)))
    # the response is the final one: nothing of an interim 1xx response leaks into it
    try:
        xa, xi = val.headers.getRawHeaders(b"x-a"), val.headers.getRawHeaders(b"x-interim")
    except Exception as e:
        xa, xi = repr(e), None
    if xa != [b"v"] or xi is not None:
        fails.append(("response-headers-differ", "X-A %r (sent once, 'v'), X-Interim %r (only in the 1xx)" % (xa, xi)))
    # body consumer
    exp_body = bytes(raw[i] for i in range(H, min(D, len(raw))) if marks[i])
    got_body = b"".join(obs.data)
    if got_body != exp_body:
        fails.append(("body-differs", "consumer got %r, body bytes delivered %r" % (got_body[:60], exp_body[:60])))
    if len(obs.lost) != 1:
        fails.append(("body-connectionLost-count", "%d calls: %r" % (len(obs.lost), obs.lost)))
        return fails, where, obs
    reason = obs.lost[0]
    if not isinstance(reason, Failure):
        fails.append(("body-connectionLost-reason", "not a Failure: %r" % (reason,)))
        return fails, where, obs
    if bodyless or (end is not None and D >= end):
        want = "ResponseDone"
        ok = reason.check(ResponseDone) is not None
    elif end is None:
        want = "PotentialDataLoss"
        ok = reason.check(PotentialDataLoss) is not None
    else:
        want = "a failure other than ResponseDone/PotentialDataLoss"
        ok = reason.check(ResponseDone, PotentialDataLoss) is None
    if not ok:
        fails.append(("body-connectionLost-reason", "%s, expected %s" % (reason.type.__name__, want)))
    # a length- or chunk-delimited body that arrived completely is reported when it is complete,
    # not only when the server happens to close the connection
    if want == "ResponseDone" and obs.lost_before_close == 0:
        fails.append(("body-connectionLost-only-at-close",
                      "whole body delivered (%d bytes), consumer attached, nothing reported until the connection closed" % D))
    if obs.made != 1:
        fails.append(("body-makeConnection-count", str(obs.made)))
    return fails, where, obs


def framing_class(spec):
    method, persistent, status, interim, framing, body, eol, extra = spec
    if method == "HEAD" or status in (204, 304):
        return "no-body"
    return {"cl": "content-length", "cl-dup": "content-length", "cl-list": "content-length", "chunked1": "chunked",
            "chunked2": "chunked", "close": "close-delimited", "none": "close-delimited"}[framing]


def signature(spec, fails, where, timing):
    return "HTTP11ClientProtocol:%s:%s:%s%s" % (fails[0][0], framing_class(spec), where,
                                               ":1xx" if (spec[3] or spec[7].startswith("i1")) and where == "in-headers" else "")


# ---------------------------------------------------------------- contract
def shards(tier, seed):
    n = len(specs(tier))
    per = 1 if tier == "quick" else 2
    return [[i, min(i + per, n)] for i in range(0, n, per)]


def run_shard(shard, tier, seed):
    st = Stats()
    for spec in specs(tier)[shard[0]:shard[1]]:
        raw, H, marks, end = build(spec)
        for t in range(len(raw) + 1):
            for cuts in segmentations(t, tier, t == len(raw)):
                for timing in TIMINGS:
                    st.evaluations += 1
                    fails, where, obs = check(spec, t, cuts, timing)
                    if 0 < t < len(raw) or cuts:
                        st.nt((spec, t, cuts, timing))
                    st.outcome("%s/%s" % (framing_class(spec), where))
                    if fails:
                        st.violation(signature(spec, fails, where, timing),
                                     {"fails": fails[:3], "response": raw, "delivered": obs.delivered},
                                     {"spec": spec, "t": t, "cuts": cuts, "timing": timing})
                    elif st.evaluations % 20011 == 1:
                        st.sample({"spec": spec, "t": t, "cuts": cuts, "timing": timing,
                                   "fired": obs.fired[0][0], "body": b"".join(obs.data),
                                   "reason": obs.lost and obs.lost[0].type.__name__})
    return st


def replay(w):
    spec = tup(w["spec"])
    spec = (spec[0], bool(spec[1])) + spec[2:]
    fails, where, obs = check(spec, w["t"], tuple(w["cuts"]), w["timing"])
    if not fails:
        return []
    return [(signature(spec, fails, where, w["timing"]), {"fails": fails[:3]})]
