"""C27 redirect following: every redirect chain over a small universe of origins, Location forms, status codes,
methods, limits and header sets, driven through the real RedirectAgent / BrowserLikeRedirectAgent over a
recording inner agent, compared hop by hop with an RFC 3986 resolver and the documented method rules."""
import itertools
import re

from mc.runner import Stats

ID = "C27"
LEVEL = "exploration"
TECHNIQUE = "exhaustive enumeration of redirect chains against an RFC 3986 reference resolver"
RULE = ("every chain of <= 2 (quick) redirect responses, each = code {301,302,303,307,308} x Location from 18 forms "
        "(absolute to the same origin, other scheme, other port, explicit default port, other host inside a directory; "
        "'/p', 'p', '../p', './', 'd2/', '//b/p', '?q', empty, missing header) x 5 initial URIs (directory path, https, http on :8443 and https on :80 - so that a redirect can change the scheme while host and explicit/effective port stay equal, "
        "non-default port with query) x methods {GET,HEAD,POST} x redirectLimit {0,1,2} x both agent classes x "
        "inner Deferreds fired synchronously or later x header sets (sensitive defaults + a configured name + a plain "
        "header / no headers); thorough adds chains of 3 over a reduced hop alphabet.  Every request reaching the inner "
        "agent is compared with the reference: target = RFC 3986 5.2 resolution of Location against the URI of the request "
        "that received the redirect, count <= limit, method kept for 307/308 and set to GET only where the agent "
        "documents it, no sensitive header on a request whose origin differs from the first request's origin. "
        "non-trivial = distinct executions with >= 1 followed redirect")
BOUNDS = {"quick": "chains <= 2 over 90 hop symbols", "thorough": "chains <= 2 over 90 hop symbols + chains of 3 over 30"}
ASSUMPTIONS = [
    "the inner agent answers the i-th request with the i-th response of the chain whatever its URI (any chain of "
    "responses); URIs carry no fragment",
    "origin = (scheme, host, port with the scheme's default filled in)",
    "where the statement is silent (POST on 301/302/307/308 with the strict agent, which documents 'no automatic "
    "redirect') both refusing and following with the unchanged method are accepted",
]
MIN = {"quick": {"evaluations": 700000, "nontrivial": 450000, "outcomes": 6},
       "thorough": {"evaluations": 2700000, "nontrivial": 2000000, "outcomes": 6}}

CODES = [301, 302, 303, 307, 308]
LOCS = [b"http://a/p", b"https://a/p", b"http://a:8080/p", b"http://a:80/p", b"http://b/d/p", b"https://a:443/s/p",
        # other scheme, same host and same explicit / effective port (origin = scheme + host + port)
        b"https://a:8443/p", b"http://a:443/p", b"https://a:80/p",
        b"/p", b"p", b"../p", b"./", b"d2/", b"//b/p", b"?q", b"", None]
LOCS3 = [b"http://b/d/p", b"https://a/p", b"p", b"../p", b"/p", b"//b/p", b"?q", b"http://a/e/f/p", b"", b"d2/"]
CODES3 = [302, 303, 307]
INITIAL = [b"http://a/d/1", b"https://a/1", b"http://a:8080/x/y/1?q=1", b"http://a:8443/login", b"https://a:80/1"]
METHODS = [b"GET", b"HEAD", b"POST"]
LIMITS = [0, 1, 2]
SENSITIVE = [b"authorization", b"cookie", b"proxy-authorization", b"x-secret"]


# --------------------------------------------------------------------------- reference: RFC 3986 section 5.2

_URI = re.compile(rb"^(?:([A-Za-z][A-Za-z0-9+.-]*):)?(?://([^/?#]*))?([^?#]*)(?:\?([^#]*))?(?:#(.*))?$", re.S)


def _split(u):
    m = _URI.match(u)
    return m.group(1), m.group(2), m.group(3), m.group(4), m.group(5)


def _remove_dots(path):
    out = []
    inp = path
    while inp:
        if inp.startswith(b"../"):
            inp = inp[3:]
        elif inp.startswith(b"./"):
            inp = inp[2:]
        elif inp.startswith(b"/./"):
            inp = inp[2:]
        elif inp == b"/.":
            inp = b"/"
        elif inp.startswith(b"/../"):
            inp = inp[3:]
            if out:
                out.pop()
        elif inp == b"/..":
            inp = b"/"
            if out:
                out.pop()
        elif inp in (b".", b".."):
            inp = b""
        else:
            i = inp.find(b"/", 1)
            if i < 0:
                out.append(inp)
                inp = b""
            else:
                out.append(inp[:i])
                inp = inp[i:]
    return b"".join(out)


def resolve(base, ref):
    bs, ba, bp, bq, _bf = _split(base)
    rs, ra, rp, rq, rf = _split(ref)
    if rs is not None:
        ts, ta, tp, tq = rs, ra, _remove_dots(rp), rq
    else:
        if ra is not None:
            ta, tp, tq = ra, _remove_dots(rp), rq
        else:
            if rp == b"":
                tp = bp
                tq = rq if rq is not None else bq
            else:
                if rp.startswith(b"/"):
                    tp = _remove_dots(rp)
                else:
                    if ba is not None and bp == b"":
                        merged = b"/" + rp
                    else:
                        merged = bp[:bp.rfind(b"/") + 1] + rp
                    tp = _remove_dots(merged)
                tq = rq
            ta = ba
        ts = bs
    out = b""
    if ts is not None:
        out += ts + b":"
    if ta is not None:
        out += b"//" + ta
    out += tp
    if tq is not None:
        out += b"?" + tq
    if rf is not None:
        out += b"#" + rf
    return out


_TCACHE = {}


def acceptable_targets(base, ref):
    k = (base, ref)
    r = _TCACHE.get(k)
    if r is None:
        r = _TCACHE[k] = _acceptable_targets(base, ref)
    return r


def _acceptable_targets(base, ref):
    """The RFC answer, plus urllib's where it differs (both are defensible readings for odd inputs)."""
    from urllib.parse import urljoin
    s = {resolve(base, ref)}
    try:
        s.add(urljoin(base, ref))
    except ValueError:
        pass
    return s


def origin(uri):
    s, a, _p, _q, _f = _split(uri)
    s = (s or b"").lower()
    a = (a or b"").lower()
    if b"@" in a:
        a = a.rsplit(b"@", 1)[1]
    host, port = a, None
    m = re.match(rb"^(.*):([0-9]*)$", a)
    if m and not a.endswith(b"]"):
        host, port = m.group(1), m.group(2)
    if not port:
        port = {b"http": b"80", b"https": b"443"}.get(s, b"")
    return (s, host, int(port) if port else None)


# --------------------------------------------------------------------------- the documented method rules

def method_rule(agent, code, method):
    """-> (expected method of the follow-up, must_follow?).  Both from the class docstrings:
    RedirectAgent: 301/302/307/308 redirected for GET and HEAD only (method kept), 303 for any method, altered to GET.
    BrowserLikeRedirectAgent: 301 and 302 behave like 303.  The statement adds: 307/308 keep the method."""
    if code in (307, 308):
        return method, method in (b"GET", b"HEAD")
    if code == 303:
        return b"GET", True
    if agent == "browser":          # 301 / 302 behave like 303
        return b"GET", True
    return method, method in (b"GET", b"HEAD")


# --------------------------------------------------------------------------- driving the real agent

class FakeResponse:
    version = (b"HTTP", 1, 1)
    length = 0
    request = None

    def __init__(self, code, headers):
        self.code = code
        self.phrase = b"x"
        self.headers = headers
        self.previousResponse = None

    def setPreviousResponse(self, r):
        self.previousResponse = r

    def deliverBody(self, protocol):
        pass


_DONE = []


def _iresponse():
    if not _DONE:
        from zope.interface import classImplements
        from twisted.web.iweb import IResponse
        classImplements(FakeResponse, IResponse)
        _DONE.append(1)


def _failure_label(f):
    try:
        return f.value.reasons[0].type.__name__
    except Exception:
        return f.type.__name__


class Recorder:
    """Inner agent: records every request, answers from the chain."""

    def __init__(self, chain, sync):
        self.chain = chain
        self.sync = sync
        self.requests = []
        self.pending = []

    def _response(self, i):
        from twisted.web.http_headers import Headers
        if i < len(self.chain):
            code, loc = self.chain[i]
            h = Headers()
            if loc is not None:
                h.setRawHeaders(b"location", [loc])
            return FakeResponse(code, h)
        return FakeResponse(200, Headers())

    def request(self, method, uri, headers=None, bodyProducer=None):
        from twisted.internet.defer import Deferred
        i = len(self.requests)
        hs = None
        if headers is not None:
            hs = sorted((k.lower(), tuple(v)) for k, v in headers.getAllRawHeaders())
        self.requests.append((method, uri, hs))
        d = Deferred()
        if self.sync:
            d.callback(self._response(i))
        else:
            self.pending.append((d, i))
        return d

    def drain(self):
        n = 0
        while self.pending and n < 50:
            d, i = self.pending.pop(0)
            d.callback(self._response(i))
            n += 1


def execute(agent_kind, limit, initial, method, chain, sync, with_headers):
    from twisted.web import client
    from twisted.web.http_headers import Headers
    _iresponse()
    rec = Recorder(chain, sync)
    cls = client.RedirectAgent if agent_kind == "strict" else client.BrowserLikeRedirectAgent
    agent = cls(rec, redirectLimit=limit, sensitiveHeaderNames=[b"x-secret"])
    headers = None
    if with_headers:
        headers = Headers({b"Authorization": [b"Basic s3"], b"Cookie": [b"k=v"], b"Proxy-Authorization": [b"p"],
                           b"X-Secret": [b"s"], b"Accept": [b"*/*"]})
    result = []
    d = agent.request(method, initial, headers)
    d.addCallbacks(lambda r: result.append(("ok", r.code)), lambda f: result.append(("fail", _failure_label(f))))
    rec.drain()
    return rec.requests, result


def judge(agent_kind, limit, initial, method, chain, requests, result):
    """-> (label, [(sig, detail)])"""
    name = "RedirectAgent" if agent_kind == "strict" else "BrowserLikeRedirectAgent"
    bad = []

    def v(sig, note):
        bad.append((sig, {"agent": name, "limit": limit, "initial": initial, "method": method, "chain": chain,
                          "requests": [(m, u) for (m, u, h) in requests], "note": note}))

    if not requests or requests[0][0] != method or requests[0][1] != initial:
        v("RedirectAgent:first-request-altered", "first request differs from the caller's")
        return "broken", bad, 0
    if not result:
        v("RedirectAgent:result-never-delivered", "the Deferred returned by request() did not fire")
    org0 = origin(initial)
    followed = 0
    i = 0
    while True:
        has_next = i + 1 < len(requests)
        if i >= len(chain):
            if has_next:
                v("RedirectAgent:request-after-final-response", "a request was issued after a non-redirect response")
            break
        code, loc = chain[i]
        cur_method, cur_uri, _ = requests[i]
        if i >= limit:
            if has_next:
                v("RedirectAgent:redirect-limit-exceeded", "follow-up #%d with redirectLimit %d" % (i + 1, limit))
            break
        if loc is None:
            if has_next:
                v("RedirectAgent:followed-without-location", "redirect without Location was followed")
            break
        want_method, must = method_rule(agent_kind, code, cur_method)
        if not has_next:
            if must:
                v("%s:redirect-not-followed:%d" % (name, code), "hop %d: %s %d was not followed" % (i + 1, cur_method.decode(), code))
            break
        nm, nu, nh = requests[i + 1]
        followed += 1
        targets = acceptable_targets(cur_uri, loc)
        if nu not in targets:
            if i >= 1 and nu in acceptable_targets(initial, loc):
                v("RedirectAgent:hop>=2-location-resolved-against-original-uri",
                  "hop %d: Location %r received by %r went to %r (reference %r)" % (i + 1, loc, cur_uri, nu, sorted(targets)[0]))
            else:
                v("RedirectAgent:wrong-redirect-target",
                  "hop %d: Location %r received by %r went to %r (reference %r)" % (i + 1, loc, cur_uri, nu, sorted(targets)[0]))
            break       # later hops depend on this one
        if nm != want_method:
            if code in (307, 308):
                v("%s:%d-method-not-preserved" % (name, code), "hop %d: %s became %s" % (i + 1, cur_method.decode(), nm.decode()))
            elif nm == b"GET":
                v("%s:%d-switched-to-GET-undocumented" % (name, code), "hop %d: %s became GET" % (i + 1, cur_method.decode()))
            else:
                v("%s:%d-method-wrong" % (name, code), "hop %d: %s became %s, documented %s" % (
                    i + 1, cur_method.decode(), nm.decode(), want_method.decode()))
        if nh and origin(nu) != org0:
            leaked = sorted(k for k, _v in nh if k in SENSITIVE)
            if leaked:
                v("RedirectAgent:sensitive-header-sent-cross-origin",
                  "hop %d: %s sent to %r (original origin %r)" % (i + 1, b",".join(leaked).decode(), nu, initial))
        i += 1
    if bad:
        label = "violation"
    elif not result:
        label = "no-result"
    else:
        label = "%s-after-%d" % (result[0][0] if result[0][0] == "ok" else result[0][1], followed)
    return label, bad, followed


# --------------------------------------------------------------------------- enumeration

def hop_symbols():
    return [(c, l) for c in CODES for l in LOCS]


def chains(tier, first):
    """All chains starting with hop symbol `first` (None = the empty chain and nothing else)."""
    if first is None:
        yield ()
        return
    hops = hop_symbols()
    yield (first,)
    for h in hops:
        yield (first, h)
    if tier == "thorough" and first[0] in CODES3 and first[1] in LOCS3:
        hops3 = [(c, l) for c in CODES3 for l in LOCS3]
        for h2 in hops3:
            for h3 in hops3:
                yield (first, h2, h3)


def shards(tier, seed):
    out = [["empty"]]
    for c in CODES:
        for li in range(len(LOCS)):
            out.append(["first", c, li])
    return out


def run_shard(shard, tier, seed):
    st = Stats()
    first = None if shard[0] == "empty" else (shard[1], LOCS[shard[2]])
    limits = LIMITS if tier == "quick" else LIMITS + [3]
    for chain in chains(tier, first):
        for agent_kind, limit, initial, method, sync, with_headers in itertools.product(
                ("strict", "browser"), limits, INITIAL, METHODS, (True, False), (True, False)):
            if not with_headers and not sync:
                continue
            if len(chain) >= 2 and (limit == 0 or not with_headers):
                continue        # limit 0 and the header-less run are decided by the first hop (covered by the 1-hop chains)
            if len(chain) == 3 and limit < 2:
                continue
            requests, result = execute(agent_kind, limit, initial, method, chain, sync, with_headers)
            label, bad, followed = judge(agent_kind, limit, initial, method, chain, requests, result)
            st.evaluations += 1
            st.outcome(label)
            if followed:
                st.nt((agent_kind, limit, initial, method, chain, sync, with_headers))
            if st.evaluations % 4001 == 5:
                st.sample({"agent": agent_kind, "limit": limit, "method": method, "initial": initial,
                           "chain": [list(h) for h in chain], "requests": [(m, u) for m, u, h in requests],
                           "outcome": label}, 2)
            for sig, detail in bad:
                st.violation(sig, detail, {"agent": agent_kind, "limit": limit, "initial": initial, "method": method,
                                           "chain": [list(h) for h in chain], "sync": sync, "headers": with_headers})
    return st


def replay(w):
    chain = tuple((c, l) for c, l in w["chain"])
    requests, result = execute(w["agent"], w["limit"], w["initial"], w["method"], chain, w["sync"], w["headers"])
    return judge(w["agent"], w["limit"], w["initial"], w["method"], chain, requests, result)[1]
