"""C28 template flattening: every small element tree over a hostile content alphabet is flattened by the real
twisted.web.template flattener and re-parsed by independent parsers (expat via xml.dom.minidom, a WHATWG-conformant
tokenizer written here, and stdlib html.parser); the parsed structure must equal the tree that was built."""
import itertools
import re

from mc.runner import Stats

ID = "C28"
LEVEL = "exploration"
TECHNIQUE = "exhaustive input enumeration with XML and HTML re-parsing"
RULE = ("trees from 28 shapes + 7 nested-slot shapes + 4 shapes x 4 renderer results for a slot-filled tag that also has a renderer (renderer returns the tag, its children, a new wrapper tag, a list holding a slot; inside an outer tag filling the same name) (the same slot name filled with different values on an outer and an inner tag, referenced as child and as attribute value inside the inner tag and again after it closed; three levels; siblings; inner tag filling another name; slot defaults - the parsed text must be the innermost enclosing fill) (text / attribute value / comment / CDATA in and next to elements, void and transparent "
        "tags, two attributes, depth 2, adjacent comment-text-CDATA pairs) x content strings = every concatenation of "
        "<= 2 tokens (quick; <= 3 for comment and CDATA payloads in thorough) from {< > & \" ' - -- -> --> !> --!> ] ]] ]]> ]> "
        "<!-- <![CDATA[ &amp; &lt; a space </div> <b> newline e-acute VT} x carriers (str, bytes, slot, slot default, fired "
        "Deferred, Deferred fired later, list of two pieces, generator, coroutine, renderer, nested transparent tag).  The flattened bytes "
        "are parsed (1) as XML by expat, (2) by a tokenizer written from WHATWG HTML 13.2.5 (data, tag, attribute, "
        "comment, bogus-comment and character-reference states), (3) by html.parser for trees without comments/CDATA; "
        "each event list (start tag + attributes, end tag, merged text, comment, CDATA as text) must equal the one "
        "derived from the tree.  non-trivial = distinct (shape, strings, carrier) holding a markup-significant token")
BOUNDS = {"quick": "<= 2 content positions, strings of <= 2 tokens (two-position shapes: 1 token each)",
          "thorough": "comment/CDATA payloads of <= 3 tokens, two-position shapes with <= 2 tokens on the first position"}
ASSUMPTIONS = [
    "comment payloads are compared for presence and position only: escapedComment is documented to rewrite '-->' and to "
    "pad a trailing '-', so the payload cannot round-trip; every other node is compared exactly",
    "XML oracle: expat attribute-value normalisation (TAB/LF -> space) is applied to the expected value; trees holding a "
    "character that is illegal in XML 1.0 (VT) are only checked by the HTML oracles",
    "HTML oracles skip trees with CDATA nodes (HTML has no CDATA sections outside foreign content) and use only the "
    "elements div / span / br (no raw-text elements, no tree-construction fix-ups)",
    "html.parser is not consulted for comments: CPython 3.12.1 closes comments at '--' S* '>' (pre-HTML5 behaviour)",
]
MIN = {"quick": {"evaluations": 60000, "nontrivial": 57000, "outcomes": 4},
       "thorough": {"evaluations": 280000, "nontrivial": 275000, "outcomes": 4}}

TOKENS = ["<", ">", "&", '"', "'", "-", "--", "->", "-->", "!>", "--!>", "]", "]]", "]]>", "]>", "<!--", "<![CDATA[",
          "&amp;", "&lt;", "a", " ", "</div>", "<b>", "\n", "é", "\x0b"]
SIGNIFICANT = set("<>&\"'-]!")
CARRIERS_TEXT = ["str", "bytes", "slot", "slotdefault", "deferred", "late", "pieces", "generator", "coroutine",
                 "renderer", "transparent"]
CARRIERS_ATTR = ["str", "bytes", "slot", "slotdefault", "deferred", "late", "pieces", "generator", "coroutine",
                 "renderer", "transparent"]
XML_ILLEGAL = re.compile("[\x00-\x08\x0b\x0c\x0e-\x1f]")


def strings(n):
    out = [""]
    for k in range(1, n + 1):
        for combo in itertools.product(TOKENS, repeat=k):
            out.append("".join(combo))
    seen, res = set(), []
    for s in out:
        if s not in seen:
            seen.add(s)
            res.append(s)
    return res


# --------------------------------------------------------------------------- tree specs
# spec node: ("text", s, carrier) | ("comment", s, kind) | ("cdata", s, kind) | ("charref", n)
#          | ("tag", name, [(attr, s, carrier)], [children])        name "" = transparent tag

def shapes_one():
    """Shapes with one content position; f(s, carrier) -> list of top-level spec nodes.  -> (name, ctx, f)"""
    return [
        ("top-text", "text", lambda s, c: [("text", s, c)]),
        ("div-text", "text", lambda s, c: [("tag", "div", [], [("text", s, c)])]),
        ("div-text-between", "text", lambda s, c: [("tag", "div", [], [("tag", "br", [], []), ("text", s, c),
                                                                          ("tag", "span", [], [])])]),
        ("div-attr", "attr", lambda s, c: [("tag", "div", [("t", s, c)], [])]),
        ("br-attr", "attr", lambda s, c: [("tag", "br", [("t", s, c)], [])]),
        ("div-attr-child", "attr", lambda s, c: [("tag", "div", [("t", s, c)], [("tag", "span", [], [("text", "x", "str")])])]),
        ("comment", "comment", lambda s, c: [("comment", s, c)]),
        ("div-comment", "comment", lambda s, c: [("tag", "div", [], [("comment", s, c)])]),
        ("comment-then-div", "comment", lambda s, c: [("comment", s, c), ("tag", "div", [("t", "v", "str")], [("text", "x", "str")])]),
        ("cdata", "cdata", lambda s, c: [("cdata", s, c)]),
        ("div-cdata", "cdata", lambda s, c: [("tag", "div", [], [("cdata", s, c)])]),
        ("cdata-then-div", "cdata", lambda s, c: [("cdata", s, c), ("tag", "div", [], [("text", "x", "str")])]),
    ]


def shapes_two():
    """Shapes with two content positions (plain carriers); f(s1, s2) -> spec list."""
    T = lambda s: ("text", s, "str")
    return [
        ("comment,text", lambda a, b: [("comment", a, "str"), T(b)]),
        ("text,comment", lambda a, b: [T(a), ("comment", b, "str")]),
        ("div(comment,text)", lambda a, b: [("tag", "div", [], [("comment", a, "str"), T(b)])]),
        ("comment,comment", lambda a, b: [("comment", a, "str"), ("comment", b, "str")]),
        ("cdata,text", lambda a, b: [("cdata", a, "str"), T(b)]),
        ("text,cdata", lambda a, b: [T(a), ("cdata", b, "str")]),
        ("cdata,cdata", lambda a, b: [("cdata", a, "str"), ("cdata", b, "str")]),
        ("cdata,comment", lambda a, b: [("cdata", a, "str"), ("comment", b, "str")]),
        ("comment,cdata", lambda a, b: [("comment", a, "str"), ("cdata", b, "str")]),
        ("div-attr+text", lambda a, b: [("tag", "div", [("t", a, "str")], [T(b)])]),
        ("div-attr+comment", lambda a, b: [("tag", "div", [("t", a, "str")], [("comment", b, "str")])]),
        ("div-two-attrs", lambda a, b: [("tag", "div", [("t", a, "str"), ("u", b, "bytes")], [])]),
        ("div-text,div-attr", lambda a, b: [("tag", "div", [], [T(a)]), ("tag", "div", [("t", b, "str")], [])]),
        ("depth2", lambda a, b: [("tag", "div", [], [("tag", "span", [("t", a, "slot")], [("text", b, "deferred")])])]),
        ("transparent(text,comment)", lambda a, b: [("tag", "", [], [T(a), ("comment", b, "str")])]),
        ("text,text", lambda a, b: [("text", a, "str"), ("text", b, "bytes")]),
    ]


def model(spec_nodes, leak=False):
    """Expected event list of a spec forest.  Slot references resolve to the innermost enclosing fill
    (the documented meaning of Tag.fillSlots: "during the rendering of children of this node").
    leak=True computes, for signature refinement only, what a flattener gives that never drops the fill frame of a
    tag once that tag is closed."""
    ev = []
    leaked = []

    def text(s):
        if not s:
            return
        if ev and ev[-1][0] == "text":
            ev[-1] = ("text", ev[-1][1] + s)
        else:
            ev.append(("text", s))

    def lookup(name, default, env):
        for frame in reversed(env):
            if name in frame:
                return frame[name]
        return default

    def walk(n, env):
        k = n[0]
        if k == "text":
            text(n[1])
        elif k == "slotref":
            text(lookup(n[1], n[2], env))
        elif k == "charref":
            text(chr(n[1]))
        elif k == "comment":
            ev.append(("comment",))
        elif k == "cdata":
            ev.append(("cdata", n[1]))
        elif k == "tag":
            if n[1] == "":
                for c in n[3]:
                    walk(c, env)
                return
            ev.append(("start", n[1], tuple(sorted((a, s) for a, s, _c in n[2]))))
            for c in n[3]:
                walk(c, env)
            ev.append(("end", n[1]))
        elif k == "rtag":
            # a slot-filled tag with a renderer: its fills cover whatever the renderer returned
            frame = dict((fk, fv) for fk, fv, _kind in n[2])
            if leak:
                leaked.append(frame)
                env = leaked
            else:
                env = env + [frame]
            mode = n[5]
            if mode == "same":
                ev.append(("start", n[1], tuple(sorted((a, lookup(sn, d, env)) for a, sn, d in n[3]))))
            elif mode == "wrap":
                ev.append(("start", "span", (("class", "w"),)))
            elif mode == "list":
                text("[")
                text(lookup("x", "dflt", env))
                text("]")
            for c in n[4]:
                walk(c, env)
            if mode == "same":
                ev.append(("end", n[1]))
            elif mode == "wrap":
                ev.append(("end", "span"))
        elif k == "ftag":
            if leak:
                leaked.append(dict((fk, fv) for fk, fv, _kind in n[2]))
                env = leaked
            else:
                env = env + [dict((fk, fv) for fk, fv, _kind in n[2])]
            if n[1] != "":
                ev.append(("start", n[1], tuple(sorted((a, lookup(sn, d, env)) for a, sn, d in n[3]))))
            for c in n[4]:
                walk(c, env)
            if n[1] != "":
                ev.append(("end", n[1]))
    for n in spec_nodes:
        walk(n, leaked if leak else [])
    return ev


RENDER_MODES = ["same", "children", "wrap", "list"]


def shapes_render():
    """A tag that carries BOTH fillSlots values and a renderer; the renderer returns the tag, its children, a new
    wrapper tag around the children, or a list holding a slot.  f(mode, a, b, c) -> spec list.
    rtag = (kind, tag name, fills, attributes [(attr, slot, default)], children, renderer mode)."""
    R = lambda name="x", default=None: ("slotref", name, default)
    T = lambda s: ("text", s, "str")
    return {
        "r-nested": lambda m, a, b, c: [("ftag", "div", [("x", a, "str")], [], [
            R(), ("rtag", "span", [("x", b, "str")], [("t", "x", None)], [R(), T("!")], m), R()])],
        "r-top": lambda m, a, b, c: [("rtag", "div", [("x", b, "str")], [("t", "x", None)], [R(), T(a)], m),
                                     R("x", c)],
        "r-holds-ftag": lambda m, a, b, c: [("ftag", "div", [("x", c, "str")], [], [
            ("rtag", "span", [("x", b, "bytes")], [], [("ftag", "span", [("x", a, "str")], [("t", "x", None)], [R()]), R()], m),
            R()])],
        "r-other-name": lambda m, a, b, c: [("ftag", "div", [("x", a, "str")], [], [
            ("rtag", "span", [("y", b, "str")], [("u", "y", None)], [R("x"), R("y")], m), R("y", c)])],
    }


def shapes_slots():
    """Same slot name filled at several nesting levels.  f(a, b, c) -> spec list.
    ftag = (kind, tag name, fills [(slot, value, carrier)], attributes [(attr, slot, default)], children)."""
    R = lambda name="x", default=None: ("slotref", name, default)
    return {
        # outer value before, inner value as attribute and child of the inner tag, outer value again after it closed
        "nested": lambda a, b, c: [("ftag", "div", [("x", a, "str")], [("t", "x", None)], [
            R(), ("ftag", "span", [("x", b, "str")], [("t", "x", None)], [R()]), R()])],
        "nested-bytes-deferred": lambda a, b, c: [("ftag", "div", [("x", a, "deferred")], [], [
            R(), ("ftag", "span", [("x", b, "bytes")], [("t", "x", None), ("u", "x", "dflt")], [R(default="dflt")]), R()])],
        "inner-transparent": lambda a, b, c: [("ftag", "div", [("x", a, "str")], [], [
            ("ftag", "", [("x", b, "str")], [], [R(), ("tag", "br", [], [])]), R()])],
        "three-levels": lambda a, b, c: [("ftag", "div", [("x", a, "str")], [], [
            ("ftag", "span", [("x", b, "str")], [("t", "x", None)], [
                ("ftag", "span", [("x", c, "str")], [("t", "x", None)], [R()]), R()]), R()])],
        "siblings": lambda a, b, c: [("ftag", "div", [("x", a, "str")], [], [
            ("ftag", "span", [("x", b, "str")], [], [R()]), ("ftag", "span", [("x", c, "str")], [("t", "x", None)], []), R()])],
        # the inner tag fills another name: the outer fill stays visible inside it, the default is used outside
        "inner-other-name": lambda a, b, c: [("ftag", "div", [("x", a, "str")], [], [
            ("ftag", "span", [("y", b, "str")], [("t", "x", None), ("u", "y", None)], [R("x"), R("y")]),
            R("x"), R("y", c)])],
        # the inner tag has an (empty) fill frame of its own
        "inner-default-vs-outer": lambda a, b, c: [("ftag", "div", [("x", a, "str")], [], [
            ("ftag", "span", [("y", b, "str")], [], [R("x", c)]), R("x", c)])],
    }


def merge_cdata(ev):
    """XML view: a CDATA section is character data."""
    out = []
    for e in ev:
        if e[0] in ("cdata", "text"):
            if not e[1]:
                continue
            if out and out[-1][0] == "text":
                out[-1] = ("text", out[-1][1] + e[1])
            else:
                out.append(("text", e[1]))
        else:
            out.append(e)
    return out


# --------------------------------------------------------------------------- building the real tree

class Build:
    """Turns a spec into twisted.web.template objects; collects Deferreds to fire later."""

    def __init__(self):
        self.late = []
        self.n = 0

    def carry(self, s, carrier, in_attr):
        from twisted.web.template import slot, Tag, Element, TagLoader, renderer
        from twisted.internet.defer import Deferred, succeed
        if carrier == "str":
            return s
        if carrier == "bytes":
            return s.encode("utf-8")
        if carrier == "slot":
            self.n += 1
            name = "s%d" % self.n
            return Tag("").fillSlots(**{name: s})(slot(name))
        if carrier == "slotdefault":
            return slot("never-filled", default=s)
        if carrier == "deferred":
            return succeed(s)
        if carrier == "late":
            d = Deferred()
            self.late.append((d, s))
            return d
        if carrier == "pieces":
            h = len(s) // 2
            return [s[:h], s[h:].encode("utf-8")]
        if carrier == "generator":
            return (x for x in [s[:1], s[1:]])
        if carrier == "coroutine":
            async def co():
                return s
            return co()
        if carrier == "renderer":
            class E(Element):
                loader = TagLoader(Tag("")(Tag("", render="r")))

                @renderer
                def r(self, request, tag):
                    return tag(s)
            return E()
        if carrier == "transparent":
            return Tag("")(Tag("")(s))
        raise ValueError(carrier)

    def node(self, n):
        from twisted.web.template import Tag, Comment, CDATA, CharRef
        k = n[0]
        if k == "text":
            return self.carry(n[1], n[2], False)
        if k == "charref":
            return CharRef(n[1])
        if k == "slotref":
            from twisted.web.template import slot
            return slot(n[1]) if n[2] is None else slot(n[1], default=n[2])
        if k == "rtag":
            from twisted.web.template import slot
            t = Tag(n[1], render="r_" + n[5])
            for a, sn, d in n[3]:
                t.attributes[a] = slot(sn) if d is None else slot(sn, default=d)
            t.children.extend(self.node(c) for c in n[4])
            t.fillSlots(**dict((fk, self.carry(fv, kind, False)) for fk, fv, kind in n[2]))
            return t
        if k == "ftag":
            from twisted.web.template import slot
            t = Tag(n[1])
            for a, sn, d in n[3]:
                t.attributes[a] = slot(sn) if d is None else slot(sn, default=d)
            t.children.extend(self.node(c) for c in n[4])
            t.fillSlots(**dict((fk, self.carry(fv, kind, False)) for fk, fv, kind in n[2]))
            return t
        if k == "comment":
            return Comment(n[1] if n[2] == "str" else n[1].encode("utf-8"))
        if k == "cdata":
            return CDATA(n[1] if n[2] == "str" else n[1].encode("utf-8"))
        t = Tag(n[1])
        for a, s, c in n[2]:
            t.attributes[a] = self.carry(s, c, True)
        t.children.extend(self.node(c) for c in n[3])
        return t


_PAGE = []


def _page_class():
    if not _PAGE:
        from twisted.web.template import Element, Tag, renderer, slot

        class Page(Element):
            @renderer
            def r_same(self, request, tag):
                return tag

            @renderer
            def r_children(self, request, tag):
                return tag.children

            @renderer
            def r_wrap(self, request, tag):
                return Tag("span", attributes={"class": "w"})(tag.children)

            @renderer
            def r_list(self, request, tag):
                return ["[", slot("x", default="dflt"), "]", tag.children]
        _PAGE.append(Page)
    return _PAGE[0]


def flatten_spec(spec_nodes):
    """-> (bytes or None, error string or None)"""
    from twisted.web.template import flattenString
    b = Build()
    root = [b.node(n) for n in spec_nodes]
    if _has(spec_nodes, "rtag"):
        from twisted.web.template import Tag, TagLoader
        root = _page_class()(loader=TagLoader(Tag("")(*root)))
    out, err = [], []
    d = flattenString(None, root)
    d.addCallbacks(out.append, lambda f: err.append("%s: %s" % (f.type.__name__, f.getErrorMessage()[:200])))
    n = 0
    while b.late and n < 50:
        dd, s = b.late.pop(0)
        dd.callback(s)
        n += 1
    if err:
        return None, err[0]
    if not out:
        return None, "flattenString never fired"
    return out[0], None


# --------------------------------------------------------------------------- parser 1: XML (expat through minidom)

def parse_xml(doc):
    """-> event list or ('error', message)"""
    from xml.dom import minidom
    from xml.parsers.expat import ExpatError
    try:
        dom = minidom.parseString(b"<verifroot>" + doc + b"</verifroot>")
    except ExpatError as e:
        return ("error", str(e))
    ev = []

    def walk(node):
        for c in node.childNodes:
            t = c.nodeType
            if t == c.ELEMENT_NODE:
                attrs = tuple(sorted((c.attributes.item(i).name, c.attributes.item(i).value)
                                     for i in range(c.attributes.length)))
                ev.append(("start", c.tagName, attrs))
                walk(c)
                ev.append(("end", c.tagName))
            elif t in (c.TEXT_NODE, c.CDATA_SECTION_NODE):
                ev.append(("text", c.data))
            elif t == c.COMMENT_NODE:
                ev.append(("comment",))
            else:
                ev.append(("other", c.nodeName))
    walk(dom.documentElement)
    dom.unlink()
    return merge_cdata(ev)


# --------------------------------------------------------------------------- parser 2: WHATWG HTML tokenizer (subset)

VOID = {"br", "img", "hr", "input", "meta", "link"}
_WS = "\t\n\x0c "
_NAMED = {"amp": "&", "lt": "<", "gt": ">", "quot": '"', "apos": "'"}
_CHARREF = re.compile(r"&(?:#([0-9]+);|#[xX]([0-9a-fA-F]+);|(amp|lt|gt|quot|apos);)")


def _charref(s, i):
    """s[i] == '&' -> (text, next index)"""
    m = _CHARREF.match(s, i)
    if not m:
        return "&", i + 1
    if m.group(1):
        return chr(int(m.group(1))), m.end()
    if m.group(2):
        return chr(int(m.group(2), 16)), m.end()
    return _NAMED[m.group(3)], m.end()


def tokenize_html(s):
    """WHATWG 13.2.5 states used by non-foreign, non-rawtext content.  -> event list."""
    ev = []
    buf = []

    def flush():
        if buf:
            ev.append(("text", "".join(buf)))
            del buf[:]

    n = len(s)
    i = 0
    while i < n:
        ch = s[i]
        if ch == "&":
            t, i = _charref(s, i)
            buf.append(t)
            continue
        if ch != "<":
            buf.append(ch)
            i += 1
            continue
        # tag open state
        nxt = s[i + 1] if i + 1 < n else ""
        if nxt == "!":
            flush()
            i = _markup_decl(s, i + 2, ev)
        elif nxt == "/":
            c2 = s[i + 2] if i + 2 < n else ""
            if c2.isascii() and c2.isalpha():
                flush()
                i = _tag(s, i + 2, ev, True)
            elif c2 == ">":
                i += 3
            elif c2 == "":
                buf.append("</")
                i += 2
            else:
                flush()
                i = _bogus(s, i + 2, ev, "")
        elif nxt.isascii() and nxt.isalpha():
            flush()
            i = _tag(s, i + 1, ev, False)
        elif nxt == "?":
            flush()
            i = _bogus(s, i + 1, ev, "")
        else:
            buf.append("<")
            i += 1
    flush()
    return ev


def _bogus(s, i, ev, data):
    j = s.find(">", i)
    if j < 0:
        ev.append(("comment", data + s[i:]))
        return len(s)
    ev.append(("comment", data + s[i:j]))
    return j + 1


def _markup_decl(s, i, ev):
    if s.startswith("--", i):
        return _comment(s, i + 2, ev)
    if s[i:i + 7].lower() == "doctype":
        j = s.find(">", i)
        ev.append(("doctype",))
        return len(s) if j < 0 else j + 1
    if s.startswith("[CDATA[", i):
        return _bogus(s, i + 7, ev, "[CDATA[")      # not in foreign content: bogus comment
    return _bogus(s, i, ev, "")


def _comment(s, i, ev):
    """comment start state at s[i]; the states of 13.2.5.43 - 13.2.5.52."""
    n = len(s)
    data = []
    state = "start"
    while True:
        ch = s[i] if i < n else None
        if state == "start":
            if ch == "-":
                state = "start-dash"
                i += 1
            elif ch == ">":
                i += 1
                break
            else:
                state = "comment"
        elif state == "start-dash":
            if ch == "-":
                state = "end"
                i += 1
            elif ch == ">":
                i += 1
                break
            elif ch is None:
                break
            else:
                data.append("-")
                state = "comment"
        elif state == "comment":
            if ch == "<":
                data.append(ch)
                state = "lt"
                i += 1
            elif ch == "-":
                state = "end-dash"
                i += 1
            elif ch is None:
                break
            else:
                data.append(ch)
                i += 1
        elif state == "lt":
            if ch == "!":
                data.append(ch)
                state = "lt-bang"
                i += 1
            elif ch == "<":
                data.append(ch)
                i += 1
            else:
                state = "comment"
        elif state == "lt-bang":
            if ch == "-":
                state = "lt-bang-dash"
                i += 1
            else:
                state = "comment"
        elif state == "lt-bang-dash":
            if ch == "-":
                state = "lt-bang-dash-dash"
                i += 1
            else:
                state = "end-dash"
        elif state == "lt-bang-dash-dash":
            state = "end"
        elif state == "end-dash":
            if ch == "-":
                state = "end"
                i += 1
            elif ch is None:
                break
            else:
                data.append("-")
                state = "comment"
        elif state == "end":
            if ch == ">":
                i += 1
                break
            elif ch == "!":
                state = "end-bang"
                i += 1
            elif ch == "-":
                data.append("-")
                i += 1
            elif ch is None:
                break
            else:
                data.append("--")
                state = "comment"
        elif state == "end-bang":
            if ch == "-":
                data.append("--!")
                state = "end-dash"
                i += 1
            elif ch == ">":
                i += 1
                break
            elif ch is None:
                break
            else:
                data.append("--!")
                state = "comment"
    ev.append(("comment", "".join(data)))
    return i


def _tag(s, i, ev, is_end):
    """tag name state at s[i] (an ASCII letter)."""
    n = len(s)
    j = i
    while j < n and s[j] not in _WS and s[j] not in "/>":
        j += 1
    name = s[i:j].lower()
    attrs = []
    seen = set()
    i = j
    self_closing = False
    while True:
        while i < n and s[i] in _WS:
            i += 1
        if i >= n:
            return n                       # EOF in tag: the tag is dropped
        ch = s[i]
        if ch == ">":
            i += 1
            break
        if ch == "/":
            if i + 1 < n and s[i + 1] == ">":
                self_closing = True
                i += 2
                break
            i += 1
            continue
        # attribute name state ('=' as first character belongs to the name)
        j = i + 1 if ch == "=" else i
        while j < n and s[j] not in _WS and s[j] not in "/>=":
            j += 1
        aname = s[i:j].lower()
        i = j
        while i < n and s[i] in _WS:
            i += 1
        val = ""
        if i < n and s[i] == "=":
            i += 1
            while i < n and s[i] in _WS:
                i += 1
            if i < n and s[i] in "\"'":
                q = s[i]
                i += 1
                parts = []
                while i < n and s[i] != q:
                    if s[i] == "&":
                        t, i = _charref(s, i)
                        parts.append(t)
                    else:
                        parts.append(s[i])
                        i += 1
                if i >= n:
                    return n
                i += 1
                val = "".join(parts)
            elif i < n and s[i] == ">":
                pass
            else:
                parts = []
                while i < n and s[i] not in _WS and s[i] != ">":
                    if s[i] == "&":
                        t, i = _charref(s, i)
                        parts.append(t)
                    else:
                        parts.append(s[i])
                        i += 1
                val = "".join(parts)
        if aname not in seen:
            seen.add(aname)
            attrs.append((aname, val))
    if is_end:
        ev.append(("end", name))
    else:
        ev.append(("start", name, tuple(sorted(attrs))))
        if name in VOID:
            ev.append(("end", name))
    return i


def parse_html5(doc):
    try:
        s = doc.decode("utf-8")
    except UnicodeDecodeError as e:
        return ("error", "not UTF-8: %s" % e)
    ev = []
    for e in tokenize_html(s):
        if e[0] == "comment":
            ev.append(("comment",) if not e[1].startswith("[CDATA[") else ("bogus-cdata",))
        else:
            ev.append(e)
    return ev


# --------------------------------------------------------------------------- parser 3: html.parser

def parse_htmlparser(doc):
    from html.parser import HTMLParser
    ev = []

    class P(HTMLParser):
        def handle_starttag(self, tag, attrs):
            ev.append(("start", tag, tuple(sorted((k, v if v is not None else "") for k, v in attrs))))
            if tag in VOID:
                ev.append(("end", tag))

        def handle_startendtag(self, tag, attrs):
            ev.append(("start", tag, tuple(sorted((k, v if v is not None else "") for k, v in attrs))))
            ev.append(("end", tag))

        def handle_endtag(self, tag):
            if tag not in VOID:
                ev.append(("end", tag))

        def handle_data(self, d):
            if ev and ev[-1][0] == "text":
                ev[-1] = ("text", ev[-1][1] + d)
            else:
                ev.append(("text", d))

        def handle_comment(self, d):
            ev.append(("comment",))

        def handle_decl(self, d):
            ev.append(("decl", d))

        def unknown_decl(self, d):
            ev.append(("unknown-decl", d))

        def handle_pi(self, d):
            ev.append(("pi", d))
    p = P(convert_charrefs=True)
    try:
        p.feed(doc.decode("utf-8"))
        p.close()
    except Exception as e:  # noqa
        return ("error", "%s: %s" % (type(e).__name__, e))
    return ev


# --------------------------------------------------------------------------- oracle

def _kids(n):
    return n[3] if n[0] == "tag" else n[4] if n[0] in ("ftag", "rtag") else ()


def _has(spec_nodes, kind):
    def w(n):
        if n[0] == kind:
            return True
        return any(w(c) for c in _kids(n))
    return any(w(n) for n in spec_nodes)


def _all_strings(spec_nodes):
    out = []

    def w(n):
        if n[0] in ("text", "comment", "cdata"):
            out.append(n[1])
        elif n[0] == "slotref":
            out.append(n[2] or "")
        elif n[0] == "tag":
            out.extend(s for _a, s, _c in n[2])
            for c in n[3]:
                w(c)
        elif n[0] in ("ftag", "rtag"):
            out.extend(fv for _k, fv, _c in n[2])
            out.extend(d or "" for _a, _s, d in n[3])
            for c in n[4]:
                w(c)
    for n in spec_nodes:
        w(n)
    return out


def _first_diff(want, got):
    for k, (a, b) in enumerate(zip(want, got)):
        if a != b:
            return k, a, b
    k = min(len(want), len(got))
    return k, (want[k] if k < len(want) else None), (got[k] if k < len(got) else None)


def _where(spec_nodes):
    """Which node kind holds a markup-significant string (for the signature): the first in comment > cdata > attr > text."""
    kinds = set()
    if _has(spec_nodes, "rtag"):
        return "renderer-slot"
    if _has(spec_nodes, "ftag"):
        return "nested-slot"

    def w(n):
        if n[0] in ("comment", "cdata", "text"):
            if set(n[1]) & SIGNIFICANT:
                kinds.add(n[0])
        elif n[0] == "tag":
            for _a, s, _c in n[2]:
                if set(s) & SIGNIFICANT:
                    kinds.add("attr")
            for c in n[3]:
                w(c)
    for n in spec_nodes:
        w(n)
    for k in ("comment", "cdata", "attr", "text"):
        if k in kinds:
            return k
    return "plain"


def _comment_trigger(spec_nodes, html):
    """Name the comment payload feature that matters (signature refinement only)."""
    payloads = []

    def w(n):
        if n[0] == "comment":
            payloads.append(n[1])
        elif n[0] == "tag":
            for c in n[3]:
                w(c)
    for n in spec_nodes:
        w(n)
    if html:
        if any(p.startswith(">") or p.startswith("->") for p in payloads):
            return "starts-with->-or-->"
        if any("--!>" in p for p in payloads):
            return "contains---!>"
        return "other"
    if any("--" in p for p in payloads):
        return "double-hyphen"
    return "other"


def judge(spec_nodes, doc, err):
    """-> (label, [(sig, detail)])"""
    if err is not None:
        return "flatten-error", [("flatten:error:" + err.split(":")[0], {"error": err, "tree": repr(spec_nodes)[:300]})]
    want = model(spec_nodes)
    where = _where(spec_nodes)
    want_leak = model(spec_nodes, leak=True) if where in ("nested-slot", "renderer-slot") else None
    strs = _all_strings(spec_nodes)
    bad = []
    label = "ok:" + where

    def v(parser, kind, extra):
        sig = "flatten:%s:%s:%s" % (parser, where, kind)
        if kind == "fill-leaks-past-closing-tag":      # a flattening fault, the same under every parser: one signature
            sig = "flatten:nested-slot:fill-leaks-past-closing-tag"
            if any(b_[0] == sig for b_ in bad):
                return
        bad.append((sig, dict({"tree": repr(spec_nodes)[:300], "output": doc[:300]}, **extra)))

    # 1. XML
    if not any(XML_ILLEGAL.search(s) for s in strs):
        got = parse_xml(doc)
        if got and got[0] == "error":
            label = "xml-not-wellformed"
            kind = "not-wellformed"
            if where == "comment":
                kind += ":" + _comment_trigger(spec_nodes, False)
            v("xml", kind, {"expat": got[1]})
        else:
            def xml_view(evs):
                wx = []
                for e in merge_cdata(evs):
                    if e[0] == "start":
                        e = ("start", e[1], tuple(sorted((a, re.sub("[\t\n]", " ", s)) for a, s in e[2])))
                    wx.append(e)
                return wx
            wx = xml_view(want)
            if got != wx:
                label = "xml-structure-differs"
                k, a, b = _first_diff(wx, got)
                kind = "structure-differs"
                if want_leak is not None and got == xml_view(want_leak):
                    kind = "fill-leaks-past-closing-tag"
                v("xml", kind, {"event": k, "expected": repr(a), "parsed": repr(b)})
    # 2. / 3. HTML
    if not _has(spec_nodes, "cdata"):
        wh = merge_cdata(want)
        got = parse_html5(doc)
        if got != wh:
            label = "html5-structure-differs"
            k, a, b = _first_diff(wh, got)
            kind = "structure-differs"
            if where == "comment":
                kind += ":" + _comment_trigger(spec_nodes, True)
            if want_leak is not None and got == merge_cdata(want_leak):
                kind = "fill-leaks-past-closing-tag"
            v("html5", kind, {"event": k, "expected": repr(a), "parsed": repr(b)})
        if not _has(spec_nodes, "comment"):
            got = parse_htmlparser(doc)
            if got != wh:
                label = "htmlparser-structure-differs"
                k, a, b = _first_diff(wh, got)
                kind = "structure-differs"
                if want_leak is not None and got == merge_cdata(want_leak):
                    kind = "fill-leaks-past-closing-tag"
                v("htmlparser", kind, {"event": k, "expected": repr(a), "parsed": repr(b)})
    return label, bad


# --------------------------------------------------------------------------- enumeration

def cases(tier):
    """Yield (case id, builder args) lazily: ('one', shape index, string, carrier) / ('two', shape index, s1, s2)."""
    s2 = strings(2)
    s1 = strings(1)
    s3 = strings(3) if tier == "thorough" else None
    for si, (name, ctx, f) in enumerate(shapes_one()):
        if ctx == "text":
            carriers = CARRIERS_TEXT
        elif ctx == "attr":
            carriers = CARRIERS_ATTR
        else:
            carriers = ["str", "bytes"]
        for c in carriers:
            pool = s2
            if s3 is not None and ctx in ("comment", "cdata") and c == "str" and name in ("comment", "cdata", "comment-then-div"):
                pool = s3
            for s in pool:
                yield ("one", si, s, c)
    for si, (name, f) in enumerate(shapes_two()):
        first = s2 if tier == "thorough" else s1
        for a in first:
            for b in s1:
                yield ("two", si, a, b)
    thirds = ["c", "<", '"', "-->"]
    for name in shapes_slots():
        for ci in range(len(thirds)):
            for a in s1:
                for b in s1:
                    yield ("slots", "%s:%d" % (name, ci), a, b)
    for name in shapes_render():
        for m in RENDER_MODES:
            for ci in range(2):
                for a in s1:
                    for b in s1:
                        yield ("render", "%s:%s:%d" % (name, m, ci), a, b)
    for n in (60, 38, 34, 233):
        yield ("charref", n, "", "")


def build_case(case):
    kind = case[0]
    if kind == "one":
        return shapes_one()[case[1]][2](case[2], case[3])
    if kind == "two":
        return shapes_two()[case[1]][1](case[2], case[3])
    if kind == "render":
        name, m, ci = case[1].split(":")
        return shapes_render()[name](m, case[2], case[3], ["c", "<"][int(ci)])
    if kind == "slots":
        name, ci = case[1].rsplit(":", 1)
        return shapes_slots()[name](case[2], case[3], ["c", "<", '"', "-->"][int(ci)])
    return [("tag", "div", [("t", "x", "str")], [("charref", case[1]), ("text", "<", "str")])]


NSHARDS = 32


def shards(tier, seed):
    return [[k, NSHARDS] for k in range(NSHARDS)]


def run_case(case):
    spec = build_case(case)
    doc, err = flatten_spec(spec)
    return judge(spec, doc, err)


def run_shard(shard, tier, seed):
    k, n = shard
    st = Stats()
    for idx, case in enumerate(cases(tier)):
        if idx % n != k:
            continue
        label, bad = run_case(case)
        st.evaluations += 1
        st.outcome(label)
        if set(case[2] + str(case[3])) & SIGNIFICANT or (case[0] in ("slots", "render") and case[2] != case[3]):
            st.nt(case)
        if st.evaluations % 1201 == 11:
            st.sample({"case": list(case), "outcome": label}, 2)
        for sig, detail in bad:
            st.violation(sig, detail, {"case": list(case)})
    return st


def replay(w):
    return run_case(tuple(w["case"]))[1]
