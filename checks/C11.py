"""C11 Cooperator / CooperativeTask: explicit-state search over real Cooperators driven by a manual scheduler and a
work-unit-count termination predicate; the iterators' behaviour is itself enumerated per next() call."""
import itertools

from mc.bfs import bfs
from mc.runner import Stats

ID = "C11"
LEVEL = "model_checking"
LEVEL_TEXT = ("explicit-state search over the real Cooperator/CooperativeTask objects with canonical-state merging; every transition "
              "is executed on the implementation and compared with a per-task reference; the thorough tier runs to closure "
              "(no unexplored reachable state for <= 3 tasks under the stated caps), the quick tier to depth 6")
LEVEL_NOTE = ("canonicalisation reads private attributes (_tasks order, _metarator position, _pauseCount) and assumes states that agree "
              "on them and on the harness-visible task states have equal futures; Deferred is trusted")
TECHNIQUE = "explicit-state BFS over real objects, lock-step task-state reference, most-general (nondeterministic) iterators"
RULE = ("BFS over histories of {scheduler tick, pause(i), resume(i), stop(i), whenDone(i), fire the Deferred task i waits on "
        "ok / failed, Cooperator.stop(), Cooperator.start() again once every task of the stopped cooperator has finished, add a task by cooperate()/coiterate()} on a real Cooperator(scheduler=manual, "
        "terminationPredicateFactory=k work units) holding <= 3 tasks; what each iterator does on each next() call "
        "{yield value, yield unfired Deferred, yield already-fired Deferred, yield already-failed Deferred, StopIteration, raise; "
        "yield a fired Deferred whose chain is suspended on an unfired inner Deferred, yield a Deferred fired while pause()d by "
        "its owner (both complete later, ok or failed; quick: k=1 only); "
        "for k=1 also: pause() own task then yield, stop() own task then yield, stop() own task then StopIteration} "
        "is part of the tick event, so every iterator script up to the depth is covered. After every transition the real "
        "objects are compared with a per-task reference (runnable / user-paused n times / waiting / finished(reason)). "
        "non-trivial = distinct canonical states in which some task is paused, waiting, finished or the cooperator is stopped")
BOUNDS = {"quick": "depth 6 for k=1 (11 behaviours per next()), depth 5 for k=2 (6 behaviours); 1..3 initial tasks (each cooperate or coiterate), <= 3 tasks in total",
          "thorough": "k=1 (9 behaviours) and k=2 (6 behaviours): to closure, i.e. every reachable canonical state of a Cooperator with "
                      "<= 3 tasks (cooperate or coiterate, added at any time), <= 2 nested harness pauses and <= 2 whenDone() per task "
                      "(the run reports exhaustive=False if a closure shard stops at the depth cap instead); k=1 with all 11 "
                      "behaviours (adds the suspended / owner-paused fired Deferreds) to depth 7; k=3 (4 behaviours) to depth 6"}
ASSUMPTIONS = [
    "operations are issued between scheduler ticks / Deferred firings, plus (k=1 only) pause()/stop() of its own task from "
    "inside an iterator's next(); no operations from inside whenDone callbacks; resume() is only issued to undo a pause() "
    "issued by the harness or by the iterator itself",
    "completion Deferreds must have fired by the time the operation that finishes the task returns (nothing else could fire "
    "them later: the scheduler is manual)",
    "starvation: while only ticks happen and the set of runnable tasks (R of them) does not change, no runnable task sees more "
    "than 2(R-1) consecutive work units given to others, and a tick is scheduled whenever some task is runnable",
    "Cooperator.stop(): tasks that are paused or waiting at that moment may complete (SchedulerStopped, or the failure of the "
    "awaited Deferred) either at once or when they are resumed; runnable tasks must complete at once with SchedulerStopped; "
    "which exception pause()/stop() raise on a task finished by Cooperator.stop() is not constrained (no TaskFinished subtype "
    "matches)",
    "canonical state: per task (kind, user pauses, waiting, finish reason, completion Deferreds and their firing counts, real "
    "_pauseCount / _completionState class), order of Cooperator._tasks, remaining part of Cooperator._metarator, pending "
    "scheduler calls, starvation counters; private attributes are read for canonicalisation only",
]
MIN = {"quick": {"states": 233000, "nontrivial": 229000, "outcomes": 7},
       "thorough": {"states": 1200000, "nontrivial": 1200000, "outcomes": 7, "shards_searched_to_closure": 28}}

BEH6 = ("V", "D", "S", "R", "Ds", "Df")
# Dc: yields a Deferred that has already fired but whose chain is suspended on an unfired inner Deferred (called, paused by
#     chaining); Dp: yields a Deferred that was pause()d by its owner and then fired (called, result not a Failure, chain not run).
#     Both are "not completed": the task waits until the inner Deferred fires / the owner unpauses, with success or failure.
BEH8 = BEH6 + ("Dc", "Dp")
BEH9 = BEH6 + ("P", "X", "XS")     # the iterator pauses / stops its own task from inside next(), then yields / finishes
BEH11 = BEH9 + ("Dc", "Dp")
BEH4 = ("V", "D", "S", "R")
CLOSURE = 60      # deeper than the deepest reachable canonical state (18 measured): the search runs until no new state appears
TIERS = {"quick": [(1, 6, BEH11), (2, 5, BEH6)],
         "thorough": [(1, CLOSURE, BEH9), (1, 7, BEH11), (2, CLOSURE, BEH6), (3, 6, BEH4)]}
MAXTASKS = 3
REASON_EXC = {"done": "TaskDone", "failed": "TaskFailed", "stopped": "TaskStopped", "schedstopped": "SchedulerStopped"}


class Boom(Exception):
    pass


_quiet = False


def quiet():
    global _quiet
    if not _quiet:
        _quiet = True
        from twisted.logger import globalLogBeginner
        globalLogBeginner.beginLoggingTo([lambda e: None], redirectStandardIO=False, discardBuffer=True)


class Call:
    def __init__(self, st, f):
        self.st, self.f = st, f

    def cancel(self):
        self.st.pending.remove(self)


class It:
    def __init__(self, st, i):
        self.st, self.i = st, i

    def __iter__(self):
        return self

    def __next__(self):
        return self.st.on_next(self.i)


class T:
    """Harness record + reference state of one task."""

    def __init__(self, kind, i):
        self.kind, self.i = kind, i
        self.it = None
        self.task = None
        self.wd = []          # [Deferred, [results]]
        self.u = 0            # pauses issued by the harness and not yet resumed
        self.waiting = None   # fire(ok, exc) thunk completing the not-yet-completed Deferred the iterator yielded
        self.wkind = None     # "D" / "Dc" / "Dp"
        self.fin = None       # (reason, payload)
        self.limbo = False    # paused/waiting when the cooperator was stopped
        self.fin_by = None

    def runnable(self):
        return self.fin is None and not self.u and self.waiting is None and not self.limbo


class St:
    def __init__(self, k, kinds):
        from twisted.internet.task import Cooperator
        quiet()
        self.k = k
        self.pending = []
        self.tasks = []
        self.bad = []
        self.behq = []
        self.window = []
        self.coop_stopped = False
        self.last = "init"
        self.units_in_tick = 0
        self.reent = ""

        def factory():
            n = [0]

            def term():
                n[0] += 1
                return n[0] >= self.k
            return term
        self.coop = Cooperator(terminationPredicateFactory=factory, scheduler=lambda f: self._sched(f))
        for kind in kinds:
            self.add(kind)

    def _sched(self, f):
        c = Call(self, f)
        self.pending.append(c)
        return c

    def flag(self, sig, detail):
        if not any(s == sig for s, _ in self.bad):
            self.bad.append((sig, detail))

    def real(self, what, f, *a):
        try:
            return f(*a)
        except Exception as e:
            self.flag("Cooperator:%s-raised-%s%s" % (what, type(e).__name__, self.reent), "%s: %r after %s" % (what, e, self.last))
            return None

    # -- reference updates ----------------------------------------------------
    def finish(self, t, reason, payload=None):
        t.fin = (reason, payload)
        t.fin_by = self.last

    def add(self, kind):
        i = len(self.tasks)
        t = T(kind, i)
        t.it = It(self, i)
        self.tasks.append(t)
        if kind == "coop":
            t.task = self.real("cooperate", self.coop.cooperate, t.it)
            if t.task is not None:
                self.new_wd(t, t.task.whenDone())
        else:
            d = self.real("coiterate", self.coop.coiterate, t.it)
            if d is not None:
                self.new_wd(t, d)
        if self.coop_stopped:
            self.finish(t, "schedstopped")

    def new_wd(self, t, d):
        rec = [d, []]
        t.wd.append(rec)

        def both(r, rec=rec):
            rec[1].append(r)
        d.addBoth(both)

    def on_next(self, i):
        from twisted.internet import defer
        t = self.tasks[i]
        if t.fin is not None:
            self.flag("Cooperator:task-advanced-while-" + ("stopped" if t.fin[0] in ("stopped", "schedstopped") else "finished"),
                      "next() on task %d which finished (%s) after %s" % (i, t.fin[0], self.last))
        elif t.u:
            self.flag("Cooperator:task-advanced-while-paused", "next() on task %d, paused %d times, after %s" % (i, t.u, self.last))
        elif t.waiting is not None:
            self.flag("Cooperator:task-advanced-while-waiting-on-deferred-%s" % t.wkind, "next() on task %d after %s" % (i, self.last))
        elif t.limbo:
            self.flag("Cooperator:task-advanced-after-cooperator-stop", "next() on task %d after %s" % (i, self.last))
        self.window.append(i)
        self.units_in_tick += 1
        b = self.behq.pop(0) if self.behq else "V"
        if t.task is None:
            b = {"P": "V", "X": "V", "XS": "S"}.get(b, b)    # a coiterate()d iterator has no task handle
        if b == "V" or t.fin is not None:
            return i
        self.window = []
        if b == "P":
            t.u += 1
            self.real("pause-from-inside-next", t.task.pause)
            return i
        if b in ("X", "XS"):
            self.finish(t, "stopped")
            self.reent = "-after-iterator-stopped-own-task-and-" + ("yielded" if b == "X" else "finished")
            self.real("stop-from-inside-next", t.task.stop)
            if b == "X":
                return i
            raise StopIteration()
        if b in ("D", "Dc", "Dp"):
            from twisted.python.failure import Failure
            t.wkind = b
            if b == "D":
                d = defer.Deferred()
                t.waiting = lambda ok, exc, d=d: d.callback(None) if ok else d.errback(exc)
                return d
            if b == "Dc":
                inner, d = defer.Deferred(), defer.Deferred()
                d.addCallback(lambda _, inner=inner: inner)
                d.callback(None)            # fired; chain suspended until inner fires
                t.waiting = lambda ok, exc, inner=inner: inner.callback(None) if ok else inner.errback(exc)
                return d
            d, box = defer.Deferred(), [None]
            d.addCallback(lambda _, box=box: box[0])
            d.pause()
            d.callback(None)                # fired while paused by its owner: no callback has run yet

            def fire(ok, exc, d=d, box=box):
                box[0] = None if ok else Failure(exc)
                d.unpause()
            t.waiting = fire
            return d
        if b == "Ds":
            return defer.succeed(None)
        exc = Boom(b)
        if b == "S":
            self.finish(t, "done", t.it)
            raise StopIteration()
        self.finish(t, "failed", exc)
        if b == "Df":
            return defer.fail(exc)
        raise exc

    # -- events ---------------------------------------------------------------
    def apply(self, ev):
        op = ev[0]
        self.last = op if op != "fire" else ("fire-ok" if ev[2] else "fire-fail")
        self.reent = ""
        if op != "tick":
            self.window = []
        if op == "tick":
            c = self.pending.pop(ev[1])
            self.behq = list(ev[2])
            self.units_in_tick = 0
            had_runnable = any(t.runnable() for t in self.tasks)
            self.real("tick", c.f)
            self.behq = []
            if had_runnable and not self.units_in_tick:
                self.flag("Cooperator:tick-advanced-nothing-with-runnable-task", "after %s" % self.last)
        elif op == "add":
            self.add(ev[1])
        elif op == "coopstart":
            self.coop_stopped = False
            self.real("Cooperator.start", self.coop.start)
        elif op == "coopstop":
            self.coop_stopped = True
            nrun = sum(1 for x in self.tasks if x.runnable())
            self.stop_nrun = nrun
            for x in self.tasks:
                if x.fin is None:
                    if x.runnable():
                        self.finish(x, "schedstopped")
                    else:
                        x.limbo = True
            self.real("Cooperator.stop", self.coop.stop)
        else:
            t = self.tasks[ev[1]]
            if op == "pause":
                t.u += 1
                self.real("pause-on-unfinished-task", t.task.pause)
            elif op == "resume":
                t.u -= 1
                self.real("resume-of-paused-task", t.task.resume)
            elif op == "stop":
                self.finish(t, "stopped")
                t.limbo = False
                self.real("stop-on-unfinished-task", t.task.stop)
            elif op == "whenDone":
                d = self.real("whenDone", t.task.whenDone)
                if d is not None:
                    self.new_wd(t, d)
            elif op == "fire":
                fire, t.waiting = t.waiting, None
                wk, t.wkind = t.wkind, None
                if ev[2]:
                    self.real("firing-awaited-deferred-%s" % wk, fire, True, None)
                else:
                    exc = Boom("later")
                    if t.fin is None:
                        self.finish(t, "failed", exc)
                        t.limbo = False
                    self.real("failing-awaited-deferred-%s" % wk, fire, False, exc)
        self.post()

    def enabled(self):
        evs = []
        for j in range(len(self.pending)):
            for behs in itertools.product(self.behs, repeat=self.k):
                evs.append(("tick", j, behs))
        for t in self.tasks:
            if t.waiting is not None:
                evs.append(("fire", t.i, True))
                evs.append(("fire", t.i, False))
            if t.task is not None:
                if t.fin is None:
                    if t.u < 2:
                        evs.append(("pause", t.i))
                    evs.append(("stop", t.i))
                    if len(t.wd) < 2:
                        evs.append(("whenDone", t.i))
                if t.u > 0:
                    evs.append(("resume", t.i))
        if not self.coop_stopped:
            evs.append(("coopstop",))
        elif all(t.fin is not None for t in self.tasks):
            # restart (round-10 miss C11-m): only once every task of the stopped cooperator has finished, so that no
            # task left paused / waiting by stop() (whose fate the statement does not fix) is carried across
            evs.append(("coopstart",))
        if len(self.tasks) < MAXTASKS:
            evs.append(("add", "coop"))
            evs.append(("add", "coit"))
        return evs

    # -- oracle ---------------------------------------------------------------
    def classify(self, r, t):
        from twisted.python.failure import Failure
        from twisted.internet.task import TaskStopped, SchedulerStopped
        if r is t.it:
            return "done", None
        if isinstance(r, Failure):
            if r.check(TaskStopped):
                return "stopped", None
            if r.check(SchedulerStopped):
                return "schedstopped", None
            return "failed", r.value
        return "other:%s" % type(r).__name__, None

    def post(self):
        from twisted.internet import task as ttask
        if self.bad:
            return      # one signature per violating state: the first failure; the state is not expanded further
        # tasks that were paused / waiting when the cooperator was stopped
        for t in self.tasks:
            if t.limbo and t.fin is None:
                fired = [rec for rec in t.wd if rec[1]]
                if fired:
                    t.limbo = False
                    self.finish(t, "schedstopped")
                elif not t.u and t.waiting is None:
                    self.flag("Cooperator.stop:task-resumed-after-stop-never-completes", "task %d after %s" % (t.i, self.last))
        for t in self.tasks:
            if t.fin is None:
                if any(rec[1] for rec in t.wd):
                    self.flag("CooperativeTask:completion-deferred-fired-for-unfinished-task",
                              "task %d (%s) after %s: %r" % (t.i, t.kind, self.last, [rec[1] for rec in t.wd]))
                continue
            reason, payload = t.fin
            bad = None
            for n, rec in enumerate(t.wd):
                if len(rec[1]) != 1:
                    if reason == "schedstopped" and t.fin_by == "coopstop":
                        bad = ("Cooperator.stop:completion-never-fired-for-runnable-task-%s" % (
                            "when-several-are-runnable" if self.stop_nrun > 1 else "single"),
                            "task %d: completion Deferred fired %d times after Cooperator.stop()" % (t.i, len(rec[1])))
                    else:
                        bad = ("CooperativeTask:completion-deferred-fired-%d-times-after-%s-by-%s" % (len(rec[1]), reason, t.fin_by),
                               "task %d (%s)" % (t.i, t.kind))
                    break
                got, val = self.classify(rec[1][0], t)
                if got != reason or (reason == "failed" and val is not payload):
                    bad = ("CooperativeTask:completion-deferred-result-%s-for-%s-task" % (got, reason),
                           "task %d finished by %s, Deferred #%d got %r" % (t.i, t.fin_by, n, rec[1][0]))
                    break
            if bad is None and t.task is not None:
                # operations on finished tasks (none of them changes anything on a finished task)
                res = []
                try:
                    t.task.whenDone().addBoth(res.append)
                except Exception as e:
                    res = [e]
                got, val = self.classify(res[0], t) if res else ("unfired", None)
                if got != reason or (reason == "failed" and val is not payload):
                    bad = ("CooperativeTask:whenDone-on-%s-task-reports-%s-after-%s" % (reason, got, self.last),
                           "task %d finished by %s; a new whenDone() gave %r" % (t.i, t.fin_by, res))
                for opname in ("pause", "stop"):
                    if bad is not None:
                        break
                    try:
                        getattr(t.task, opname)()
                        raised = "nothing"
                    except ttask.SchedulerError as e:
                        raised = type(e).__name__
                    except Exception as e:
                        raised = type(e).__name__
                    want = REASON_EXC[reason]
                    if reason == "schedstopped":
                        ok = raised in ("SchedulerStopped", "TaskStopped", "TaskFinished", "TaskFailed", "TaskDone")
                    else:
                        ok = raised == want
                    if not ok:
                        bad = ("CooperativeTask:%s-on-%s-task-raises-%s-after-%s" % (opname, reason, raised, self.last),
                               "task %d finished by %s; %s() raised %s, expected %s" % (t.i, t.fin_by, opname, raised, want))
            if bad is not None:
                self.flag(*bad)
        run = [t for t in self.tasks if t.runnable()]
        if run and not self.coop_stopped:
            if not self.pending:
                self.flag("Cooperator:no-tick-scheduled-although-a-task-is-runnable",
                          "runnable %r after %s" % ([t.i for t in run], self.last))
            lim = 2 * (len(run) - 1)
            for t in run:
                n = 0
                for i in reversed(self.window):
                    if i == t.i:
                        break
                    n += 1
                if n > lim:
                    self.flag("Cooperator:runnable-task-starved",
                              "task %d runnable, last %d work units went to others: %r (runnable %r)" % (
                                  t.i, n, self.window, [x.i for x in run]))

    def waits(self):
        run = [t for t in self.tasks if t.runnable()]
        out = []
        for t in run:
            n = 0
            for i in reversed(self.window):
                if i == t.i:
                    break
                n += 1
            out.append(n)
        return tuple(out)

    def canon(self):
        coop = self.coop
        try:
            byit = {}
            order = []
            real = []
            rtasks = list(coop._tasks)
            red = coop._metarator.__reduce__()
            lst = list(red[1][0]) if red[1] else []
            rest = lst[red[2]:] if len(red) > 2 else []
            allt = {id(x): x for x in rtasks + rest}
            for t in self.tasks:
                if t.task is not None:
                    allt[id(t.task)] = t.task
            for x in allt.values():
                byit[id(x._iterator)] = x
            idx = {id(t.it): t.i for t in self.tasks}
            order = tuple(idx.get(id(x._iterator), -1) for x in rtasks)
            meta = (tuple(idx.get(id(x._iterator), -1) for x in rest), len(red) > 2 and red[1][0] is coop._tasks)
            for t in self.tasks:
                x = t.task or byit.get(id(t.it))
                real.append((x._pauseCount, type(x._completionState).__name__, len(x._deferreds)) if x is not None else None)
            priv = (order, meta, tuple(real), coop._delayedCall is None, coop._stopped)
        except Exception:
            priv = ("opaque", id(self))
        return (tuple((t.kind, t.u, t.wkind, t.fin and t.fin[0], t.limbo,
                       tuple(len(rec[1]) for rec in t.wd)) for t in self.tasks),
                self.coop_stopped, len(self.pending), self.waits(), priv)


def shards(tier, seed):
    out = []
    for ci, (k, depth, behs) in enumerate(TIERS[tier]):
        for n in (3, 2, 1):
            for kinds in itertools.product(("coop", "coit"), repeat=n):
                out.append([ci, list(kinds)])
    return out


def initial(tier, shard):
    k, depth, behs = TIERS[tier][shard[0]]

    def make():
        st = St(k, shard[1])
        st.behs = behs
        st.post()
        return st
    return make, depth


def run_shard(shard, tier, seed):
    make, depth = initial(tier, shard)
    stats = Stats()

    def on_state(st, hist):
        kinds = set()
        for t in st.tasks:
            if t.fin:
                kinds.add("fin-" + t.fin[0])
            if t.u:
                kinds.add("paused")
            if t.waiting is not None:
                kinds.add("waiting")
            if t.limbo:
                kinds.add("limbo")
        if st.coop_stopped:
            kinds.add("cooperator-stopped")
        if max(st.waits() or (0,)) >= 2:
            kinds.add("waited>=2")
        for x in kinds:
            stats.outcome(x)
        if kinds:
            stats.nt((tuple(shard[1]), shard[0], st.canon()))

    res = bfs(make, lambda st, ev: st.apply(ev), lambda st: st.enabled(), lambda st: st.canon(),
              lambda st, hist: list(st.bad), depth, on_state=on_state,
              max_violations=10 ** 6)   # known findings must not use up the violation slots of other signatures
    stats.add_bfs(res, {"shard": shard, "tier": tier})
    stats.counters["deepest_state_max"] = res.max_depth
    if res.max_depth < depth:
        stats.count("shards_searched_to_closure")
    elif depth == CLOSURE:
        stats.exhaustive = False
        stats.notes.append("C11: shard %r hit the depth cap %d before closure" % (shard, depth))
    return stats


def replay(w):
    make, depth = initial(w.get("tier", "quick"), w["shard"])
    st = make()
    for ev in w["history"]:
        ev = tuple(tuple(x) if isinstance(x, list) else x for x in ev)
        st.apply(ev)
    return list(st.bad)
