"""C49 thread pools.
Part E1: explicit-state BFS over the real Team with harness-owned in-memory workers.
Part E2: the real _pool.pool() construction (LockWorker + ThreadWorker) and ThreadPool under the
controlled thread scheduler with cooperative Lock/Queue/Thread injected (see _c49_sched.py)."""
from mc.bfs import bfs
from mc.runner import Stats

ID = "C49"
LEVEL = "model_checking"
RULE = ("E1: BFS over histories of do(ok|raise)/grow(1)/shrink(1|all)/limit change/quit/one coordinator step/one step of worker k "
        "on the real Team whose coordinator and workers are harness-owned queue workers (every transition runs the real code); "
        "invariants after every transition, completion oracle in every quiescent state. E2: every schedule (preemption bound) of "
        "2 submitter threads against the real LockWorker/ThreadWorker/ThreadPool code with cooperative Lock/Queue/Thread. "
        "Two further E2 configurations make the first attempt to start a pool thread fail (the submitter sees the RuntimeError); "
        "the same thread then submits a second task, which must be handled as usual. "
        "non-trivial = distinct canonical states in which a task was backlogged, a shrink was deferred or quit was requested")
BOUNDS = {"quick": "E1 depth 10, <= 3 tasks, limit in {0,1,2}; E2 preemption bound 2", "thorough": "E1 depth 12, <= 4 tasks; E2 preemption bound 3 (2 for the two failing-thread-start configurations)"}
ASSUMPTIONS = ["E1 serialises coordinator work exactly as an IExclusiveWorker must; which thread performs it is explored in E2",
               "canonical state = limit, quit flag, labelled coordinator queue, per-worker queue/quit flag, per-task accepted/run counts, Team.statistics() and deferred-shrink counter"]
MIN = {"quick": {"states": 1000000, "nontrivial": 200000, "outcomes": 6}}
ENGINE = "mc.bfs"
TECHNIQUE = "explicit-state BFS over the real Team (in-memory workers) + exhaustive schedule enumeration of the real thread-backed pool under a controlled scheduler"


class TaskAbort(BaseException):
    pass


class HWorker:
    """Harness-owned IWorker: queues work; the explorer decides when one item is performed."""

    def __init__(self, name, h=0):
        self.name, self.queue, self.labels, self.hasQuit, self._h = name, [], [], False, h

    def __hash__(self):
        # Team keeps idle workers in a set; a fixed hash makes set.pop() order reproducible.
        # Both orders are explored (config 'order').
        return self._h

    def do(self, work):
        from twisted._threads import AlreadyQuit
        if self.hasQuit:
            raise AlreadyQuit()
        self.queue.append(work)
        self.labels.append(self.st.cur_label)

    def quit(self):
        from twisted._threads import AlreadyQuit
        if self.hasQuit:
            raise AlreadyQuit()
        self.hasQuit = True


class St:
    def __init__(self, limit, maxtasks, order=0):
        from twisted._threads import Team
        self.limit = limit
        self.order = order
        self.maxtasks = maxtasks
        self.coord = HWorker("coord")
        self.coord.st = self
        self.workers = []
        self.tasks = []         # dict(kind, accepted, runs, avail_at)
        self.logged = 0
        self.avail = 0          # availability events: worker created / task completed
        self.quit = False
        self.refused_after_quit = 0
        self.bad = []
        self.flags = set()
        self.cur_label = "?"
        self.grows = self.shrinks = self.limchanges = 0
        self.team = Team(self.coord, self._create, self._log)

    def _log(self):
        self.logged += 1

    def _create(self):
        stats = self.team.statistics()
        if stats.busyWorkerCount + stats.idleWorkerCount >= self.limit:
            self.flags.add("creation-refused")
            return None
        live = sum(1 for w in self.workers if not w.hasQuit)
        if live >= self.limit:
            self.bad.append(("worker-created-at-or-above-limit", "%d live workers, limit %d" % (live, self.limit)))
        w = HWorker("w%d" % len(self.workers), len(self.workers) if self.order == 0 else 7 - len(self.workers))
        w.st = self
        self.workers.append(w)
        self.avail += 1
        return w


def _guard(st, what, fn):
    from twisted._threads import AlreadyQuit
    try:
        fn()
        return None
    except AlreadyQuit:
        return "AlreadyQuit"


def apply(st, ev):
    op = ev[0]
    st.cur_label = ev
    if op == "do":
        rec = {"kind": ev[1], "accepted": False, "runs": 0, "avail_at": None}
        st.tasks.append(rec)

        def task(rec=rec):
            rec["runs"] += 1
            if rec["runs"] > 1:
                st.bad.append(("task-ran-twice", "task ran %d times" % rec["runs"]))
            if rec["kind"] == "raise":
                # alternate between an ordinary exception and one deriving from BaseException only
                raise (RuntimeError if len(st.tasks) % 2 else TaskAbort)("task failure")
        st.cur_label = ("do", len(st.tasks) - 1)
        r = _guard(st, "do", lambda: st.team.do(task))
        rec["accepted"] = r is None
        if st.quit:
            st.refused_after_quit += 1
            if r is None:
                st.bad.append(("submission-accepted-after-quit", "Team.do() did not raise AlreadyQuit after quit()"))
        elif r is not None:
            st.bad.append(("submission-refused-before-quit", "Team.do() raised AlreadyQuit before quit()"))
    elif op == "grow":
        st.grows += 1
        r = _guard(st, "grow", lambda: st.team.grow(ev[1]))
        if (r is not None) != st.quit:
            st.bad.append(("grow-refusal-mismatch", "grow raised=%r quit=%r" % (r, st.quit)))
    elif op == "shrink":
        st.shrinks += 1
        r = _guard(st, "shrink", lambda: st.team.shrink(ev[1]))
        if (r is not None) != st.quit:
            st.bad.append(("shrink-refusal-mismatch", "shrink raised=%r quit=%r" % (r, st.quit)))
    elif op == "limit":
        st.limchanges += 1
        st.limit = ev[1]
    elif op == "quit":
        st.team.quit()
        st.quit = True
        st.flags.add("quit")
    elif op == "coord":
        work = st.coord.queue.pop(0)
        lab = st.coord.labels.pop(0)
        st.cur_label = ("from", lab)
        try:
            work()
        except Exception as e:
            st.bad.append(("exception-in-coordinator-step:%s" % type(e).__name__, repr(e)))
        if isinstance(lab, tuple) and lab[0] == "do":
            # availability events that count for this task are those after it was coordinated
            st.tasks[lab[1]]["avail_at"] = st.avail
    elif op == "work":
        w = st.workers[ev[1]]
        work = w.queue.pop(0)
        lab = w.labels.pop(0)
        st.cur_label = ("recycle", ev[1])
        before = sum(t["runs"] for t in st.tasks)
        try:
            work()
        except Exception as e:
            st.bad.append(("exception-in-worker-step:%s" % type(e).__name__, repr(e)))
        if sum(t["runs"] for t in st.tasks) != before + 1:
            st.bad.append(("worker-step-ran-no-task", "a unit of work given to a worker ran %d tasks" % (sum(t["runs"] for t in st.tasks) - before)))
        st.avail += 1
    st.cur_label = "?"


def enabled(st):
    evs = []
    if st.coord.queue and not (st.coord.hasQuit and False):
        evs.append(("coord",))
    for k, w in enumerate(st.workers):
        if w.queue:
            evs.append(("work", k))
    if len(st.tasks) < st.maxtasks:
        evs.append(("do", "raise" if len(st.tasks) == 1 else "ok"))
    if not st.quit:
        if st.grows < 2:
            evs.append(("grow", 1))
        if st.shrinks < 2:
            evs.append(("shrink", 1))
            evs.append(("shrink", None))
        evs.append(("quit",))
    elif st.grows < 3 and st.refused_after_quit < 1:
        evs.append(("grow", 1))
    if st.limchanges < 1:
        for n in (0, 1, 2):
            if n != st.limit:
                evs.append(("limit", n))
    return evs


def quiescent(st):
    return not st.coord.queue and not any(w.queue for w in st.workers)


def invariant(st, hist):
    out = list(st.bad)
    for w in st.workers:
        if len(w.queue) > 1:
            out.append(("worker-given-two-tasks-at-once", "%s has %d queued units of work" % (w.name, len(w.queue))))
    ran_raise = sum(t["runs"] for t in st.tasks if t["kind"] == "raise")
    if st.logged != ran_raise:
        out.append(("logException-count", "%d logged, %d raising tasks ran" % (st.logged, ran_raise)))
    for i, t in enumerate(st.tasks):
        if not t["accepted"] and t["runs"]:
            out.append(("refused-task-ran", "task %d was refused but ran" % i))
    if quiescent(st):
        for i, t in enumerate(st.tasks):
            if t["accepted"] and t["runs"] == 0 and t["avail_at"] is not None and st.avail > t["avail_at"]:
                out.append(("accepted-task-never-ran", "task %d still not run in a quiescent state although a worker became available after its submission" % i))
        if st.quit:
            live = [w.name for w in st.workers if not w.hasQuit]
            if live:
                out.append(("worker-not-stopped-after-quit", "quiescent after quit() but workers %s were never quit" % live))
            if not st.coord.hasQuit:
                out.append(("coordinator-not-stopped-after-quit", "quiescent after quit() but the coordinator was never quit"))
    return out


def canon(st):
    t = st.team
    stats = t.statistics()
    return (st.limit, st.quit, tuple(map(str, st.coord.labels)), st.coord.hasQuit,
            tuple((tuple(map(str, w.labels)), w.hasQuit) for w in st.workers),
            tuple((x["kind"], x["accepted"], x["runs"], x["avail_at"] is not None and st.avail > x["avail_at"]) for x in st.tasks),
            (stats.idleWorkerCount, stats.busyWorkerCount, stats.backloggedWorkCount),
            getattr(t, "_toShrink", None), getattr(t, "_shouldQuitCoordinator", None),
            st.grows, st.shrinks, st.limchanges, st.refused_after_quit, st.logged)


def shards(tier, seed):
    from checks import _c49_sched
    out = [("E1", lim, first, order) for lim in (0, 1, 2) for first in range(6) for order in (0, 1)]
    out += [("E2",) + tuple(x) for x in _c49_sched.shards(tier)]
    return out


def run_shard(shard, tier, seed):
    if shard[0] == "E2":
        from checks import _c49_sched
        return _c49_sched.run_shard(shard[1:], tier)
    _, lim, first, order = shard
    depth = 10 if tier == "quick" else 12
    maxtasks = 3 if tier == "quick" else 4
    stats = Stats()

    def initial():
        return St(lim, maxtasks, order)
    ev0 = enabled(initial())
    if first >= len(ev0):
        return stats
    # shard on the first event: BFS below a fixed first event
    base = [ev0[i] for i in range(len(ev0)) if i % 6 == first]
    for e in base:
        def init2(e=e):
            s = initial()
            apply(s, e)
            return s

        def on_state(st, hist):
            s = st.team.statistics()
            if s.backloggedWorkCount or getattr(st.team, "_toShrink", 0) or st.quit:
                stats.nt((lim, canon(st)))
            if s.backloggedWorkCount:
                stats.outcome("backlog")
            if getattr(st.team, "_toShrink", 0):
                stats.outcome("deferred-shrink")
            for f in st.flags:
                stats.outcome(f)
            if st.quit and quiescent(st):
                stats.outcome("quiescent-after-quit")
            if any(t["runs"] for t in st.tasks):
                stats.outcome("task-ran")
            if st.refused_after_quit:
                stats.outcome("refused-after-quit")
        res = bfs(init2, apply, enabled, canon, invariant, depth - 1, on_state=on_state)
        stats.add_bfs(res, {"part": "E1", "limit": lim, "first": list(e), "order": order})
        stats.samples = [{"part": "E1", "limit": lim, "history": [list(e)] + [list(x) for x in h]} for h in res.samples[-1:]]
    return stats


def replay(w):
    if w.get("part") == "E2":
        from checks import _c49_sched
        return _c49_sched.replay(w)
    st = St(w["limit"], 4, w.get("order", 0))
    for ev in [w["first"]] + w["history"]:
        apply(st, tuple(ev))
    return invariant(st, [])
