"""C35 SSH transport: packets arrive intact under every cipher/MAC/compression and segmentation; tampering is detected.

A real SSHTransportBase sender produces the byte stream (version line, KEXINIT,
optional IGNORE packets, NEWKEYS, keyed data packets); a fresh real SSHTransportBase
receiver is fed every segmentation of it.  Both sides are keyed directly with fixed
key material through nextEncryptions/_newKeys() when NEWKEYS passes (no key exchange).
Observation point: the receiver's dispatchMessage() calls and its transport.
"""
import itertools
import warnings

warnings.filterwarnings("ignore")

from mc.net import MemTransport  # noqa: E402
from mc.runner import Stats  # noqa: E402

ID = "C35"
LEVEL = "exploration"
TECHNIQUE = "bounded exhaustive enumeration of configurations x payload sequences x segmentations x single-byte corruptions"
RULE = ("(packets) every offered cipher (7 with this backend) + none x MAC (5 offered + none) x compression (none, zlib), plus 33 asymmetric "
        "configurations (every ordered pair of ciphers with different block sizes, MAC pairs of different digest size, "
        "compression in one direction only): single payloads of "
        "every length 0..2*blocksize+1, one of 70000 bytes, and pairs/triples over {0, pad-min, pad-max, 300 zeros, 300 pseudo-random} bytes, "
        "delivered whole, byte-at-a-time and with every single cut (singles up to blocksize+1) or every cut next to a "
        "block / MAC / packet boundary (pairs); the cut region starts at the NEWKEYS packet so key switch and data may "
        "share a segment; a re-key (second KEXINIT/NEWKEYS, both sides switch via nextEncryptions + _newKeys()) to the same, "
        "a different and a compression-flipped configuration in mid-stream with payloads after it. (handshake) 7 banner variants x 4 IGNORE-payload variants before the version line / NEWKEYS, "
        "whole, bytewise, every 1-cut and every 2-cut through the version line. (tamper) every MAC configuration: every "
        "byte of a 1- and a 2-packet keyed stream XOR {0x01, 0x80}, whole and bytewise, followed by up to 1.1 MiB of "
        "further traffic so that an enlarged length field is satisfied. Oracle: dispatched (type, payload) list equals "
        "the sent list and no disconnect; tampered: disconnect, packets before it delivered, nothing from the altered "
        "packet on. non-trivial = a cut strictly inside a packet or line, or a corrupted byte")
BOUNDS = {
    "quick": "all 96 symmetric + 33 asymmetric configurations; singles 0..2bs+1 (1-cuts up to bs+1), pairs with boundary cuts, triples whole+bytewise; "
             "tamper: every byte x 2 masks of 1- and 2-packet streams, bytewise for the 1-packet stream",
    "thorough": "same with every 1-cut for all singles and pairs, boundary cuts for triples, bytewise tamper on both streams, "
                "2-cuts on singles up to 4 bytes",
}
ASSUMPTIONS = [
    "both transports are keyed with fixed material via SSHCiphers.setKeys and the transport's own NEWKEYS switch-over "
    "(nextEncryptions + _newKeys()), not through a Diffie-Hellman exchange; twisted.python.randbytes.secureRandom is "
    "rebound to a deterministic generator (padding, cookie)",
    "like a TCP transport the harness stops delivering once the receiver called loseConnection()",
    "a corrupted length field can only be noticed after the announced number of bytes has arrived, so the harness keeps "
    "the stream flowing (<= 1.1 MiB, the receiver's own packet limit is 1 MiB) before it demands the disconnect",
    "the observation point is SSHTransportBase.dispatchMessage (public, documented); KEXINIT is recorded, not processed",
]
MIN = {"quick": {"evaluations": 370000, "nontrivial": 346000, "outcomes": 3},
       "thorough": {"evaluations": 2000000, "nontrivial": 2000000, "outcomes": 3}}

MSG_IGNORE, MSG_KEXINIT, MSG_NEWKEYS, MSG_DATA = 2, 20, 21, 94

DIGEST = {b"hmac-sha2-512": 64, b"hmac-sha2-384": 48, b"hmac-sha2-256": 32, b"hmac-sha1": 20, b"hmac-md5": 16, b"none": 0}

BANNERS = [
    (),
    (b"hi\r\n",),                                   # shorter than one cipher block
    (b"welcome to the machine\r\n",),
    (b"line one of two\r\n", b"second line here\r\n"),
    (b"unix newline only\n",),
    (b"\r\n", b"after an empty line\r\n"),
    (b"mentions SSH-2.0 inside\r\n",),
]
PRE = [
    (),
    (b"",),
    (b"abc", b""),
    (b"a\nSSH-1.5-looks like a version line\nb",),
]


def _tw():
    from twisted.conch.ssh import transport
    return transport


def configs():
    t = _tw()
    base = t.SSHTransportBase
    cips = list(base.supportedCiphers) + [b"none"]
    macs = list(base.supportedMACs) + [b"none"]
    comps = list(base.supportedCompressions)
    return [(c, m, z) for c in cips for m in macs for z in comps]


def asymmetric_configs():
    """Different algorithms in the two directions: every ordered pair of ciphers with different block sizes (the MAC pair
    and the one-sided compression rotate along), plus, on one cipher, ordered MAC pairs of different digest size and
    compression in one direction only."""
    t = _tw()
    base = t.SSHTransportBase
    cips = list(base.supportedCiphers) + [b"none"]
    small = [c for c in cips if c in (b"none", b"3des-cbc", b"3des-ctr")]
    big = [c for c in cips if c not in small]
    macpairs = [(b"hmac-md5", b"hmac-sha2-512"), (b"hmac-sha2-512", b"hmac-sha1"), (b"hmac-sha2-256", b"none"),
                (b"none", b"hmac-sha2-384"), (b"hmac-sha1", b"hmac-sha2-256")]
    comppairs = [(b"none", b"zlib"), (b"zlib", b"none"), (b"none", b"none"), (b"zlib", b"zlib")]
    out, i = [], 0
    for a in small:
        for b in big:
            for x, y in ((a, b), (b, a)):
                m, z = macpairs[i % len(macpairs)], comppairs[i % len(comppairs)]
                out.append((x, m[0], z[0], y, m[1], z[1]))
                i += 1
    for m in macpairs + [(b"hmac-sha2-512", b"hmac-md5"), (b"hmac-sha2-384", b"none")]:
        out.append((b"aes128-ctr", m[0], b"none", b"aes128-ctr", m[1], b"none"))
    for z in comppairs[:2]:
        out.append((b"aes256-cbc", b"hmac-sha2-256", z[0], b"aes256-cbc", b"hmac-sha2-256", z[1]))
    return out


def install_random(seed):
    from twisted.python import randbytes
    state = [seed & 0xFF]

    def det(n):
        state[0] = (state[0] * 5 + 3) & 0xFF
        b = state[0]
        return bytes(((b + 29 * i) & 0xFF) for i in range(n))
    randbytes.secureRandom = det


def key_material(seed):
    def blk(tag):
        return bytes(((tag * 31 + i * 7 + seed) & 0xFF) for i in range(64))
    return {"ivA": blk(1), "keyA": blk(2), "macA": blk(3), "ivB": blk(4), "keyB": blk(5), "macB": blk(6)}


def full(cfg):
    """(cipher, MAC, compression) of the observed direction S->R, then of the reverse direction (same when symmetric)."""
    cfg = tuple(cfg)
    return cfg if len(cfg) == 6 else cfg + cfg


def make_ciphers(cfg, role, seed):
    t = _tw()
    cip, mac, _, rcip, rmac, _ = full(cfg)
    k = key_material(seed)
    if role == "S":
        c = t.SSHCiphers(cip, rcip, mac, rmac)
    else:
        c = t.SSHCiphers(rcip, cip, rmac, mac)
    if role == "S":
        c.setKeys(k["ivA"], k["keyA"], k["ivB"], k["keyB"], k["macA"], k["macB"])
    else:
        c.setKeys(k["ivB"], k["keyB"], k["ivA"], k["keyA"], k["macB"], k["macA"])
    return c


def switch_keys(tr, cfg, role, seed):
    """What ssh_NEWKEYS does after a key exchange: adopt nextEncryptions and the negotiated compression."""
    tr.nextEncryptions = make_ciphers(cfg, role, seed)
    f = full(cfg)
    tr.outgoingCompressionType = f[2] if role == "S" else f[5]
    tr.incomingCompressionType = f[5] if role == "S" else f[2]
    tr._newKeys()


_cls = {}


def receiver_class():
    if "R" not in _cls:
        t = _tw()

        class Receiver(t.SSHTransportBase):
            cfg = None
            seed = 0

            def dispatchMessage(self, messageNum, payload):
                self.got.append((messageNum, bytes(payload)))
                if messageNum == MSG_KEXINIT and self.switched:
                    # re-key started by the peer: like ssh_KEXINIT, answer with our own KEXINIT
                    self.sendKexInit()
                if messageNum == MSG_NEWKEYS and self.switched < len(self.cfgs):
                    c = self.cfgs[self.switched]
                    self.switched += 1
                    switch_keys(self, c, "R", self.seed + 50 * (self.switched - 1))
        _cls["R"] = Receiver
    return _cls["R"]


def payload_bytes(sym, seed):
    kind, n = sym
    if kind == "n":
        return bytes(((i * 13 + 65 + seed) & 0xFF) for i in range(n))
    if kind == "z":
        return b"\0" * n
    if kind == "r":
        x = 12345 + seed
        out = bytearray()
        for _ in range(n):
            x = (x * 1103515245 + 12345) & 0x7FFFFFFF
            out.append((x >> 16) & 0xFF)
        return bytes(out)
    if kind == "lit":
        return n
    raise ValueError(sym)


class Stream:
    """Sender side: the byte stream and where its parts are."""


def build_stream(cfg, banners, pre, post, seed, rekey=None):
    t = _tw()
    install_random(seed)
    S = t.SSHTransportBase()
    S.isClient = True
    ts = MemTransport()
    S.makeConnection(ts)
    first_kex = S.ourKexInitPayload[1:]
    for p in pre:
        S.sendPacket(MSG_IGNORE, p)
    S.sendPacket(MSG_NEWKEYS, b"")
    nk = len(ts.written)            # chunks before the key switch
    switch_keys(S, cfg, "S", seed)
    for p in post:
        S.sendPacket(MSG_DATA, p)
    post2 = []
    if rekey is not None:
        cfg2, post2 = rekey
        S.sendKexInit()                      # re-key: KEXINIT and NEWKEYS travel under the current keys
        kex2 = S.ourKexInitPayload[1:]
        S.sendPacket(MSG_NEWKEYS, b"")
        switch_keys(S, cfg2, "S", seed + 50)
        for p in post2:
            S.sendPacket(MSG_DATA, p)
    st = Stream()
    st.cfgs = [cfg] + ([rekey[0]] if rekey is not None else [])
    ban = b"".join(banners)
    st.banner_len = len(ban)
    chunks = list(ts.written)
    st.data = ban + b"".join(chunks)
    # marks: (label, start, end)
    st.marks = []
    pos = len(ban)
    labels = ["version", "kexinit"] + ["pre%d" % i for i in range(len(pre))] + ["newkeys"] + ["post%d" % i for i in range(len(post))]
    if rekey is not None:
        labels += ["post-kexinit2", "post-newkeys2"] + ["rekeyed%d" % i for i in range(len(post2))]
    if len(labels) != len(chunks):
        raise RuntimeError("sender wrote %d chunks, expected %d" % (len(chunks), len(labels)))
    for lab, ch in zip(labels, chunks):
        st.marks.append((lab, pos, pos + len(ch)))
        pos += len(ch)
    st.version_end = st.marks[0][2]
    st.newkeys_start = st.marks[nk - 1][1]
    st.keyed_start = st.marks[nk - 1][2]
    st.expected = ([(MSG_KEXINIT, first_kex)] + [(MSG_IGNORE, p) for p in pre]
                   + [(MSG_NEWKEYS, b"")] + [(MSG_DATA, p) for p in post])
    st.n_before_rekeyed = None
    if rekey is not None:
        st.expected += [(MSG_KEXINIT, kex2), (MSG_NEWKEYS, b"")]
        st.n_before_rekeyed = len(st.expected)
        st.expected += [(MSG_DATA, p) for p in post2]
    st.n_before_keyed = 2 + len(pre)      # KEXINIT, IGNOREs, NEWKEYS
    return st


def receive(cfg, seed, segments, tail=None, cfgs=None):
    install_random(seed + 101)
    R = receiver_class()()
    R.cfgs, R.seed, R.got, R.switched = (cfgs or [cfg]), seed, [], 0
    tr = MemTransport()
    R.makeConnection(tr)
    for seg in segments:
        if tr.disconnecting:
            break
        R.dataReceived(seg)
    fed = 0
    if tail is not None:
        chunk = b"\0" * 4096
        while not tr.disconnecting and fed < tail:
            R.dataReceived(chunk)
            fed += len(chunk)
    return R, tr, fed


def split_at(data, cuts):
    out, last = [], 0
    for c in cuts:
        out.append(data[last:c])
        last = c
    out.append(data[last:])
    return [s for s in out if s]


def cuts_to_segments(st, lo, cuts, bytewise=False):
    """Deliver data[:lo] as one segment (if any), then the rest cut at the absolute positions in cuts (or bytewise)."""
    data = st.data
    segs = [data[:lo]] if lo else []
    if bytewise:
        segs.extend(data[i:i + 1] for i in range(lo, len(data)))
    else:
        segs.extend(split_at(data[lo:], [c - lo for c in cuts]))
    return segs


def inside(st, c):
    """True when an absolute cut position falls strictly inside a line/packet (not on a chunk boundary)."""
    if c < st.banner_len:
        return True
    return all(c != m[1] for m in st.marks)


def diff_class(got, exp):
    if got == exp:
        return None
    if len(got) < len(exp) and got == exp[:len(got)]:
        return "payload-lost"
    if len(got) > len(exp) and got[:len(exp)] == exp:
        return "extra-payload"
    if sorted(got) == sorted(exp):
        return "payload-reordered"
    return "payload-corrupted"


# ----------------------------------------------------------------------------
# families


def check_delivery(stats, cfg, st, lo, cuts, bytewise, seed, fam, wit):
    segs = cuts_to_segments(st, lo, cuts, bytewise)
    R, tr, _ = receive(cfg, seed, segs, cfgs=st.cfgs)
    stats.evaluations += 1
    bad = judge_delivery(cfg, st, R, tr, cuts, bytewise, fam)
    if bytewise or any(inside(st, c) for c in cuts):
        stats.nt((fam, cfg, wit.get("b"), wit.get("pre"), repr(wit.get("post")), repr(wit.get("rekey")), tuple(cuts), bytewise))
    stats.outcome("delivered-intact" if not bad else "delivery-failed")
    for sig, detail in bad:
        w = dict(wit)
        w.update({"family": fam, "cfg": list(cfg), "lo": lo, "cuts": list(cuts), "bytewise": bytewise, "seed": seed})
        stats.violation(sig, detail, w)
    return bad


def _banner_mentions_ssh_cut(st, allcuts):
    i = st.data.find(b"SSH-", 0, st.banner_len)
    if i < 0:
        return False
    nl = st.data.find(b"\n", i)
    return any(nl < c < st.version_end for c in allcuts)


def cut_class(st, cfg, ngot, cuts, bytewise):
    """Where the first cut inside the first undelivered packet fell, relative to that packet's structure."""
    if bytewise:
        return "bytewise"
    if ngot + 1 >= len(st.marks):
        return "after-last-packet"
    lab, a, b = st.marks[ngot + 1]
    bs = 8 if cfg[0] in (b"none", b"3des-cbc", b"3des-ctr") else 16
    ms = DIGEST[cfg[1]]
    inside_cuts = [c for c in cuts if a < c < b]
    if not inside_cuts:
        return "packet-not-cut"
    off = inside_cuts[0] - a
    if off < bs:
        return "cut-in-first-block"
    if off == bs:
        return "cut-after-first-block"
    if off < (b - a) - ms:
        return "cut-in-body"
    if off == (b - a) - ms:
        return "cut-between-packet-and-mac"
    return "cut-in-mac"


def judge_delivery(cfg, st, R, tr, cuts, bytewise, fam):
    bad = []
    cls = diff_class(R.got, st.expected)
    disc = tr.disconnecting
    if cls is None and not disc:
        return bad
    # shape of the failure: how far did the receiver get, and where were the cuts
    ngot = len(R.got)
    allcuts = list(range(1, len(st.data))) if bytewise else list(cuts)
    if ngot == 0:
        phase = "version-exchange"
        ssh_pos = st.data.find(b"\nSSH-", st.version_end)
        if any(8 <= c <= st.banner_len and st.data[c - 1:c] == b"\n" for c in allcuts):
            # a delivery ended right after a complete banner line (>= one cipher block of text so far)
            shape = "segment-ends-after-complete-banner-line"
        elif _banner_mentions_ssh_cut(st, allcuts):
            # a banner line has "SSH-" in its middle and a delivery ended after that line, before the version line was complete
            shape = "banner-line-mentioning-SSH-then-segment-ends-before-version-line-complete"
        elif 0 <= ssh_pos < st.keyed_start and not any(st.version_end <= c < ssh_pos + 5 for c in allcuts):
            shape = "unkeyed-payload-containing-SSH-line-arrives-with-version-line"
        elif st.banner_len:
            shape = "banner-other"
        else:
            shape = "no-banner"
    elif ngot < st.n_before_keyed:
        phase = "unkeyed-packets"
        shape = "other"
    else:
        phase = "keyed-packets"
        if st.n_before_rekeyed is not None and ngot >= st.n_before_rekeyed:
            phase = "packets-after-rekey(%s)" % ("zlib-kept" if full(st.cfgs[0])[2] == full(st.cfgs[1])[2] == b"zlib" else
                                                 "compression-changed" if full(st.cfgs[0])[2] != full(st.cfgs[1])[2] else "no-compression")
            cfg = st.cfgs[1]
        shape = cut_class(st, cfg, ngot, cuts, bytewise)
    what = "disconnect" if disc else cls
    detail = "%s: dispatched %d of %d payloads (%s)%s; cuts=%s; receiver wrote %r" % (
        "/".join(x.decode() for x in cfg), ngot, len(st.expected), cls, ", receiver disconnected" if disc else "",
        "bytewise" if bytewise else list(cuts), tr.value()[-60:])
    bad.append(("%s:%s:%s" % (phase, what, shape), detail))
    return bad


def boundary_cuts(st, cfg):
    """Cut positions next to every block / MAC / packet boundary of the keyed packets (and NEWKEYS)."""
    bs = 8 if cfg[0] in (b"none", b"3des-cbc", b"3des-ctr") else 16
    ms = DIGEST[cfg[1]]
    out = set()
    for lab, a, b in st.marks:
        if not (lab.startswith("post") or lab == "newkeys" or lab.startswith("rekeyed")):
            continue
        lbs = 8 if lab == "newkeys" else bs
        lms = 0 if lab == "newkeys" else ms
        if lab.startswith("rekeyed"):
            c2 = st.cfgs[1]
            lbs = 8 if c2[0] in (b"none", b"3des-cbc", b"3des-ctr") else 16
            lms = DIGEST[c2[1]]
        for base in (a, a + 4, a + 5, a + lbs, b - lms, b):
            for d in (-1, 0, 1):
                c = base + d
                if st.newkeys_start < c < len(st.data):
                    out.add(c)
    return sorted(out)


def run_packets(stats, cfg, tier, seed):
    bs = 8 if cfg[0] in (b"none", b"3des-cbc", b"3des-ctr") else 16
    thorough = tier == "thorough"
    # singles
    for n in range(0, 2 * bs + 2):
        post = [("n", n)]
        st = build_stream(cfg, (), (), [payload_bytes(s, seed) for s in post], seed)
        lo = st.newkeys_start
        wit = {"b": 0, "pre": 0, "post": [list(s) for s in post]}
        check_delivery(stats, cfg, st, lo, (), False, seed, "packets", wit)
        check_delivery(stats, cfg, st, lo, (), True, seed, "packets", wit)
        if n <= bs + 1 or thorough:
            for c in range(lo + 1, len(st.data)):
                check_delivery(stats, cfg, st, lo, (c,), False, seed, "packets", wit)
        if thorough and n <= 4:
            for c1, c2 in itertools.combinations(range(lo + 1, len(st.data)), 2):
                check_delivery(stats, cfg, st, lo, (c1, c2), False, seed, "packets", wit)
    # one large payload (length field needs three bytes; several zlib blocks)
    post = [("r", 70000)]
    st = build_stream(cfg, (), (), [payload_bytes(s, seed) for s in post], seed)
    lo = st.newkeys_start
    wit = {"b": 0, "pre": 0, "post": [list(s) for s in post]}
    check_delivery(stats, cfg, st, lo, (), False, seed, "packets", wit)
    for c in boundary_cuts(st, cfg) + [st.keyed_start + 32768, st.keyed_start + 65536]:
        if c < len(st.data):
            check_delivery(stats, cfg, st, lo, (c,), False, seed, "packets", wit)
    # re-key in the middle of the stream: same configuration again, and a different one
    allc = configs()
    if len(cfg) == 3:
        i = allc.index(cfg)
        other = allc[(i + 2 * 7 + 1) % len(allc)]       # different MAC and compression, usually different cipher
        flip = (cfg[0], cfg[1], b"zlib" if cfg[2] == b"none" else b"none")
        seconds = [cfg, other, flip]
    else:
        seconds = [cfg, tuple(cfg[3:]) + tuple(cfg[:3])]
    for cfg2 in seconds:
        post, post2 = [("n", 5), ("z", 300)], [("n", 7), ("z", 300), ("n", 1)]
        st = build_stream(cfg, (), (), [payload_bytes(s, seed) for s in post], seed,
                          rekey=(cfg2, [payload_bytes(s, seed) for s in post2]))
        lo = st.newkeys_start
        wit = {"b": 0, "pre": 0, "post": [list(s) for s in post],
               "rekey": {"cfg2": [x.decode() for x in cfg2], "post2": [list(s) for s in post2]}}
        check_delivery(stats, cfg, st, lo, (), False, seed, "packets", wit)
        check_delivery(stats, cfg, st, lo, (), True, seed, "packets", wit)
        for c in boundary_cuts(st, cfg):
            check_delivery(stats, cfg, st, lo, (c,), False, seed, "packets", wit)
    # sequences
    a = (bs - 10) % bs      # padding length 4 (minimum) without compression
    b = (bs - 9) % bs       # padding length blocksize + 3 (maximum)
    syms = [("n", 0), ("n", a), ("n", b), ("z", 300), ("r", 300)]
    for k in (2, 3):
        for post in itertools.product(syms, repeat=k):
            st = build_stream(cfg, (), (), [payload_bytes(s, seed) for s in post], seed)
            lo = st.newkeys_start
            wit = {"b": 0, "pre": 0, "post": [list(s) for s in post]}
            check_delivery(stats, cfg, st, lo, (), False, seed, "packets", wit)
            check_delivery(stats, cfg, st, lo, (), True, seed, "packets", wit)
            if k == 2 or thorough:
                if thorough and k == 2:
                    cs = range(lo + 1, len(st.data))
                else:
                    cs = boundary_cuts(st, cfg)
                for c in cs:
                    check_delivery(stats, cfg, st, lo, (c,), False, seed, "packets", wit)


def run_handshake(stats, cfg, bi, pi, tier, seed):
    banners, pre = BANNERS[bi], PRE[pi]
    post = [payload_bytes(("n", 5), seed)]
    st = build_stream(cfg, banners, pre, post, seed)
    wit = {"b": bi, "pre": pi, "post": [["n", 5]]}
    check_delivery(stats, cfg, st, 0, (), False, seed, "handshake", wit)
    check_delivery(stats, cfg, st, 0, (), True, seed, "handshake", wit)
    n = len(st.data)
    for c in range(1, n):
        check_delivery(stats, cfg, st, 0, (c,), False, seed, "handshake", wit)
    # 2-cuts: first cut anywhere up to just past the version line, second anywhere after it up to the first packet's start + 12
    lim1 = st.version_end + 2
    lim2 = min(n, st.version_end + 12 + (40 if pi == 3 else 0))
    for c1 in range(1, lim1):
        for c2 in range(c1 + 1, lim2):
            check_delivery(stats, cfg, st, 0, (c1, c2), False, seed, "handshake", wit)


TAIL = 1024 * 1024 + 128 * 1024


def tamper_where(st, cfg, pos):
    ms = DIGEST[cfg[1]]
    for i, (lab, a, b) in enumerate(st.marks):
        if a <= pos < b:
            off = pos - a
            if off < 4:
                w = "length-field"
            elif off == 4:
                w = "padding-length"
            elif pos >= b - ms:
                w = "mac"
            else:
                w = "body"
            return lab, w
    return None, None


def check_tamper(stats, cfg, st, pos, mask, bytewise, seed, wit):
    data = st.data
    tam = data[:pos] + bytes((data[pos] ^ mask,)) + data[pos + 1:]
    lo = st.newkeys_start
    segs = [tam[:lo]]
    if bytewise:
        segs.extend(tam[i:i + 1] for i in range(lo, len(tam)))
    else:
        segs.append(tam[lo:])
    R, tr, fed = receive(cfg, seed, segs, tail=TAIL)
    stats.evaluations += 1
    lab, where = tamper_where(st, cfg, pos)
    k = st.n_before_keyed + int(lab[4:])       # index in expected of the altered packet
    bad = []
    got = R.got
    shape = "%s:%s" % (where, "bytewise" if bytewise else "whole")
    if got[:k] != st.expected[:k]:
        bad.append(("tamper:packet-before-the-altered-one-lost:%s" % shape,
                    "altered byte %d (%s of %s) xor %#x: dispatched %d payloads, the %d before it should arrive" % (pos, where, lab, mask, len(got), k)))
    elif len(got) > k:
        kind = "altered-payload-delivered" if got[k] != st.expected[k] else "payload-of-altered-packet-delivered"
        bad.append(("tamper:%s:%s" % (kind, shape),
                    "altered byte %d (%s of %s) xor %#x: receiver dispatched %r" % (pos, where, lab, mask, got[k][1][:20])))
    if not tr.disconnecting:
        bad.append(("tamper:no-disconnect:%s" % shape,
                    "altered byte %d (%s of %s) xor %#x: no disconnect after %d further bytes" % (pos, where, lab, mask, fed)))
    stats.nt(("tamper", cfg, repr(wit["post"]), pos, mask, bytewise))
    stats.outcome("tamper-detected%s" % ("-after-more-data" if fed else "") if not bad else "tamper-missed")
    for sig, detail in bad:
        w = dict(wit)
        w.update({"family": "tamper", "cfg": list(cfg), "pos": pos, "mask": mask, "bytewise": bytewise, "seed": seed})
        stats.violation(sig, detail, w)
    return bad


TAMPER_STREAMS = [[("n", 5)], [("n", 20), ("n", 3)]]


def run_tamper(stats, cfg, tier, seed):
    if cfg[1] == b"none":
        return
    for si, post in enumerate(TAMPER_STREAMS):
        st = build_stream(cfg, (), (), [payload_bytes(s, seed) for s in post], seed)
        wit = {"post": [tuple(s) for s in post]}
        for pos in range(st.keyed_start, len(st.data)):
            for mask in (0x01, 0x80):
                check_tamper(stats, cfg, st, pos, mask, False, seed, wit)
                if si == 0 or tier == "thorough":
                    check_tamper(stats, cfg, st, pos, mask, True, seed, wit)


# ----------------------------------------------------------------------------

HANDSHAKE_CFGS = [(b"aes128-ctr", b"hmac-sha2-256", b"none"), (b"aes256-cbc", b"hmac-sha1", b"zlib")]


def shards(tier, seed):
    out = []
    for c in configs() + asymmetric_configs():
        out.append(["cfg", [x.decode() for x in c]])
    for hi in range(len(HANDSHAKE_CFGS)):
        for bi in range(len(BANNERS)):
            for pi in range(len(PRE)):
                if hi == 1 and pi not in (0, 3) and tier != "thorough":
                    continue
                out.append(["hs", hi, bi, pi])
    return out


def run_shard(shard, tier, seed):
    stats = Stats()
    if shard[0] == "cfg":
        cfg = tuple(x.encode() for x in shard[1])
        run_packets(stats, cfg, tier, seed)
        run_tamper(stats, cfg, tier, seed)
        stats.sample({"cfg": shard[1], "executions": stats.evaluations}, 3)
    else:
        _, hi, bi, pi = shard
        run_handshake(stats, HANDSHAKE_CFGS[hi], bi, pi, tier, seed)
        stats.sample({"handshake": [hi, bi, pi], "executions": stats.evaluations}, 3)
    return stats


def replay(w):
    cfg = tuple(x if isinstance(x, bytes) else x.encode() for x in w["cfg"])
    seed = w.get("seed", 0)
    stats = Stats()
    post = [payload_bytes(tuple(s), seed) for s in w["post"]]
    if w["family"] == "tamper":
        st = build_stream(cfg, (), (), post, seed)
        return check_tamper(stats, cfg, st, w["pos"], w["mask"], w["bytewise"], seed, {"post": [tuple(s) for s in w["post"]]})
    rekey = None
    if w.get("rekey"):
        rk = w["rekey"]
        rekey = (tuple(x if isinstance(x, bytes) else x.encode() for x in rk["cfg2"]),
                 [payload_bytes(tuple(s), seed) for s in rk["post2"]])
    st = build_stream(cfg, BANNERS[w.get("b", 0)], PRE[w.get("pre", 0)], post, seed, rekey=rekey)
    segs = cuts_to_segments(st, w["lo"], tuple(w["cuts"]), w["bytewise"])
    R, tr, _ = receive(cfg, seed, segs, cfgs=st.cfgs)
    return judge_delivery(cfg, st, R, tr, tuple(w["cuts"]), w["bytewise"], w["family"])
