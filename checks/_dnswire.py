"""Independent RFC 1035 wire-format reader (no code shared with twisted.names).

Deliberately boring and strict.  Used by C32 as the "independent DNS decoder"
(dnspython is not installable here) and by C33 only to build seeds.

Names are returned as ``Nm`` (tuple of exact label bytes); ``same()`` compares
structures with names compared ASCII-case-insensitively, which is how any DNS
reader (dnspython included) compares names.

Strictness (everything here is RFC text, not a convention of this file):
  * label length octet 1..63; 0x40/0x80 label types are reserved -> WireError
  * a compression pointer must point to a *prior* position (RFC 1035 4.1.4):
    strictly before the start of the name fragment that contains it
  * total encoded name length <= 255 octets (RFC 1035 2.3.4 / 3.1)
  * typed RDATA must consume exactly RDLENGTH octets
  * A6 suffix field: ceil((128 - prefixLen) / 8) octets (RFC 2874 3.1)
"""
from __future__ import annotations
import struct


class WireError(Exception):
    def __init__(self, kind, msg=""):
        Exception.__init__(self, "%s %s" % (kind, msg))
        self.kind = kind


class Nm(tuple):
    """A domain name: tuple of labels (exact bytes)."""
    __slots__ = ()

    def folded(self):
        return tuple(l.lower() for l in self)

    def __repr__(self):
        return "Nm(%s)" % ".".join(repr(l)[2:-1] for l in self) if self else "Nm(<root>)"


def name_from_text(text):
    """b'a.b' -> Nm((b'a', b'b')); b'' -> root."""
    if not text:
        return Nm(())
    return Nm(tuple(text.split(b".")))


def same(a, b):
    if isinstance(a, Nm) or isinstance(b, Nm):
        return isinstance(a, Nm) and isinstance(b, Nm) and a.folded() == b.folded()
    if isinstance(a, (tuple, list)) and isinstance(b, (tuple, list)):
        return len(a) == len(b) and all(same(x, y) for x, y in zip(a, b))
    return a == b


def exact_case(a, b):
    """True when every name in two same() structures also has identical case."""
    if isinstance(a, Nm):
        return tuple(a) == tuple(b)
    if isinstance(a, (tuple, list)):
        return all(exact_case(x, y) for x, y in zip(a, b))
    return True


class Reader:
    def __init__(self, data):
        self.data = bytes(data)
        self.pointers = 0       # compression pointers followed so far
        self.max_ptr_target = -1

    def need(self, off, n):
        if off < 0 or off + n > len(self.data):
            raise WireError("short", "need %d at %d of %d" % (n, off, len(self.data)))

    def u8(self, off):
        self.need(off, 1)
        return self.data[off]

    def u16(self, off):
        self.need(off, 2)
        return (self.data[off] << 8) | self.data[off + 1]

    def u32(self, off):
        self.need(off, 4)
        return struct.unpack_from("!I", self.data, off)[0]

    def raw(self, off, n):
        self.need(off, n)
        return self.data[off:off + n]

    def name(self, off):
        """-> (Nm, offset just after the name in the record that contains it)."""
        labels = []
        after = None
        fragment_start = off
        pos = off
        total = 0
        while True:
            l = self.u8(pos)
            if l == 0:
                total += 1
                if total > 255:
                    raise WireError("name-too-long", "%d octets" % total)
                return Nm(tuple(labels)), (pos + 1 if after is None else after)
            kind = l & 0xC0
            if kind == 0xC0:
                target = ((l & 0x3F) << 8) | self.u8(pos + 1)
                if after is None:
                    after = pos + 2
                if target >= fragment_start:
                    raise WireError("pointer-not-prior", "at %d -> %d" % (pos, target))
                self.pointers += 1
                self.max_ptr_target = max(self.max_ptr_target, target)
                fragment_start = target
                pos = target
                continue
            if kind != 0:
                raise WireError("reserved-label-type", "octet 0x%02x at %d" % (l, pos))
            labels.append(self.raw(pos + 1, l))
            total += 1 + l
            if total > 254:
                raise WireError("name-too-long", ">= %d octets" % (total + 1))
            pos += 1 + l

    def charstr(self, off):
        n = self.u8(off)
        return self.raw(off + 1, n), off + 1 + n


T_A, T_NS, T_MD, T_MF, T_CNAME, T_SOA, T_MB, T_MG, T_MR, T_NULL, T_WKS, T_PTR, T_HINFO, T_MINFO, T_MX, T_TXT, \
    T_RP, T_AFSDB = range(1, 19)
T_AAAA, T_SRV, T_NAPTR, T_A6, T_DNAME, T_OPT, T_SSHFP, T_SPF, T_TSIG = 28, 33, 35, 38, 39, 41, 44, 99, 250
SINGLE_NAME = (T_NS, T_MD, T_MF, T_CNAME, T_MB, T_MG, T_MR, T_PTR, T_DNAME)


def rdata(rd, rtype, off, n):
    """Decode RDATA of ``n`` octets at ``off`` into a canonical tuple."""
    end = off + n
    rd.need(off, n)

    def done(pos, value):
        if pos != end:
            raise WireError("rdlength-mismatch", "type %d consumed %d of %d" % (rtype, pos - off, n))
        return value

    if rtype == T_A:
        return done(off + 4, (rd.raw(off, 4),)) if n >= 4 else done(off + 4, None)
    if rtype in SINGLE_NAME:
        nm, p = rd.name(off)
        return done(p, (nm,))
    if rtype == T_SOA:
        m, p = rd.name(off)
        r, p = rd.name(p)
        if p + 20 > end:
            raise WireError("rdlength-mismatch", "SOA")
        vals = tuple(rd.u32(p + 4 * i) for i in range(5))
        return done(p + 20, (m, r) + vals)
    if rtype == T_WKS:
        if n < 5:
            raise WireError("rdlength-mismatch", "WKS")
        return (rd.raw(off, 4), rd.u8(off + 4), rd.raw(off + 5, n - 5))
    if rtype == T_HINFO:
        c, p = rd.charstr(off)
        o, p = rd.charstr(p)
        return done(p, (c, o))
    if rtype in (T_MINFO, T_RP):
        a, p = rd.name(off)
        b, p = rd.name(p)
        return done(p, (a, b))
    if rtype in (T_MX, T_AFSDB):
        v = rd.u16(off)
        nm, p = rd.name(off + 2)
        return done(p, (v, nm))
    if rtype in (T_TXT, T_SPF):
        out, p = [], off
        while p < end:
            s, p = rd.charstr(p)
            out.append(s)
        return done(p, (tuple(out),))
    if rtype == T_AAAA:
        return done(off + 16, (rd.raw(off, 16),)) if n >= 16 else done(off + 16, None)
    if rtype == T_SRV:
        if n < 7:
            raise WireError("rdlength-mismatch", "SRV")
        nm, p = rd.name(off + 6)
        return done(p, (rd.u16(off), rd.u16(off + 2), rd.u16(off + 4), nm))
    if rtype == T_NAPTR:
        order, pref = rd.u16(off), rd.u16(off + 2)
        f, p = rd.charstr(off + 4)
        s, p = rd.charstr(p)
        r, p = rd.charstr(p)
        nm, p = rd.name(p)
        return done(p, (order, pref, f, s, r, nm))
    if rtype == T_A6:
        plen = rd.u8(off)
        if plen > 128:
            raise WireError("a6-prefix-length", str(plen))
        nsuffix = (128 - plen + 7) // 8
        if off + 1 + nsuffix > end:
            raise WireError("rdlength-mismatch", "A6 suffix needs %d octets" % nsuffix)
        suffix = rd.raw(off + 1, nsuffix)
        p = off + 1 + nsuffix
        prefix = None
        if plen:
            prefix, p = rd.name(p)
        return done(p, (plen, suffix, prefix))
    if rtype == T_SSHFP:
        if n < 2:
            raise WireError("rdlength-mismatch", "SSHFP")
        return (rd.u8(off), rd.u8(off + 1), rd.raw(off + 2, n - 2))
    if rtype == T_TSIG:
        alg, p = rd.name(off)
        t = (rd.u16(p) << 32) | rd.u32(p + 2)
        fudge, maclen = rd.u16(p + 6), rd.u16(p + 8)
        mac = rd.raw(p + 10, maclen)
        p = p + 10 + maclen
        oid, err, olen = rd.u16(p), rd.u16(p + 2), rd.u16(p + 4)
        other = rd.raw(p + 6, olen)
        return done(p + 6 + olen, (alg, t, fudge, mac, oid, err, other))
    if rtype == T_OPT:
        out, p = [], off
        while p < end:
            code, ln = rd.u16(p), rd.u16(p + 2)
            if p + 4 + ln > end:
                raise WireError("rdlength-mismatch", "OPT option")
            out.append((code, rd.raw(p + 4, ln)))
            p += 4 + ln
        return done(p, (tuple(out),))
    # NULL and everything unknown: opaque
    return (rd.raw(off, n),)


def parse_message(data, partial_ok=False):
    """-> dict(header=..., sections=[questions, answers, authority, additional],
               complete=bool, ends=[offset after each item], pointers=int)

    With ``partial_ok`` a message that ends inside an item yields the complete
    items before it and complete=False; any other defect raises WireError."""
    rd = Reader(data)
    if len(rd.data) < 12:
        raise WireError("short", "header")
    ident, b3, b4, qd, an, ns, ar = struct.unpack_from("!HBBHHHH", rd.data, 0)
    header = {
        "id": ident, "answer": b3 >> 7 & 1, "opCode": b3 >> 3 & 15, "auth": b3 >> 2 & 1, "trunc": b3 >> 1 & 1,
        "recDes": b3 & 1, "recAv": b4 >> 7 & 1, "z": b4 >> 6 & 1, "authenticData": b4 >> 5 & 1,
        "checkingDisabled": b4 >> 4 & 1, "rCode": b4 & 15, "counts": (qd, an, ns, ar),
    }
    sections = [[], [], [], []]
    ends = []
    off = 12
    complete = True
    try:
        for _ in range(qd):
            nm, p = rd.name(off)
            qtype, qcls = rd.u16(p), rd.u16(p + 2)
            off = p + 4
            sections[0].append((nm, qtype, qcls))
            ends.append(off)
        for si, count in ((1, an), (2, ns), (3, ar)):
            for _ in range(count):
                nm, p = rd.name(off)
                rtype, rcls, ttl, rdlen = rd.u16(p), rd.u16(p + 2), rd.u32(p + 4), rd.u16(p + 8)
                body = rdata(rd, rtype, p + 10, rdlen)
                off = p + 10 + rdlen
                sections[si].append((nm, rtype, rcls, ttl, body))
                ends.append(off)
    except WireError as e:
        if not (partial_ok and e.kind == "short"):
            raise
        complete = False
    if complete and off != len(rd.data):
        raise WireError("trailing-bytes", "%d after the last record" % (len(rd.data) - off))
    return {"header": header, "sections": sections, "complete": complete, "ends": ends,
            "pointers": rd.pointers, "max_ptr_target": rd.max_ptr_target}
