"""C15 TCP byte streams on every reactor: real tcp.Server transports on a model socket pair (SimKernel),
dispatched by the real SelectReactor / PollReactor / EPollReactor / AsyncioSelectorReactor code, with the
model select/poll/epoll/selector-loop supplying readiness.  Partial send counts and ready-set order are
explorer choices (deviation bounded); the script (write pattern, pacing, closing action, protocol kind) is
enumerated completely.
"""
import itertools

from mc.choice import Chooser, explore
from mc.runner import Stats
from checks import _c15_kernel as K

ID = "C15"
LEVEL = "model_checking"
ENGINE = "mc.choice"
TECHNIQUE = ("stateless enumeration of scripts x kernel answers (deviation bounded) over the real transports and the real "
             "reactor dispatch code on a model kernel (SimKernel)")
RULE = ("every script = [B writes 5 bytes first]? + <= 3 writes by A from {write 0/1/3/5/12 bytes, writeSequence(1,3), "
        "writeSequence(5,0,3)} x pacing {burst, one reactor iteration after each call, run to quiescence after each call} x closing "
        "action {loseConnection, loseWriteConnection (peer closes when it sees EOF), abortConnection, loseWriteConnection then "
        "loseConnection, loseConnection then loseWriteConnection (the pacing gap between the two calls)} by A or B, or B's protocol "
        "acting from inside its first dataReceived {loseConnection, loseWriteConnection, 3-byte reply + loseConnection, 3-byte reply "
        "with A then closing / half-closing} optionally with a 3-byte write by B after A's writes (pending when A's bytes arrive, so "
        "one poll event carries IN|OUT) x protocols "
        "{plain, IHalfCloseableProtocol on both sides (closing from readConnectionLost, or staying passive and closed by the "
        "harness at quiescence)} x A's transport {tcp.Server, tcp.Client with a recording connector} (B is a "
        "tcp.Server) x reactor {select, poll, epoll, asyncio}; kernel pipe of 4 bytes per direction, SEND_LIMIT=4, bufferSize=3; "
        "kernel answers: at every send() all that fits (default) or any smaller count >= 1; at every readiness report with two "
        "ready descriptors either order (ascending fd default; select: read list and write list separately); at an abortive "
        "close how much of the unread tail (and unread FIN) the reset destroys (default none); then the reactor is iterated to "
        "quiescence and the byte-stream / connectionLost oracle is evaluated. non-trivial = distinct (script, answers) in which a "
        "send was short or two descriptors were ready in one report; states = distinct (script, kernel state, transport buffers, "
        "protocol logs) snapshots after a reactor iteration, transitions = reactor iterations executed on the real code")
BOUNDS = {"quick": "scripts with <= 2 writes: <= 2 deviations (plain/server-server and half-closeable/client-server, no echo, burst and step pacing), <= 1 deviation "
                   "(all four protocol/transport kinds, with and without echo); scripts with exactly 3 writes (plain/server-server and "
                   "half-closeable/client-server, no echo, burst and drain pacing): <= 1 deviation; two-step closes: <= 2 writes, all kinds, with and without echo at "
                   "<= 1 deviation, by A without echo (those two kinds) at <= 2; exactly 3 writes, by A, at <= 1 deviation; "
                   "closes from inside dataReceived: <= 2 writes, all kinds, with and without the late 3-byte write by B, <= 1 deviation",
          "thorough": "all scripts with <= 3 writes, four protocol/transport kinds, with and without echo: <= 2 deviations; scripts with <= 2 "
                      "writes (plain/server-server and half-closeable/client-server, no echo): <= 3 deviations; two-step closes: <= 2 writes at "
                      "<= 2 deviations, exactly 3 writes at <= 1 deviation (all kinds, with and without echo); closes from inside "
                      "dataReceived: <= 2 writes at <= 2 deviations, exactly 3 writes at <= 1"}
ASSUMPTIONS = [
    "trusted base = SimKernel (checks/_c15_kernel.py): Linux tcp_poll readiness masks, one 4-byte pipe per direction standing "
    "for send queue + receive queue, FIN/RST semantics (close with unread data or SO_LINGER 0 resets the peer; data sent to a "
    "fully closed peer is swallowed and answered by a reset; shutdown() after both FINs or a reset fails with ENOTCONN; a reset may "
    "destroy the unread tail and FIN that were still in the aborting side's send queue); it only adds behaviours (any partial "
    "send >= 1, any ready order) and never reports writable-then-0-bytes or readable-then-EWOULDBLOCK; recv returns all that is "
    "queued up to the requested size (a shorter read is equivalent to a shorter send by the peer, which is enumerated)",
    "the harness loop is runUntilCurrent(); doIteration(0) (fd-set reactors) / one _run_once of the selector loop (asyncio); "
    "reactors are constructed with a never-ready stand-in for the waker and a constant clock, reactor.run() is never called",
    "when the model kernel generated a reset during an execution (abort, close with unread data, data sent to a closed peer) "
    "only prefix delivery, exactly-one connectionLost and no-data-after-loss are demanded (TCP gives no more); the reason given "
    "to connectionLost after abortConnection is not constrained by the statement",
    "the active half-closeable protocol calls loseConnection() from readConnectionLost; the passive variant keeps its write side "
    "open and is closed by the harness (loseConnection) once the system is quiescent, but only if its readConnectionLost followed "
    "a recv() that returned EOF; readConnectionLost directly after a recv() that failed is a violation in every execution",
]
MIN = {"quick": {"evaluations": 1080000, "nontrivial": 1040000, "outcomes": 10, "states": 2200000},
       "thorough": {"evaluations": 14000000, "nontrivial": 14000000, "outcomes": 8, "states": 7500000}}
LEVEL_TEXT = ("Every script in the stated alphabet on each of the four reactors' real dispatch code and the real tcp.Connection, "
              "with every single (thorough: pair of) departure(s) of the model kernel from its default answers; relative to the "
              "SimKernel socket model, not to the real Linux TCP stack.")
LEVEL_NOTE = ("decided relative to a model of the kernel socket layer (SimKernel); checks/_c15_conformance.py (run by hand, not part of "
              "the check) replays 14 of the scripts on real loopback sockets under each real reactor and confirms oracle + real-subset-of-model")

CAP = 4
SEND_LIMIT = 4
BUFFER_SIZE = 3
STEP_LIMIT = 120
REACTORS = ["select", "poll", "epoll", "asyncio"]
OPS = [("w", 0), ("w", 1), ("w", 3), ("w", 5), ("w", 12), ("ws", (1, 3)), ("ws", (5, 0, 3))]
PACING = ["burst", "step", "drain"]
CLOSES = [(s, k) for s in "AB" for k in ("lose", "losew", "abort")]
# two-step closes by one side; the pacing gap (none / one iteration / quiescence) separates the two calls, the second
# call is made only if that side's protocol has not been told connectionLost yet (an application would not touch a dead transport)
CLOSES2 = [(s, k) for s in "AB" for k in ("losew+lose", "lose+losew")]
# B's protocol acts from inside its first dataReceived: rx-X = it calls X there and the script itself closes nothing;
# X~reply = it writes a 3-byte reply there and the script's closer performs X afterwards
CLOSES3 = [("B", "rx-lose"), ("B", "rx-losew"), ("B", "rx-reply-lose"), ("A", "lose~reply"), ("A", "losew~reply")]


# ---------------------------------------------------------------------------------------------
# real reactors on the model kernel

class DummyWaker:
    disconnected = False

    def __init__(self, f):
        self.f = f

    def fileno(self):
        return self.f.fd

    def doRead(self):
        return None

    def wakeUp(self):
        pass

    def connectionLost(self, reason):
        pass

    def logPrefix(self):
        return "waker"


_CLS = {}
_LOGGED = []


def _observer(event):
    if event.get("isError") or "log_failure" in event:
        f = event.get("log_failure") or event.get("failure")
        _LOGGED.append(f)


def _classes():
    if _CLS:
        return _CLS
    from zope.interface import implementer
    from twisted.internet import tcp, protocol, interfaces
    from twisted.internet.selectreactor import SelectReactor
    from twisted.internet.pollreactor import PollReactor
    from twisted.internet.epollreactor import EPollReactor
    from twisted.internet.asyncioreactor import AsyncioSelectorReactor
    from twisted.logger import globalLogPublisher
    K.install()
    globalLogPublisher.addObserver(_observer)

    class Mixin:
        def _wakerFactory(self):
            return DummyWaker(K.current().idle_file())

        def seconds(self):
            return 100.0

    class RSelect(Mixin, SelectReactor):
        pass

    class RPoll(Mixin, PollReactor):
        pass

    class REPoll(Mixin, EPollReactor):
        pass

    class RAsyncio(Mixin, AsyncioSelectorReactor):
        pass

    class Transport(tcp.Server):
        SEND_LIMIT = globals()["SEND_LIMIT"]
        bufferSize = BUFFER_SIZE

    class ClientTransport(tcp.Client):
        SEND_LIMIT = globals()["SEND_LIMIT"]
        bufferSize = BUFFER_SIZE

        def createInternetSocket(self):
            s = self.connector.sock
            s.setblocking(0)
            return s

    class Plain(protocol.Protocol):
        hc = False

        def __init__(self, env, name):
            self.env, self.name = env, name
            self.got = bytearray()
            self.lost = []
            self.rcl = 0
            self.wcl = 0
            self.closed_self = False     # this side asked for an orderly close / half-close itself
            self.react = None            # what to do from inside the first dataReceived
            self.lose_called = False     # loseConnection() (full close) was called on this side's transport

        def dataReceived(self, data):
            self.env.nevents += 1
            if self.lost:
                self.env.bad.append(("dataReceived-after-connectionLost", self.name,
                                     "%d bytes delivered to %s after its connectionLost" % (len(data), self.name)))
            first = not self.got
            self.got += data
            if first and self.react and not self.lost:
                r, self.react = self.react, None
                self.env.k.flags.add("acted-inside-dataReceived")
                if r.startswith("reply"):
                    self.env.write(self.name, ("w", 3))
                if r.endswith("losew"):
                    self.closed_self = True
                    self.transport.loseWriteConnection()
                elif r.endswith("lose"):
                    self.closed_self = True
                    self.lose_called = True
                    self.transport.loseConnection()

        def connectionLost(self, reason):
            self.env.nevents += 1
            self.lost.append(reason.type)

    @implementer(interfaces.IHalfCloseableProtocol)
    class HalfCloseable(Plain):
        hc = True

        passive = False      # True: stays open after readConnectionLost (the harness closes it later, at quiescence)

        def readConnectionLost(self):
            self.env.nevents += 1
            self.rcl += 1
            if self.lost:
                self.env.bad.append(("readConnectionLost-after-connectionLost", self.name, "on %s" % self.name))
            last = self.env._socks[self.name].last_recv
            self.rcl_after_eof = last == "eof"
            if last == "err":
                self.env.bad.append(("readConnectionLost-after-read-error", self.name,
                                     "%s was told readConnectionLost although its last recv() failed (reset), it never read an EOF" % self.name))
            if self.rcl == 1 and not self.passive:
                self.closed_self = True
                self.lose_called = True
                self.transport.loseConnection()

        def writeConnectionLost(self):
            self.env.nevents += 1
            self.wcl += 1
            if self.lost:
                self.env.bad.append(("writeConnectionLost-after-connectionLost", self.name, "on %s" % self.name))

    _CLS.update(select=RSelect, poll=RPoll, epoll=REPoll, asyncio=RAsyncio, Transport=Transport, ClientTransport=ClientTransport,
                Plain=Plain, HalfCloseable=HalfCloseable)
    return _CLS


class Connector:
    """What tcp.Client needs from its connector; records the notifications."""

    def __init__(self, sock, proto):
        self.sock, self.proto = sock, proto
        self.lost = 0
        self.failed = []

    def buildProtocol(self, addr):
        return self.proto

    def connectionLost(self, reason):
        self.lost += 1

    def connectionFailed(self, reason):
        self.failed.append(reason.type.__name__)


class Env:
    def __init__(self, ch, rname, hc, base, client=False, passive=False):
        C = _classes()
        del _LOGGED[:]
        self.ch = ch
        self.rname = rname
        self.k = K.SimKernel(ch, CAP)
        self.bad = []
        self.nevents = 0
        self.steps = 0
        self.states = []
        if rname == "asyncio":
            self.loop = K.SimLoop(self.k)
            self.reactor = C["asyncio"](self.loop)
        else:
            self.loop = None
            self.reactor = C[rname]()
        sa, sb = self.k.socketpair()
        self._socks = {"A": sa, "B": sb}
        P = C["HalfCloseable"] if hc else C["Plain"]
        self.p = {"A": P(self, "A"), "B": P(self, "B")}
        if passive:
            self.p["A"].passive = self.p["B"].passive = True
        self.connector = None
        if client:
            self.connector = Connector(sa, self.p["A"])
            ta = C["ClientTransport"](sa.remote[0], sa.remote[1], None, self.connector, self.reactor)
        else:
            ta = C["Transport"](sa, self.p["A"], sa.remote, None, 1, self.reactor)
            self.p["A"].makeConnection(ta)
        self.t = {"A": ta, "B": C["Transport"](sb, self.p["B"], sb.remote, None, 2, self.reactor)}
        self.p["B"].makeConnection(self.t["B"])
        self.wrote = {"A": bytearray(), "B": bytearray()}
        self.base = base
        self.nbytes = 0

    def fresh(self, n):
        s = self.nbytes + self.base
        self.nbytes += n
        return bytes(((s + i) % 250) + 1 for i in range(n))

    def write(self, side, op):
        t = self.t[side]
        if self.p[side].lost or self.p[side].closed_self:
            # the statement is about writes followed by a close; an application does not write after it closed
            self.k.flags.add("scripted-write-skipped-after-close")
            return
        if op[0] == "w":
            d = self.fresh(op[1])
            self.wrote[side] += d
            t.write(d)
        else:
            chunks = [self.fresh(n) for n in op[1]]
            for c in chunks:
                self.wrote[side] += c
            t.writeSequence(chunks)

    def close(self, side, kind):
        t = self.t[side]
        if kind == "lose":
            self.p[side].closed_self = True
            self.p[side].lose_called = True
            t.loseConnection()
        elif kind == "losew":
            self.p[side].closed_self = True
            t.loseWriteConnection()
        else:
            t.abortConnection()

    def step(self):
        self.steps += 1
        if self.loop is not None:
            self.loop.run_once()
        else:
            self.reactor.runUntilCurrent()
            self.reactor.doIteration(0)

    def snapshot(self):
        out = []
        for s in "AB":
            sock = self.k_sock(s)
            t = self.t[s]
            p = self.p[s]
            out.append((bytes(sock.rx), sock.fin_rcvd, sock.fin_read, sock.wr_shut, sock.rd_shut, sock.closed, sock.reset,
                        sock.err, len(p.got), len(p.lost), p.rcl, p.wcl,
                        getattr(t, "connected", None), getattr(t, "disconnecting", None),
                        len(getattr(t, "dataBuffer", b"")) - getattr(t, "offset", 0), getattr(t, "_tempDataLen", None)))
        return tuple(out)

    def k_sock(self, s):
        return self._socks[s]

    def settle(self):
        """Iterate until one iteration neither made a system call nor delivered an event and no timed call is pending."""
        while self.steps < STEP_LIMIT:
            before = (self.k.ops, self.nevents)
            self.step()
            if (self.k.ops, self.nevents) == before and not self.reactor.getDelayedCalls():
                return True
            self.states.append(self.snapshot())
        return False


def run_case(ch, case, base=0):
    rname, hc, pacing, ops, closer, kind, echo = case
    env = Env(ch, rname, hc & 1, base, client=bool(hc & 2), passive=bool(hc & 4))
    env.case = case
    env.quiescent = True
    if hc & 2:
        env.step()          # the client transport finishes connecting from a timed call
        if not env.p["A"].connected:
            raise AssertionError("harness: model client connection was not established")

    def gap():
        if pacing == "step":
            env.step()
            env.states.append(env.snapshot())
        elif pacing == "drain":
            if not env.settle():
                env.quiescent = False

    if kind.startswith("rx-"):
        env.p["B"].react = kind[3:]
    elif "~" in kind:
        kind = kind.split("~")[0]
        env.p["B"].react = "reply"
    if echo == 1:
        env.write("B", ("w", 5))
        gap()
    for op in ops:
        env.write("A", op)
        gap()
    if echo == 2:
        env.write("B", ("w", 3))       # late greeting: written when A's bytes may already be queued for B
    if kind.startswith("rx-"):
        pass                           # B closes from inside dataReceived
    elif "+" in kind:
        first, second = kind.split("+")
        env.close(closer, first)
        gap()
        if not env.p[closer].lost:
            env.close(closer, second)
            env.k.flags.add("second-close-call-made")
        else:
            env.k.flags.add("second-close-call-skipped")
    else:
        env.close(closer, kind)
    if not env.settle():
        env.quiescent = False
    if hc & 4:
        # a passive half-closeable protocol that was told about a genuine read-side EOF keeps its write side open; the
        # application closes it some time later: here, whenever the system has gone quiet
        for _ in range(3):
            late = [s for s in "AB" if env.p[s].rcl and not env.p[s].lost and not env.p[s].lose_called
                    and getattr(env.p[s], "rcl_after_eof", False)]
            if not late or not env.quiescent:
                break
            for s in late:
                env.k.flags.add("passive-side-closed-later")
                env.close(s, "lose")
            if not env.settle():
                env.quiescent = False
    env.logged = list(_LOGGED)
    return env


def judge(env):
    """The statement, evaluated on one finished execution.  Returns [(kind, role, detail)]."""
    from twisted.internet.error import ConnectionDone
    rname, hc, pacing, ops, closer, kind, echo = env.case
    client, hc = hc & 2, hc & 1
    peer = "B" if closer == "A" else "A"
    role = {closer: "closer", peer: "peer"}
    out = [(k, role[s], d) for (k, s, d) in env.bad]
    for f in env.logged:
        tname = f.type.__name__ if f is not None and getattr(f, "type", None) is not None else "unknown"
        out.append(("error-logged:" + tname, "reactor", f.getTraceback()[-1500:] if f is not None else ""))
    if not env.quiescent:
        out.append(("no-quiescence", "reactor", "still active after %d reactor iterations" % env.steps))
        return out
    rst = env.k.rst
    for s in "AB":
        o = "B" if s == "A" else "A"
        p, q = env.p[s], env.p[o]
        w, got = bytes(env.wrote[s]), bytes(q.got)
        # bytes written by s as seen by o
        if got != w[:len(got)]:
            i = next((i for i in range(min(len(got), len(w))) if got[i] != w[i]), min(len(got), len(w)))
            if len(got) > len(w) and got[:len(w)] == w:
                sub = "extra"
            elif len(set(got)) < len(got):
                sub = "duplicated"
            elif set(got) <= set(w):
                sub = "skipped-or-reordered"
            else:
                sub = "corrupted"
            out.append(("bytes-" + sub, "written-by-" + role[s], "%s received %r, %s wrote %r (first difference at %d)" % (o, got, s, w, i)))
        elif len(got) < len(w) and not rst and p.closed_self and kind != "abort":
            out.append(("bytes-lost-before-orderly-close", "written-by-" + role[s],
                        "%s wrote %d bytes and then closed in an orderly way, %s received only %d (no reset in the model kernel)" % (
                            s, len(w), o, len(got))))
        # connectionLost exactly once
        if len(p.lost) == 0:
            out.append(("connectionLost-never-called", role[s], "%s's protocol never got connectionLost; transport connected=%r" % (
                s, getattr(env.t[s], "connected", None))))
        elif len(p.lost) > 1:
            out.append(("connectionLost-called-%d-times" % min(len(p.lost), 3), role[s], "%s: reasons %r" % (s, [t.__name__ for t in p.lost])))
        elif kind != "abort" and not rst and p.lost[0] is not ConnectionDone:
            out.append(("orderly-close-reported-as-" + p.lost[0].__name__, role[s],
                        "%s's connectionLost got %s after an orderly close without any reset" % (s, p.lost[0].__name__)))
        # half-close notifications
        if p.rcl > 1:
            out.append(("readConnectionLost-called-twice", role[s], "%s: %d calls" % (s, p.rcl)))
        if p.wcl > 1:
            out.append(("writeConnectionLost-called-twice", role[s], "%s: %d calls" % (s, p.wcl)))
        if hc and not rst and kind != "abort":
            if s == peer and p.rcl != 1:
                out.append(("readConnectionLost-missing", role[s], "%s (half-closeable) saw the peer's orderly close but got %d readConnectionLost calls" % (s, p.rcl)))
            if s == closer and kind in ("losew", "rx-losew", "losew~reply"):
                if p.wcl != 1:
                    out.append(("writeConnectionLost-missing", role[s], "%s half-closed but got %d writeConnectionLost calls" % (s, p.wcl)))
                if p.rcl != 1:
                    out.append(("readConnectionLost-missing", role[s], "%s half-closed, the peer then closed, but %s got %d readConnectionLost calls" % (s, s, p.rcl)))
        if not hc and (p.rcl or p.wcl):
            out.append(("half-close-notification-to-plain-protocol", role[s], "%s" % s))
    if env.connector is not None:
        c = env.connector
        if c.failed:
            out.append(("connector-connectionFailed-on-established-connection", role["A"], repr(c.failed)))
        if c.lost != 1 and len(env.p["A"].lost) == 1:
            out.append(("connector-connectionLost-called-%d-times" % min(c.lost, 3), role["A"], "client side A"))
    return out


def sigs(env):
    rname, hc, pacing, ops, closer, kind, echo = env.case
    seen, out = set(), []
    for k, r, d in judge(env):
        sig = "%s:%s:%s:after-%s" % (rname, k, r, kind)
        if sig not in seen:
            seen.add(sig)
            out.append((sig, d))
    return out


# ---------------------------------------------------------------------------------------------
# script enumeration

def patterns(maxw):
    for n in range(maxw + 1):
        for p in itertools.product(range(len(OPS)), repeat=n):
            yield tuple(OPS[i] for i in p)


def _scripts(maxw, only_len, pacings, hcs, echos, bound, closes=CLOSES):
    out = []
    for ops in patterns(maxw):
        if only_len is not None and len(ops) != only_len:
            continue
        for pacing in pacings:
            if pacing != "burst" and not ops:
                continue
            for hc in hcs:
                for closer, kind in closes:
                    if kind.startswith("rx-") and not any(sum(o[1]) if o[0] == "ws" else o[1] for o in ops):
                        continue      # B never receives anything, so nobody would ever close
                    for echo in echos:
                        out.append((bound, hc, pacing, ops, closer, kind, echo))
    return out


# protocol/transport kinds: bit 0 = both protocols are IHalfCloseableProtocol, bit 1 = side A is a tcp.Client,
# bit 2 (with bit 0) = the half-closeable protocols stay passive in readConnectionLost
def scripts(tier):
    """[(bound, kinds, pacing, ops, closer, kind, echo)] without the reactor."""
    if tier == "quick":
        return (_scripts(2, None, ("burst", "step"), (0, 3), (0,), 2)
                + _scripts(2, None, ("drain",), (0, 3), (0,), 1)
                + _scripts(2, None, PACING, (1, 2), (0,), 1)
                + _scripts(2, None, PACING, (0, 1, 2, 3), (1,), 1)
                + _scripts(3, 3, ("burst", "drain"), (0, 3), (0,), 1)
                + _scripts(2, None, PACING, (0, 1, 2, 3), (0, 1), 1, CLOSES2)
                + _scripts(2, None, ("burst", "step"), (0, 3), (0,), 2, CLOSES2[:2])
                + _scripts(3, 3, ("burst", "drain"), (0, 3), (0,), 1, CLOSES2[:2])
                + _scripts(2, None, PACING, (0, 1, 2, 3), (0, 2), 1, CLOSES3)
                + _scripts(2, None, PACING, (5,), (0, 1), 1, CLOSES)
                + _scripts(2, None, PACING, (5,), (0,), 1, CLOSES2 + CLOSES3))
    return (_scripts(3, None, PACING, (0, 1, 2, 3), (0, 1), 2)
            + _scripts(2, None, PACING, (0, 3), (0,), 3)
            + _scripts(2, None, PACING, (0, 1, 2, 3), (0, 1), 2, CLOSES2)
            + _scripts(3, 3, PACING, (0, 1, 2, 3), (0, 1), 1, CLOSES2)
            + _scripts(2, None, PACING, (0, 1, 2, 3), (0, 1, 2), 2, CLOSES3)
            + _scripts(3, 3, PACING, (0, 1, 2, 3), (0, 2), 1, CLOSES3)
            + _scripts(2, None, PACING, (5, 7), (0, 1), 2, CLOSES + CLOSES2)
            + _scripts(2, None, PACING, (5, 7), (0, 2), 2, CLOSES3))


NSLICES = {"quick": 12, "thorough": 40}


def shards(tier, seed):
    return [[r, i] for r in REACTORS for i in range(NSLICES[tier])]


def run_shard(shard, tier, seed):
    rname, sl = shard
    base = (seed * 41) % 200
    st = Stats()
    all_scripts = scripts(tier)
    mine = all_scripts[sl::NSLICES[tier]]
    states = set()
    for sc in mine:
        if st.counters.get("violating_executions", 0) >= 40:
            st.exhaustive = False
            st.notes.append("C15: a shard stopped early after 40 violating executions")
            break
        bound = sc[0]
        case = (rname,) + tuple(sc[1:])
        for ch, env in explore(lambda c: run_case(c, case, base), bound=bound):
            st.evaluations += 1
            st.transitions += env.steps
            if env.steps > st.counters.get("steps_max", 0):
                st.counters["steps_max"] = env.steps
            for snap in env.states:
                states.add(hash((case, snap)))
            fl = env.k.flags
            for f in fl:
                st.outcome(f)
            for s in "AB":
                for t in env.p[s].lost:
                    st.outcome("reason:" + t.__name__)
            if env.k.rst:
                st.outcome("reset-in-kernel")
            if fl & {"partial-send", "send-ewouldblock", "two-ready"}:
                st.nt(hash((case, tuple(ch.choices))))
            if ch.deviations:
                st.count("executions_with_deviation")
            bad = sigs(env)
            if bad:
                w = {"case": list(case), "choices": ch.choices, "base": base}
                for sig, detail in bad:
                    st.violation(sig, {"detail": detail, "case": repr(case), "syscalls": repr(env.k.log[-40:])}, w)
            elif st.evaluations % 20011 == 1:
                st.sample({"case": repr(case), "choices": ch.choices, "syscalls": len(env.k.log)})
    st.states = len(states)
    st.traces = st.evaluations
    return st


def _tuplify(x):
    return tuple(_tuplify(i) for i in x) if isinstance(x, list) else x


def replay(w):
    case = _tuplify(w["case"])
    ch = Chooser(w["choices"])
    env = run_case(ch, case, w.get("base", 0))
    return sigs(env)
