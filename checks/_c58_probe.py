"""Standalone probes (no harness, no explorer) for the C58 findings.

    PYTHONPATH=/repo/src /venv/bin/python /verif/checks/_c58_probe.py [A1 A2 A3 A4 B1 C1 D1 D2]

Each probe prints what the real ClientService did and ends with DEFECT or OK.
"""
import sys

from twisted.application.internet import ClientService
from twisted.internet import defer, protocol, task
from twisted.internet.error import ConnectionDone
from twisted.python.failure import Failure


class T:
    closing = False

    def loseConnection(self):
        self.closing = True


class EP:
    def __init__(self):
        self.ds, self.fs = [], []

    def connect(self, f):
        self.ds.append(defer.Deferred())
        self.fs.append(f)
        return self.ds[-1]

    def succeed(self, i):
        p = self.fs[i].buildProtocol(None)
        t = T()
        p.makeConnection(t)
        self.ds[i].callback(p)
        return p, t


def mk(prep=None):
    ep, clock = EP(), task.Clock()
    svc = ClientService(ep, protocol.Factory.forProtocol(protocol.Protocol),
                        retryPolicy=lambda n: 1.0, clock=clock, prepareConnection=prep)
    return ep, clock, svc


def reject(p):
    raise ValueError("rejected by prepareConnection")


def pending(p):
    return defer.Deferred()


def A1():
    ep, clock, svc = mk(reject)
    svc.startService()
    p, t = ep.succeed(0)
    clock.advance(1.0)
    print("attempts:", len(ep.ds), "rejected transport asked to close:", t.closing)
    return len(ep.ds) == 2 and not t.closing


def A2():
    ep, clock, svc = mk(pending)
    svc.startService()
    p, t = ep.succeed(0)
    d = svc.stopService()
    print("stop Deferred fired:", d.called, "transport asked to close:", t.closing)
    return d.called and not t.closing


def A3():
    ep, clock, svc = mk(reject)
    svc.startService()
    p, t = ep.succeed(0)
    try:
        p.connectionLost(Failure(ConnectionDone()))
    except Exception as e:
        print("connectionLost of the rejected connection raised", type(e).__name__, e)
        return True
    return False


def A4():
    ep, clock, svc = mk(lambda p, n=[0]: n.append(0) or (len(n) == 2 and reject(p)))
    svc.startService()
    p0, t0 = ep.succeed(0)          # rejected, left open
    clock.advance(1.0)
    p1, t1 = ep.succeed(1)          # accepted: the current connection
    p0.connectionLost(Failure(ConnectionDone()))   # the *old* one goes away
    clock.advance(1.0)
    print("attempts:", len(ep.ds), "current connection asked to close:", t1.closing)
    return len(ep.ds) == 3 and not t1.closing


def B1():
    ep, clock, svc = mk(pending)
    svc.startService()
    p, t = ep.succeed(0)
    try:
        p.connectionLost(Failure(ConnectionDone()))
    except Exception as e:
        print("connectionLost during prepareConnection raised", type(e).__name__, e)
        return True
    return False


def C1():
    ep, clock, svc = mk()
    w = svc.whenConnected()
    w.addErrback(lambda f: None)
    d = svc.stopService()
    w2 = svc.whenConnected()
    w2.addErrback(lambda f: None)
    print("stop fired:", d.called, "earlier whenConnected fired:", w.called, "later whenConnected fired:", w2.called)
    return d.called and not w.called


def D1():
    ep, clock, svc = mk()
    svc.startService()
    out = []

    def again(f):
        try:
            out.append(svc.whenConnected())
        except Exception as e:
            out.append(e)
    svc.whenConnected(failAfterFailures=1).addErrback(again)
    ep.ds[0].errback(Exception("refused"))
    print("whenConnected() from the errback:", out)
    return isinstance(out[0], Exception)


def D2():
    ep, clock, svc = mk()
    svc.startService()
    out = []

    def done(p):
        try:
            out.append(svc.stopService())
        except Exception as e:
            out.append(e)
    svc.whenConnected().addCallback(done)
    p, t = ep.succeed(0)
    print("stopService() from the callback:", out, "running:", svc.running, "transport asked to close:", t.closing)
    return isinstance(out[0], Exception)


if __name__ == "__main__":
    names = sys.argv[1:] or ["A1", "A2", "A3", "A4", "B1", "C1", "D1", "D2"]
    for n in names:
        print(n, "->", "DEFECT" if globals()[n]() else "OK")
