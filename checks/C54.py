"""C54 FTP server root confinement.

Every session of the declared alphabet is run through the real FTPFactory /
FTP protocol / FTPShell (or FTPAnonymousShell) over in-memory transports, on a
scratch tree  <base>/root  next to  <base>/root-sib  (shared name prefix) and a
marker file in <base>.  Three independent observations decide a session:

 1. sys.addaudithook: every open / listdir / scandir / mkdir / rmdir / remove /
    rename / link / chmod / ... issued while the server processes the session's
    commands must name a path inside <base>/root;
 2. the tree outside <base>/root is byte-for-byte unchanged afterwards;
 3. no marker that exists only outside the root (file content and entry names
    of the sibling and the parent) appears on the control or data channel.
"""
import errno
import itertools
import os
import shutil
import sys

from mc.runner import Stats

ID = "C54"
LEVEL = "exploration"
TECHNIQUE = "exhaustive session enumeration on the real protocol stack with filesystem audit hook"
RULE = ("session = login (FTPShell for every command, FTPAnonymousShell for the read commands) + working-directory "
        "prefix (none / CWD a / CWD a/b / CWD a;CDUP, plus failing CWDs out of the root) + one of RETR, STOR, DELE, "
        "MKD, RMD, LIST, NLST, SIZE, MDTM, CWD, RNFR x RNTO (attack path on either side) with a path; paths = every "
        "'/'-join of <= 2 segments from a 17-symbol alphabet ('..', '.', empty, NUL, '~', backslash, %-escape, glob, "
        "sibling and in-root names), <= 3 segments from a 6-symbol core, each relative and absolute, plus hand-written "
        "attack paths (deep '..' chains, real absolute path of the sibling, LIST flags), plus the same attack paths "
        "respelt with characters NFKC folds to dots or separators (fullwidth full stop, one/two dot leader, fullwidth "
        "solidus; whole, first-only and mixed with ASCII) sent as UTF-8 to a protocol whose wire encoding is UTF-8.  Data commands run over a real "
        "DTP set up through PASV with an injected listenFactory.  non-trivial = a session whose path contains '..', NUL, "
        "an empty/odd segment or names the sibling")
BOUNDS = {"quick": "1040 paths (17 + 17^2 + 6^3 segment joins x {relative, absolute}, 55 hand-written, 12 benign); "
                   "3 cwd prefixes x 12 command forms (FTPShell) + 6 read commands (anonymous) + 5 further prefixes "
                   "(failing CWDs, CWD a;CDUP) x 12 command forms on the hand-written set",
          "thorough": "10178 paths (17^3 segment joins in addition); 4 cwd prefixes on the full path set"}
ASSUMPTIONS = [
    "CPython audit events cover open/list/create/rename/delete; os.stat is not audited, so SIZE/MDTM-only escapes are "
    "visible through observation 3 only and are recorded as an outcome, not judged (the statement lists open, list, "
    "create, rename, delete)",
    "events raised from importlib / linecache / tokenize frames (lazy imports, traceback rendering) are not the server's",
    "the compatibility-spelling sessions set the protocol's _encoding to utf-8 (latin-1, the default, cannot carry "
    "those code points); every other session uses the default",
    "no symbolic links in the scratch tree ('symbolic links aside')",
    "the reactor is a task.Clock stand-in installed before twisted.protocols.ftp is imported; only zero-delay calls run",
]
MIN = {"quick": {"evaluations": 48000, "nontrivial": 43000, "outcomes": 16},
       "thorough": {"evaluations": 400000, "nontrivial": 380000, "outcomes": 16}}

SIB = "{SIB}"      # placeholder: real absolute path of the sibling directory
ROOT = "{ROOT}"    # placeholder: real absolute path of the root

SEG_FULL = ["..", ".", "", "a", "b", "f", "root-sib", "x", "new", "a\0", "\0", "~", "..\\", "%2e%2e", "*", "...", ".. "]
SEG_CORE = ["..", "", ".", "a", "root-sib", "x"]
HAND = [
    "../root-sib/x", "../root-sib", "../root-sib/", "../root-sib/d", "../root-sib/new",
    "../../root-sib/x", "../../../root-sib/x", "../../../../root-sib/x", "a/../../root-sib/x", "a/b/../../../root-sib/x",
    "/../root-sib/x", "/a/../../root-sib/x", "/a/b/../../../root-sib/x", "//../root-sib/x", "/./../root-sib/x",
    "..//root-sib//x", ".././root-sib/./x", "../root-sib/../root-sib/x", "../root/f", "../root/../root-sib/x",
    "../new-in-parent", "../..", "../../..", "/../..", "../../../../../../../.." + SIB + "/x",
    "/../../../../../../../.." + SIB + "/new", SIB + "/x", SIB, ROOT + "/f", ROOT + "/../root-sib/x",
    "..\0/root-sib/x", "../root-sib/x\0", "\0../root-sib/x", "f\0/../../root-sib/x", "../root-sib\0/x",
    "-a", "-l", "-al", "-la", "-L ../root-sib", "-a ../root-sib", "../*", "../root-sib/*", "../root-s*", "a/../../root-s*/x",
    "..\\root-sib\\x", "%2e%2e/root-sib/x", "..%2froot-sib%2fx", "~/../root-sib/x", "\xe9/../../root-sib/x",
    "a b/../../root-sib/x", " ../root-sib/x", "../root-sib/x ", "....//root-sib/x", "..././root-sib/x",
]
BENIGN = ["f", "a/f", "a/b/g", "d", "a", "new", "a/new", "root-sib/x", "/a/b", "", "/", "."]
# Compatibility spellings that Unicode normalisation (NFKC) folds to dots / separators.  The default latin-1
# decoding of the command channel cannot produce these code points, so these sessions run with the protocol's
# wire encoding set to UTF-8 (a server configured for RFC 2640 path names).
FW2, FW1, ODL2, TDL, FWSOL = "\uff0e\uff0e", "\uff0e", "\u2024\u2024", "\u2025", "\uff0f"
DOT_SPELLINGS = [FW2, ODL2, TDL, FW1 + ".", "." + FW1, FW1]


def uni_paths():
    out, seen = [], set()

    def add(p):
        if p not in seen and p.isascii() is False:
            seen.add(p)
            out.append(p)
    for p in HAND + ["..", "../", "/..", "a/..", "a/../.."]:
        if ".." not in p or "\0" in p:
            continue
        for sp in DOT_SPELLINGS:
            add(p.replace("..", sp))                 # every '..' respelt
            if sp in (FW2, TDL):
                add(p.replace("..", sp, 1))          # only the first one
        add(p.replace("/", FWSOL))                   # ascii dots, fullwidth solidus inside one segment
        add(p.replace("..", FW2).replace("/", FWSOL))
        if "/" in p:
            head, tail = p.split("/", 1)
            add(head + FWSOL + tail)                 # only the first separator respelt
            add(head + "/" + tail.replace("/", FWSOL))
    for sp in DOT_SPELLINGS + [".." + FWSOL + "root-sib", FW2 + FWSOL + "root-sib", "a" + FWSOL + ".." + FWSOL + ".."]:
        for segs in ((sp,), (sp, "root-sib"), (sp, "root-sib", "x"), (sp, sp, "root-sib", "x"), ("a", sp, sp, "root-sib", "x"),
                     (sp, "x"), (sp, sp), ("a", sp), (sp, "new"), (sp, "root-sib", "new")):
            add("/".join(segs))
            add("/" + "/".join(segs))
    return out


READ_CMDS = ["RETR", "LIST", "NLST", "SIZE", "MDTM", "CWD"]
WRITE_CMDS = ["STOR", "DELE", "MKD", "RMD", "RNFR-attack", "RNTO-attack"]
PREFIXES = {
    "root": [],
    "a": [["CWD", "a"]],
    "a/b": [["CWD", "a/b"]],
    "a;cdup": [["CWD", "a"], ["CDUP"]],
    "failing-cdup": [["CDUP"]],
    "failing-sib": [["CWD", "../root-sib"]],
    "a;failing-sib": [["CWD", "a"], ["CWD", "../../root-sib"]],
    "failing-abs": [["CWD", "/../root-sib"], ["CWD", "a"]],
}
MARKERS = [b"SIBSECRET", b"only-in-sib", b"only-in-parent", b"PARENTSECRET"]
STAT_MARKERS = [b"213 4321", b"20090213233130"]


def paths(tier):
    out, seen = [], set()

    def add(p):
        if p not in seen:
            seen.add(p)
            out.append(p)
    for p in HAND + BENIGN:
        add(p)
    combos = [(s,) for s in SEG_FULL] + list(itertools.product(SEG_FULL, repeat=2)) + \
        list(itertools.product(SEG_CORE, repeat=3))
    if tier == "thorough":
        combos += list(itertools.product(SEG_FULL, repeat=3))
    for segs in combos:
        rel = "/".join(segs)
        add(rel)
        add("/" + rel)
    return out


# ------------------------------------------------------------------ world

class G:
    ready = False
    audit_on = False
    root = None
    base = None
    events = []      # (event, path) seen while audit_on
    noise = 0
    blocked = 0
    reactor = None
    fake = False
    pristine = None


PATH_ARGS = {"open": (0,), "os.listdir": (0,), "os.scandir": (0,), "os.mkdir": (0,), "os.rmdir": (0,),
             "os.remove": (0,), "os.rename": (0, 1), "os.link": (0, 1), "os.symlink": (0, 1), "os.chmod": (0,),
             "os.chown": (0,), "os.truncate": (0,), "os.utime": (0,), "os.chdir": (0,), "shutil.rmtree": (0,),
             "shutil.copyfile": (0, 1), "shutil.move": (0, 1), "os.walk": (0,), "glob.glob": (0,)}
NOISE_FILES = ("<frozen importlib", "/importlib/", "/linecache.py", "/tokenize.py")


def _mutating(event, args):
    if event != "open":
        return event not in ("os.listdir", "os.scandir", "os.walk", "glob.glob", "os.chdir")
    mode = args[1] if len(args) > 1 else None
    flags = args[2] if len(args) > 2 else 0
    if isinstance(mode, str) and any(c in mode for c in "wax+"):
        return True
    if isinstance(flags, int) and flags & (os.O_WRONLY | os.O_RDWR | os.O_CREAT | os.O_TRUNC | os.O_APPEND):
        return True
    return False


def _audit(event, args):
    if not G.audit_on:
        return
    idx = PATH_ARGS.get(event)
    if idx is None:
        return
    for i in idx:
        if i >= len(args):
            continue
        p = args[i]
        if p is None:
            p = "."
        if isinstance(p, int):
            continue
        try:
            p = os.fsdecode(p)
        except Exception:
            p = repr(p)
        full = os.path.normpath(os.path.join(os.getcwd(), p))
        if full == G.root or full.startswith(G.root + os.sep):
            G.events.append((event, "inside"))
            continue
        f = sys._getframe(1)
        noisy = False
        while f is not None:
            fn = f.f_code.co_filename
            if any(n in fn for n in NOISE_FILES):
                noisy = True
                break
            f = f.f_back
        if noisy:
            G.noise += 1
            if os.environ.get("C54_DEBUG"):
                sys.stderr.write("noise: %s %s\n" % (event, full))
            continue
        G.events.append((event, full))
        if _mutating(event, args):
            # Record the attempt, then refuse it: a server that has lost its confinement (a seeded defect) must
            # not be able to damage anything outside the scratch root.  Reads are let through so that the
            # disclosure observation stays independent of this hook.
            G.blocked += 1
            raise PermissionError(errno.EACCES, "C54: operation outside the scratch root refused", full)


def setup():
    if G.ready:
        return
    from twisted.internet import task, main, error as ierror

    class FakeReactor(task.Clock):
        running = False

        def listenTCP(self, *a, **k):
            raise NotImplementedError("no real network in this check")
        connectTCP = listenTCP

        def callFromThread(self, f, *a, **k):
            f(*a, **k)

        def addSystemEventTrigger(self, *a, **k):
            return None

        def removeSystemEventTrigger(self, *a, **k):
            return None

    r = FakeReactor()
    try:
        main.installReactor(r)
        G.fake = True
        G.reactor = r
    except ierror.ReactorAlreadyInstalledError:
        from twisted.internet import reactor
        G.reactor = reactor
    from twisted.logger import globalLogBeginner
    try:
        globalLogBeginner.beginLoggingTo([lambda e: None], redirectStandardIO=False, discardBuffer=True)
    except Exception:
        pass
    import twisted.protocols.ftp  # noqa: F401  (imports with the stand-in reactor in place)
    G.base = "/dev/shm/verif-C54-%d" % os.getpid()
    G.root = os.path.join(G.base, "root")
    sys.addaudithook(_audit)
    import atexit
    atexit.register(cleanup)
    selftest()
    G.ready = True


def selftest():
    """The hook must see and refuse a mutation outside the root before any session is allowed to run."""
    os.makedirs(G.root, exist_ok=True)
    probe = os.path.join(G.base, "selftest-outside")
    G.events = []
    G.audit_on = True
    try:
        refused = 0
        for op in (lambda: os.mkdir(probe), lambda: open(probe, "w"), lambda: os.rename(G.root, probe),
                   lambda: os.rmdir(G.base), lambda: os.remove(probe)):
            try:
                op()
            except PermissionError as e:
                if "C54" in str(e):
                    refused += 1
            except OSError:
                pass
        os.listdir(G.base)
    finally:
        G.audit_on = False
    seen = [e for e, w in G.events if w != "inside"]
    if refused != 5 or len(seen) < 6 or os.path.exists(probe):
        raise RuntimeError("C54 audit hook self-test failed: refused=%d events=%r" % (refused, G.events))
    G.events = []
    G.blocked = 0


def cleanup():
    on, G.audit_on = G.audit_on, False
    if G.base and os.path.isdir(G.base) and G.base.startswith("/dev/shm/verif-C54-"):
        shutil.rmtree(G.base, ignore_errors=True)
    G.pristine = None
    G.audit_on = on


def drive():
    r = G.reactor
    if G.fake:
        for _ in range(50):
            if not any(c.getTime() <= r.seconds() for c in r.getDelayedCalls()):
                break
            r.advance(0)
    else:
        r.runUntilCurrent()


TREE = {
    "only-in-parent": b"PARENTSECRET",
    "root/f": b"root file f",
    "root/x": b"inside x",
    "root/a/f": b"root a f",
    "root/a/b/g": b"root a b g",
    "root/d/": None,
    "root/root-sib/x": b"inside root-sib x",
    "root-sib/x": b"SIBSECRET" + b"." * (4321 - 9),
    "root-sib/only-in-sib": b"SIBSECRET too",
    "root-sib/d/": None,
}


def build_tree():
    if os.path.isdir(G.base):
        shutil.rmtree(G.base)
    for rel, content in TREE.items():
        full = os.path.join(G.base, rel)
        if content is None:
            os.makedirs(full, exist_ok=True)
        else:
            os.makedirs(os.path.dirname(full), exist_ok=True)
            with open(full, "wb") as f:
                f.write(content)
    os.utime(os.path.join(G.base, "root-sib/x"), (1234567890, 1234567890))
    G.pristine = snapshot(G.base)


def snapshot(top, skip=None):
    out = []
    for d, dirs, files in os.walk(top):
        dirs.sort()
        if skip and (d == skip or d.startswith(skip + os.sep)):
            dirs[:] = []
            continue
        out.append((os.path.relpath(d, top), "dir"))
        for fn in sorted(files):
            with open(os.path.join(d, fn), "rb") as f:
                out.append((os.path.relpath(os.path.join(d, fn), top), f.read()))
    return out


# ------------------------------------------------------------------ one session

def run_session(spec):
    """spec = {"shell", "pre": [[cmd, arg?]...], "cmd", "path"} -> (violations, info)."""
    setup()
    from zope.interface import implementer
    from twisted.cred import portal, checkers
    from twisted.internet import interfaces, error as ierror
    from twisted.internet.address import IPv4Address
    from twisted.protocols import ftp
    from twisted.python import filepath, failure
    from mc.net import MemTransport

    if G.pristine is None:
        build_tree()
    root = G.root

    @implementer(portal.IRealm)
    class Realm:
        def requestAvatar(self, avatarId, mind, *ifaces):
            if avatarId is checkers.ANONYMOUS:
                av = ftp.FTPAnonymousShell(filepath.FilePath(root))
            else:
                av = ftp.FTPShell(filepath.FilePath(root))
            return ftp.IFTPShell, av, lambda: None

    @implementer(interfaces.IListeningPort)
    class Port:
        def getHost(self):
            return IPv4Address("TCP", "10.0.0.1", 2121)

        def startListening(self):
            pass

        def stopListening(self):
            return None

    p = portal.Portal(Realm())
    p.registerChecker(checkers.AllowAnonymousAccess())
    db = checkers.InMemoryUsernamePasswordDatabaseDontUse()
    db.addUser("user", "pw")
    p.registerChecker(db)
    factory = ftp.FTPFactory(p)
    wrapper = factory.buildProtocol(IPv4Address("TCP", "10.0.0.2", 4321))
    proto = wrapper.wrappedProtocol
    proto.listenFactory = lambda portn, fac, interface="": Port()
    t = MemTransport()
    t.protocol = wrapper
    dtp_t = MemTransport()
    done = failure.Failure(ierror.ConnectionDone())

    def subst(s):
        return s.replace(SIB, os.path.join(G.base, "root-sib")).replace(ROOT, root)

    wire = spec.get("wire", "latin-1")
    if wire != "latin-1":
        proto._encoding = wire

    def send(line):
        wrapper.dataReceived(line.encode(wire) + b"\r\n")
        drive()

    def data_phase():
        dtp = proto.dtpInstance
        if dtp is None:
            return
        for _ in range(3):
            dtp_t.pull(200)
            drive()
        if getattr(dtp, "_cons", None) is not None and dtp.isConnected:
            dtp.dataReceived(b"uploaded DATA")
        if dtp.isConnected:
            dtp.connectionLost(done)
        drive()

    G.events = []
    crashed = None
    G.audit_on = True
    try:
        try:
            wrapper.makeConnection(t)
            if spec["shell"] == "anon":
                send("USER anonymous")
                send("PASS x@y")
            else:
                send("USER user")
                send("PASS pw")
            send("PASV")
            if proto.dtpFactory is not None:
                dtp = proto.dtpFactory.buildProtocol(None)
                if dtp is not None:
                    dtp.makeConnection(dtp_t)
                    drive()
            for step in spec["pre"]:
                send(" ".join(subst(x) for x in step))
            cmd, path = spec["cmd"], subst(spec["path"])
            if cmd == "RNFR-attack":
                send("RNFR " + path)
                send("RNTO renamed")
            elif cmd == "RNTO-attack":
                send("RNFR f")
                send("RNTO " + path)
            else:
                send(cmd + " " + path)
            data_phase()
            send("PWD")
            wrapper.connectionLost(done)
            drive()
        except Exception as e:      # not this property's business, but never lose it silently
            crashed = "%s: %s" % (type(e).__name__, e)
    finally:
        G.audit_on = False
    control = t.value()
    data = dtp_t.value()
    bad = []
    for ev, where in G.events:
        if where == "inside":
            continue
        sib = os.path.join(G.base, "root-sib")
        if where == sib or where.startswith(sib + os.sep):
            cls = "sibling-sharing-the-root-name-prefix"
        elif where == G.base or where.startswith(G.base + os.sep):
            cls = "parent-of-root"
        else:
            cls = "elsewhere"
        bad.append(("FTPShell:%s-outside-root:%s" % (ev.replace("os.", ""), cls),
                    "%s issued %s on %s (root %s)" % (spec["cmd"], ev, where.replace(G.base, "<base>"), "<base>/root")))
    info = {"crashed": crashed, "stat_leak": any(m in control for m in STAT_MARKERS)}
    for m in MARKERS:
        if m in control or m in data:
            bad.append(("FTPShell:outside-content-disclosed",
                        "%s %r: marker %r that exists only outside the root appeared on the %s channel" % (
                            spec["cmd"], spec["path"], m.decode(), "data" if m in data else "control")))
            break
    mutating = spec["cmd"] in WRITE_CMDS or any(e in ("os.mkdir", "os.rmdir", "os.remove", "os.rename")
                                                for e, _ in G.events)
    if mutating or bad:
        now = snapshot(G.base)
        if now != G.pristine:
            outside_now = [e for e in now if not (e[0] == "root" or e[0].startswith("root" + os.sep))]
            outside_was = [e for e in G.pristine if not (e[0] == "root" or e[0].startswith("root" + os.sep))]
            if outside_now != outside_was:
                names_now = {e[0] for e in outside_now}
                names_was = {e[0] for e in outside_was}
                bad.append(("FTPShell:tree-outside-root-modified",
                            "%s %r: added %r removed %r changed-content %s" % (
                                spec["cmd"], spec["path"], sorted(names_now - names_was), sorted(names_was - names_now),
                                names_now == names_was)))
            build_tree()
    info["control"] = control
    info["events"] = list(G.events)
    return bad, info


def reply_class(control, cmd):
    """Outcome class from the last reply before the trailing PWD reply."""
    lines = [l for l in control.split(b"\r\n") if l]
    codes = [l[:3] for l in lines]
    return codes[-2].decode("latin-1") if len(codes) >= 2 else "?"


def odd(path):
    return not path.isascii() or ".." in path or "\0" in path or "//" in path or "root-sib" in path or SIB in path or \
        any(c in path for c in "~\\%*") or path in ("", ".", "/") or path.startswith("-")


def evaluate(st, spec):
    st.evaluations += 1
    bad, info = run_session(spec)
    if odd(spec["path"]) or spec["prefix"].startswith(("failing", "a;failing")):
        st.nt((spec["shell"], spec["prefix"], spec["cmd"], spec["path"]))
    code = reply_class(info["control"], spec["cmd"])
    st.outcome("%s:%s" % (spec["cmd"].split("-")[0], code[:1] + "xx"))
    if info["crashed"]:
        st.outcome("harness-visible-exception")
        st.count("sessions_with_exception")
    if info["stat_leak"]:
        st.outcome("stat-of-outside-path-disclosed")
    for sig, detail in bad:
        st.violation(sig, detail, {k: spec[k] for k in ("shell", "prefix", "pre", "cmd", "path", "wire")})


def shards(tier, seed):
    out = []
    prefixes = ["root", "a", "a/b"] + (["a;cdup"] if tier == "thorough" else [])
    for pre in prefixes:
        for cmd in READ_CMDS + WRITE_CMDS:
            out.append(["full", pre, cmd, "all"])
    for cmd in READ_CMDS:
        out.append(["anon", "root", cmd, "all"])
    for pre in ("root", "a", "a/b"):
        for cmd in READ_CMDS + WRITE_CMDS:
            out.append(["full", pre, cmd, "uni"])
    out.append(["anon", "root", "read", "uni"])
    for pre in ("failing-cdup", "failing-sib", "a;failing-sib", "failing-abs") + (() if tier == "thorough" else ("a;cdup",)):
        out.append(["full", pre, "*", "hand"])
    return out


def run_shard(shard, tier, seed):
    shell, pre, cmd, which = shard
    st = Stats()
    setup()
    try:
        cmds = (READ_CMDS + WRITE_CMDS) if cmd == "*" else (READ_CMDS if cmd == "read" else [cmd])
        plist = paths(tier) if which == "all" else (uni_paths() if which == "uni" else HAND + BENIGN + ["..", "../.."])
        wire = "utf-8" if which == "uni" else "latin-1"
        spec = None
        for c in cmds:
            for path in plist:
                spec = {"shell": shell, "prefix": pre, "pre": PREFIXES[pre], "cmd": c, "path": path, "wire": wire}
                evaluate(st, spec)
        if spec:
            st.sample({k: spec[k] for k in ("shell", "prefix", "cmd", "path")})
        st.count("audit_noise_events", G.noise)
        st.count("refused_operations_outside_root", G.blocked)
    finally:
        cleanup()
    return st


def replay(w):
    setup()
    try:
        spec = dict(w)
        spec["pre"] = [list(s) for s in w["pre"]]
        bad, info = run_session(spec)
        return bad
    finally:
        cleanup()
