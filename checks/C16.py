"""C16 framed receivers (twisted.protocols.basic): segmentation invariance, exact limits, send round trip.

Every stream of the declared families is delivered to the real receiver whole and in every
segmentation of the declared class; the recorded event log (messages, oversize notifications,
close requests -- cut at the first close request) is compared with a small reference framer
written here.  Scripted message contents drive pause/resume, raw mode and application closes.
"""
import itertools

from twisted.protocols import basic

from mc.choice import compositions, cuts
from mc.runner import Stats

ID = "C16"
LEVEL = "exploration"
TECHNIQUE = "exhaustive streams x exhaustive segmentations against a reference framer"
RULE = ("(A) every byte string up to length n over a per-protocol alphabet (delimiter bytes, length digits/prefix "
        "bytes around MAX_LENGTH, filler) x every composition into deliveries; (B) every sequence of <= k grammar "
        "tokens (lines of length MAX-1..MAX+2, split delimiters, command messages p=pause+harness resume, "
        "P=pause+resume inside the callback, q=application close, r=raw mode for 2 bytes) x every composition "
        "(<= 9 bytes), every <= 2 cuts (<= 16 bytes) or every single cut and every isolated 1-2 byte delivery, + bytewise; (C) every sequence of <= 2 (3) messages through "
        "sendLine/sendString into a fresh receiver x every composition. Each run's event log is compared with the "
        "reference framing. non-trivial = distinct (receiver, stream, position of the first delivery boundary that falls "
        "strictly inside a frame: length prefix, payload or delimiter); the counter segmentations_cutting_a_frame "
        "gives the number of executions with such a boundary")
BOUNDS = {"quick": "A: length <= 7 (line), 5-6 (netstring), 5-7 (intN); B: <= 3 tokens; C: <= 2 messages; MAX_LENGTH in {1,2,3,4,10}",
          "thorough": "A: length <= 8 (line), 6-7 (netstring), 6-8 (intN); B: <= 4 tokens; C: <= 3 messages"}
ASSUMPTIONS = [
    "deliveries stop at the first transport.loseConnection (as a TCP transport does); events after it are ignored",
    "a paused receiver is resumed by the harness right after the delivery that paused it, or (second mode) "
    "after exactly one more delivery has arrived while it was paused",
    "an oversize notification for a still incomplete line is accepted (not required) once the bytes seen cannot "
    "be completed to a line within MAX_LENGTH; for netstrings a too-large partial length may or may not close early",
    "every message / raw chunk / oversize notification is tagged when it arrives between the receiver's own "
    "pauseProducing() and the matching resumeProducing(); the reference never has such an event",
    "oversize notification arguments are ignored except IntNStringReceiver.lengthLimitExceeded(length)",
]
MIN = {"quick": {"evaluations": 2700000, "nontrivial": 400000, "outcomes": 10},
       "thorough": {"evaluations": 33000000, "nontrivial": 3400000, "outcomes": 10}}

KNOWN_LINEONLY = "LineOnlyReceiver:oversize-at-max-with-split-delimiter"
KNOWN_INTN = "IntNStringReceiver:resumeProducing-inside-stringReceived-redelivers"


class Runaway(BaseException):
    pass


class T:
    """Minimal recording transport: a close request is an event in the protocol's log."""
    disconnecting = False

    def __init__(self, log):
        self.log = log
        self.out = []

    def write(self, data):
        self.out.append(bytes(data))

    def writeSequence(self, seq):
        self.out.append(b"".join(seq))

    def loseConnection(self):
        self.log.append(("C",))
        self.disconnecting = True

    def pauseProducing(self):
        pass

    def resumeProducing(self):
        pass

    def stopProducing(self):
        pass


class Rec:
    """Recording/scripted behaviour shared by all receivers under test."""
    pausable = False
    harness_paused = False
    in_pause = False        # between our pauseProducing() and the matching resumeProducing()
    cap = 64

    def ev(self, e):
        if self.in_pause and e[0] in "MRX":
            e = e + ("while-paused",)
        self.log.append(e)
        if len(self.log) > self.cap:
            raise Runaway()

    def command(self, msg):
        if msg == b"q":
            self.transport.loseConnection()
        elif self.pausable and msg == b"p":
            self.pauseProducing()
            self.in_pause = True
            self.harness_paused = True
        elif self.pausable and msg == b"P":
            self.pauseProducing()
            self.in_pause = True
            self.in_pause = False
            self.resumeProducing()


class LineOnly(Rec, basic.LineOnlyReceiver):
    def lineReceived(self, line):
        self.ev(("M", line))
        self.command(line)

    def lineLengthExceeded(self, line):
        self.ev(("X",))
        return basic.LineOnlyReceiver.lineLengthExceeded(self, line)


class LineRecv(Rec, basic.LineReceiver):
    pausable = True
    need = 0

    def lineReceived(self, line):
        self.ev(("M", line))
        if line == b"r":
            self.need = 2
            self.setRawMode()
        else:
            self.command(line)

    def rawDataReceived(self, data):
        take, rest = data[:self.need], data[self.need:]
        self.need -= len(take)
        self.ev(("R", take))
        if self.need == 0:
            self.setLineMode(rest)

    def lineLengthExceeded(self, line):
        self.ev(("X",))
        return basic.LineReceiver.lineLengthExceeded(self, line)


class Netstr(Rec, basic.NetstringReceiver):
    def stringReceived(self, s):
        self.ev(("M", s))
        self.command(s)


class IntN(Rec):
    pausable = True

    def stringReceived(self, s):
        self.ev(("M", s))
        self.command(s)

    def lengthLimitExceeded(self, length):
        self.ev(("X", length))
        return basic.IntNStringReceiver.lengthLimitExceeded(self, length)


class Int8(IntN, basic.Int8StringReceiver):
    pass


class Int16(IntN, basic.Int16StringReceiver):
    pass


class Int32(IntN, basic.Int32StringReceiver):
    pass


KINDS = {"lineonly": LineOnly, "line": LineRecv, "netstring": Netstr, "int8": Int8, "int16": Int16, "int32": Int32}
NAMES = {"lineonly": "LineOnlyReceiver", "line": "LineReceiver", "netstring": "NetstringReceiver",
         "int8": "IntNStringReceiver", "int16": "IntNStringReceiver", "int32": "IntNStringReceiver"}
PREFIX = {"int8": 1, "int16": 2, "int32": 4}


def make(kind, maxlen, delim):
    p = KINDS[kind]()
    p.MAX_LENGTH = maxlen
    if delim is not None:
        p.delimiter = delim
    p.log = []
    t = T(p.log)
    p.makeConnection(t)
    return p, t


def normalise(log):
    out = []
    for e in log:
        if e[0] == "R" and out and out[-1][0] == "R" and len(e) == len(out[-1]):
            out[-1] = ("R", out[-1][1] + e[1]) + e[2:]
        elif e[0] == "R" and not e[1]:
            continue
        else:
            out.append(e)
        if e[0] == "C":
            break
    return out


def execute(kind, maxlen, delim, segs, late=False):
    """late: after a pause the harness resumes only after one more delivery has arrived (a transport that
    had already read the next segment), otherwise right after the delivery that paused."""
    p, t = make(kind, maxlen, delim)
    p.cap = 4 + sum(len(s) for s in segs)          # every legitimate event consumes at least one byte

    def resume():
        n = 0
        while p.harness_paused and not t.disconnecting and n < 40:
            p.harness_paused = False
            p.in_pause = False
            p.resumeProducing()
            n += 1
    try:
        owed = False
        for seg in segs:
            if t.disconnecting:
                break
            p.dataReceived(seg)
            if late and p.harness_paused and not owed:
                owed = True
                continue
            owed = False
            resume()
        resume()
    except Runaway:
        got = normalise(p.log)
        return got if got and got[-1] == ("C",) else got + [("RUNAWAY",)]
    return normalise(p.log)


# ---------------------------------------------------------------- reference framers (boring on purpose)

def proper_prefix_suffix(tail, delim):
    """Length of the longest proper, non-empty prefix of delim that is a suffix of tail."""
    for j in range(min(len(delim) - 1, len(tail)), 0, -1):
        if tail.endswith(delim[:j]):
            return j
    return 0


def ref_lines(kind, maxlen, delim, s):
    """-> (required events, optional tail events, frames) ; frames = [(start, end_of_content, end)] of complete lines."""
    ev, pos, need, frames = [], 0, 0, []
    n = len(s)
    while pos < n:
        if need:
            take = s[pos:pos + need]
            ev.append(("R", take))
            need -= len(take)
            pos += len(take)
            continue
        i = s.find(delim, pos)
        if i < 0:
            tail = s[pos:]
            j = proper_prefix_suffix(tail, delim)
            if len(tail) - j > maxlen:
                return normalise(ev), [("X",), ("C",)], frames
            return normalise(ev), None, frames
        line = s[pos:i]
        frames.append((pos, i, i + len(delim)))
        pos = i + len(delim)
        if len(line) > maxlen:
            ev += [("X",), ("C",)]
            break
        ev.append(("M", line))
        if line == b"q":
            ev.append(("C",))
            break
        if kind == "line" and line == b"r":
            need = 2
    return normalise(ev), None, frames


def ref_netstring(maxlen, s, ends):
    ev, pos, n = [], 0, len(s)
    while pos < n:
        i = pos
        while i < n and 48 <= s[i] <= 57:
            i += 1
        digits = s[pos:i]
        if not digits:
            return ev + [("C",)], None             # not a length
        if len(digits) > 1 and digits[0] == 48:
            return ev + [("C",)], None             # leading zero
        if int(digits) > maxlen:
            if i == n:
                return ev, [("C",)]                # partial length already too large: may close now or later
            return ev + [("C",)], None
        if i == n:
            return ev, None                        # length may still grow
        if s[i] != 58:
            return ev + [("C",)], None
        length = int(digits)
        start = i + 1
        if n - start < length + 1:
            return ev, None                        # payload (+ comma) incomplete
        if s[start + length] != 44:
            return ev + [("C",)], None
        msg = s[start:start + length]
        ev.append(("M", msg))
        if msg == b"q":
            return ev + [("C",)], None
        pos = start + length + 1
        ends.add(pos)
    return ev, None


def ref_intn(kind, maxlen, s, ends):
    ev, pos, n, w = [], 0, len(s), PREFIX[kind]
    while n - pos >= w:
        length = int.from_bytes(s[pos:pos + w], "big")
        if length > maxlen:
            return ev + [("X", length), ("C",)], None
        if n - pos - w < length:
            break
        msg = s[pos + w:pos + w + length]
        ev.append(("M", msg))
        if msg == b"q":
            return ev + [("C",)], None
        pos += w + length
        ends.add(pos)
    return ev, None


def reference(kind, maxlen, delim, s):
    if kind in ("lineonly", "line"):
        req, opt, frames = ref_lines(kind, maxlen, delim, s)
        return req, opt, frames
    ends = set()
    if kind == "netstring":
        req, opt = ref_netstring(maxlen, s, ends)
    else:
        req, opt = ref_intn(kind, maxlen, s, ends)
    return req, opt, ends


def classify(kind, maxlen, delim, stream, segs, got, req, opt, frames):
    """None if the log is acceptable, else a signature suffix."""
    if got == req or (opt is not None and got == req + opt):
        return None
    name = NAMES[kind]
    if any(e[-1] == "while-paused" for e in got):
        return name + ":delivered-between-pauseProducing-and-resumeProducing"
    if got and got[-1] == ("RUNAWAY",):
        if kind.startswith("int") and ("M", b"P") in req:
            return KNOWN_INTN
        return name + ":unbounded-redelivery"
    if kind.startswith("int") and ("M", b"P") in req:
        return KNOWN_INTN
    # first difference
    i = 0
    while i < len(got) and i < len(req) and got[i] == req[i]:
        i += 1
    g = got[i] if i < len(got) else None
    r = req[i] if i < len(req) else None
    if g is not None and g[0] == "X" and (r is None or r[0] == "M"):
        if kind == "lineonly":
            # the known shape: a line of n <= MAX bytes, then a delivery (or the stream) ends inside the delimiter
            nlines = sum(1 for e in req[:i] if e[0] == "M")
            start = frames[nlines][0] if nlines < len(frames) else (frames[-1][2] if frames else 0)
            rest = stream[start:]
            k = rest.find(delim)
            content = len(rest) - proper_prefix_suffix(rest, delim) if k < 0 else k
            bounds, p = set(), 0
            for sg in segs:
                p += len(sg)
                bounds.add(p)
            if content <= maxlen and any(start + content + j in bounds and content + j > maxlen
                                         and stream[start + content:start + content + j] == delim[:j]
                                         for j in range(1, len(delim))):
                return KNOWN_LINEONLY
        return name + (":within-max-message-rejected" if r is not None else ":oversize-reported-for-incomplete-message-within-max")
    if g is not None and g[0] == "M" and r is not None and r[0] == "X":
        return name + ":oversize-message-delivered"
    if g is not None and g[0] == "M" and r is not None and r[0] == "M":
        return name + ":wrong-message-delivered"
    if g is None and r is not None:
        return name + {"M": ":message-not-delivered", "X": ":oversize-not-reported", "C": ":connection-not-closed",
                       "R": ":raw-data-not-delivered"}[r[0]]
    if g is not None and r is None:
        return name + {"M": ":spurious-message", "X": ":spurious-oversize", "C": ":spurious-close",
                       "R": ":spurious-raw-data", "RUNAWAY": ":unbounded-redelivery"}[g[0]]
    if g[0] == "C" and r[0] in "MR":
        return name + ":closed-instead-of-delivering"
    if g[0] in "MR" and r[0] == "C":
        return name + ":delivered-instead-of-closing"
    if g is not None and g[0] == "X" and r[0] == "X":
        return name + ":oversize-length-argument"
    return name + ":event-log-differs"


# ---------------------------------------------------------------- enumeration

def all_segs(s, tier):
    n = len(s)
    if n <= 9:
        for comp in compositions(n):
            out, i = [], 0
            for c in comp:
                out.append(s[i:i + c])
                i += c
            yield tuple(out)
        return
    if n <= 16:
        for seg in cuts(s, 2):
            yield seg
    else:
        for seg in cuts(s, 1):
            yield seg
        for i in range(1, n - 1):          # two cuts isolating a 1- or 2-byte delivery
            yield (s[:i], s[i:i + 1], s[i + 1:])
            if i + 2 < n:
                yield (s[:i], s[i:i + 2], s[i + 2:])
    yield tuple(s[i:i + 1] for i in range(n))


def inside_frame(kind, delim, segs, frames, stream):
    """non-triviality: position of the first delivery boundary that is not a frame boundary (0 = none)."""
    if len(segs) < 2:
        return 0
    ends = frames if isinstance(frames, set) else {f[2] for f in frames}
    p = 0
    for sg in segs[:-1]:
        p += len(sg)
        if p not in ends:
            return p
    return 0


def configs(tier, seed):
    """(kind, MAX_LENGTH, delimiter, part, alphabet/tokens, bound)."""
    f = bytes([b"abc"[seed % 3]])
    q = tier == "quick"
    out = []
    # (A) exhaustive strings
    for kind in ("lineonly", "line"):
        for m in (2, 3):
            out.append((kind, m, b"\r\n", "A", (f, b"\r", b"\n"), 7 if q else 8))
    out.append(("lineonly", 2, b"\n", "A", (f, b"\n", b"\r"), 6 if q else 7))
    out.append(("line", 2, b"\n", "A", (f, b"\n", b"r"), 6 if q else 7))
    out.append(("line", 1, b"\n", "A", (f, b"\n", b"r", b"p", b"P"), 5 if q else 6))
    out.append(("netstring", 1, None, "A", (b"0", b"1", b"2", b":", b",", f), 5 if q else 6))
    out.append(("netstring", 10, None, "A", (b"0", b"1", b":", b",", f), 6 if q else 7))
    out.append(("netstring", 2, None, "A", (b"2", b"3", b":", b",", f), 6 if q else 7))
    out.append(("int8", 2, None, "A", (b"\x00", b"\x01", b"\x02", b"\x03", f, b"p", b"P"), 5 if q else 6))
    out.append(("int16", 2, None, "A", (b"\x00", b"\x01", b"\x02", b"\x03", f), 6 if q else 7))
    out.append(("int32", 1, None, "A", (b"\x00", b"\x01", b"\x02", f), 6 if q else 8))
    # (B) grammar tokens
    k = 3 if q else 4
    for m in (4, 10):
        body = [f * (m - 1), f * m, f * (m + 1), f * (m + 2)]
        out.append(("lineonly", m, b"\r\n", "B", tuple(body + [b"\r\n", b"\r", b"\n", b"q\r\n", f]), k))
        out.append(("line", m, b"\r\n", "B", tuple(body + [b"\r\n", b"\r", b"\n", b"q\r\n", b"p\r\n", b"P\r\n", b"r\r\n", f]), k))
    out.append(("lineonly", 3, b"\r\n\n", "B", (f * 2, f * 3, f * 4, b"\r\n\n", b"\r", b"\r\n", b"\n", f), k))
    out.append(("line", 3, b"\r\n\n", "B", (f * 2, f * 3, f * 4, f * 6, b"\r\n\n", b"\r", b"\r\n", b"\n", b"r\r\n\n", b"p\r\n\n"), k))
    for m in (4, 10):
        def ns(x):
            return str(len(x)).encode() + b":" + x + b","
        out.append(("netstring", m, None, "B", (ns(f * (m - 1)), ns(f * m), ns(f * (m + 1)), ns(b""), ns(b"q"),
                                                 str(m).encode(), str(m + 1).encode(), b":", b",", f, b"0", b"1"), k))
    for kind, w in (("int8", 1), ("int16", 2), ("int32", 4)):
        m = 4

        def fr(x):
            return len(x).to_bytes(w, "big") + x
        toks = [fr(f * (m - 1)), fr(f * m), fr(f * (m + 1)), fr(b""), fr(b"q"), fr(b"p"), (m + 1).to_bytes(w, "big"), b"\x00", f]
        if w == 1:
            toks.append(fr(b"P"))      # re-entrant resume: same code for every prefix width
        out.append((kind, m, None, "B", tuple(toks), k))
    # (C) send round trip
    nm = 2 if q else 3
    out.append(("lineonly", 3, b"\r\n", "C", (b"", f, f * 3, b"\r", b"\n", f + b"\r", b"\n\r" + f), nm))
    out.append(("line", 3, b"\r\n", "C", (b"", f, f * 3, b"\r", b"\n", f + b"\r", b"\n\r" + f), nm))
    out.append(("netstring", 3, None, "C", (b"", f, f * 3, b",", b":", b"1:" + f, b"0:,"), nm))
    for kind in ("int8", "int16", "int32"):
        out.append((kind, 3, None, "C", (b"", f, f * 3, b"\x00", b"\x00\x01", b"\x01" + f), nm))
    out.append(("int8", 99999, None, "Cbig", (255, 256), 1))
    out.append(("int16", 99999, None, "Cbig", (65535, 65536), 1))
    return out


def streams_of(cfg, first):
    kind, m, delim, part, alpha, bound = cfg
    if part == "A":
        # all strings of length 1..bound whose first symbol is alpha[first]
        for n in range(1, bound + 1):
            for rest in itertools.product(alpha, repeat=n - 1):
                yield alpha[first] + b"".join(rest)
    elif part == "B":
        for n in range(1, bound + 1):
            for rest in itertools.product(alpha, repeat=n - 1):
                s = alpha[first] + b"".join(rest)
                if s:
                    yield s


def shards(tier, seed):
    out = []
    for ci, cfg in enumerate(configs(tier, seed)):
        if cfg[3] in ("A", "B"):
            for first in range(len(cfg[4])):
                out.append([ci, first])
        else:
            out.append([ci, 0])
    return out


def check_stream(st, cfg, s, tier, seen):
    kind, m, delim, part = cfg[:4]
    if s in seen:
        return
    seen.add(s)
    req, opt, frames = reference(kind, m, delim, s)
    for e in req:
        st.outcome(NAMES[kind][:4] + ":" + e[0])
    if opt:
        st.outcome("optional-tail-oversize")
    whole = None
    modes = (False, True) if (KINDS[kind].pausable and b"p" in s) else (False,)
    for segs in all_segs(s, tier):
        for late in modes:
            if late and len(segs) < 2:
                continue
            got = execute(kind, m, delim, segs, late)
            st.evaluations += 1
            if whole is None:
                whole = got
            cutpos = inside_frame(kind, delim, segs, frames, s)
            if cutpos:
                st.nt(hash((kind, m, delim, s, cutpos)))
                st.count("segmentations_cutting_a_frame")
            if late:
                st.outcome("delivery-while-paused")
            sig = classify(kind, m, delim, s, segs, got, req, opt, frames)
            if sig is None and got != whole and classify(kind, m, delim, s, (s,), whole, req, opt, frames) is None:
                sig = NAMES[kind] + ":segmentation-changes-events"
            if sig is not None:
                st.violation(sig, {"stream": s, "segments": list(segs), "got": got, "reference": req, "optional": opt,
                                   "whole_delivery": whole, "MAX_LENGTH": m, "resume_after_next_delivery": late},
                             {"kind": kind, "max": m, "delim": delim, "segments": list(segs), "mode": "recv", "late": late})
                st.outcome("violation")


def send_case(kind, m, delim, msgs):
    """Send msgs through the real send method; returns (wire bytes, raised exception type names)."""
    p, t = make(kind, m, delim)
    raised = []
    for x in msgs:
        try:
            if kind in ("lineonly", "line"):
                p.sendLine(x)
            else:
                p.sendString(x)
        except basic.StringTooLongError:
            raised.append("StringTooLongError")
    return b"".join(t.out), raised


def check_send(st, cfg, tier):
    kind, m, delim, part, alpha, bound = cfg
    name = NAMES[kind]
    if part == "Cbig":
        for n in alpha:
            wire, raised = send_case(kind, m, delim, [b"z" * n])
            limit = 256 ** PREFIX[kind]
            st.evaluations += 1
            if n >= limit:
                st.outcome("send-refused")
                if raised != ["StringTooLongError"] or wire:
                    st.violation(name + ":too-long-string-not-refused-by-sendString", {"length": n, "wire": len(wire)},
                                 {"kind": kind, "max": m, "delim": delim, "mode": "sendbig", "n": n})
                continue
            for segs in ((wire,), (wire[:1], wire[1:]), (wire[:PREFIX[kind]], wire[PREFIX[kind]:]), (wire[:-1], wire[-1:])):
                got = execute(kind, m, delim, segs)
                st.evaluations += 1
                st.nt(hash((kind, n, len(segs[0]))))
                if got != [("M", b"z" * n)]:
                    st.violation(name + ":sent-message-not-received-exactly", {"length": n, "got": repr(got)[:200]},
                                 {"kind": kind, "max": m, "delim": delim, "mode": "sendbig", "n": n})
        return
    for k in range(1, bound + 1):
        for msgs in itertools.product(alpha, repeat=k):
            wire, raised = send_case(kind, m, delim, msgs)
            exp = [("M", x) for x in msgs]
            st.outcome("sent-%d" % k)
            frames = reference(kind, m, delim, wire)[2]
            for segs in all_segs(wire, tier):
                got = execute(kind, m, delim, segs)
                st.evaluations += 1
                if len(segs) > 1:
                    st.nt(hash((kind, "send", msgs, len(segs[0]))))
                if got != exp or raised:
                    sig = classify(kind, m, delim, wire, segs, got, exp, None, frames)
                    st.violation(sig if sig == KNOWN_LINEONLY else name + ":sent-message-not-received-exactly",
                                 {"messages": list(msgs), "wire": wire, "segments": list(segs), "got": got},
                                 {"kind": kind, "max": m, "delim": delim, "mode": "send", "messages": list(msgs),
                                  "segments": list(segs)})


def run_shard(shard, tier, seed):
    ci, first = shard
    cfg = configs(tier, seed)[ci]
    st = Stats()
    if cfg[3] in ("A", "B"):
        seen = set()
        for s in streams_of(cfg, first):
            check_stream(st, cfg, s, tier, seen)
        if seen:
            s = max(seen, key=len)
            st.sample({"receiver": cfg[0], "MAX_LENGTH": cfg[1], "stream": s, "reference": reference(cfg[0], cfg[1], cfg[2], s)[0]}, 2)
    else:
        check_send(st, cfg, tier)
    return st


def _tup(x):
    if isinstance(x, list):
        return tuple(_tup(i) for i in x)
    return x


def replay(w):
    kind, m, delim = w["kind"], w["max"], w.get("delim")
    out = []
    if w["mode"] == "recv":
        segs = tuple(w["segments"])
        s = b"".join(segs)
        req, opt, frames = reference(kind, m, delim, s)
        got = execute(kind, m, delim, segs, bool(w.get("late")))
        sig = classify(kind, m, delim, s, segs, got, req, opt, frames)
        whole = execute(kind, m, delim, (s,))
        if sig is None and got != whole and classify(kind, m, delim, s, (s,), whole, req, opt, frames) is None:
            sig = NAMES[kind] + ":segmentation-changes-events"
        if sig:
            out.append((sig, {"got": got, "reference": req, "optional": opt}))
    elif w["mode"] == "send":
        msgs = w["messages"]
        wire, raised = send_case(kind, m, delim, msgs)
        segs = tuple(w["segments"])
        got = execute(kind, m, delim, segs)
        exp = [("M", x) for x in msgs]
        if got != exp or raised or wire != b"".join(segs):
            sig = classify(kind, m, delim, wire, segs, got, exp, None, reference(kind, m, delim, wire)[2])
            out.append((sig if sig == KNOWN_LINEONLY else NAMES[kind] + ":sent-message-not-received-exactly", {"got": got, "wire": wire}))
    else:
        n = w["n"]
        wire, raised = send_case(kind, m, delim, [b"z" * n])
        if n >= 256 ** PREFIX[kind]:
            if raised != ["StringTooLongError"] or wire:
                out.append((NAMES[kind] + ":too-long-string-not-refused-by-sendString", {"length": n}))
        elif execute(kind, m, delim, (wire,)) != [("M", b"z" * n)]:
            out.append((NAMES[kind] + ":sent-message-not-received-exactly", {"length": n}))
    return out
