"""C55 twisted.logger text formatting is total: returns text, never raises.

Every event of three finite product spaces is built from labelled domains and
handed to every event text-formatting function; the oracle is only "returned
str (or the documented None), did not raise".  A failing case is greedily
minimised (each field reset to its default while the failure persists) and the
signature is built from the fields that remain, by class.
"""
import itertools

from mc.runner import Stats

ID = "C55"
LEVEL = "exploration"
TECHNIQUE = "exhaustive product of labelled hostile-value domains, totality oracle, greedy witness minimisation"
RULE = ("space A = log_format x value of field 'a' x log_flattened variant x {no, benign} system fields x "
        "{no, hostile} extra key; space B = {plain, unformattable, missing, None} format x log_time x log_system x "
        "log_level x log_namespace x log_failure; space C = legacy event dicts (message x isError x failure x why x "
        "%-format x value).  Every event goes through formatEvent, eventAsText (flag combinations), "
        "formatEventAsClassicLogText, formatUnformattableEvent (A) or textFromEventDict (C).  non-trivial = the event "
        "holds at least one value outside the benign class of its domain (raising (Exception or a non-Exception BaseException subclass)/non-text str, repr, "
        "format, getattr, call; malformed or non-str format; odd time/system/level/namespace/failure)")
BOUNDS = {"quick": "A: 40 formats x 31 values x (4 log_flattened x {no, benign} system fields + hostile extra keys), "
                   "5 API variants; B1: 3 formats x 15 x 9 x 9 x 7 x 8 system-field product, B2: unformattable event x "
                   "<= 2 non-default system fields, B3: the truth-testing labels (__bool__/__len__ raising, falsy 0/''/[]) x <= 2 fields, 5 API variants; C: full product of the legacy domains",
          "thorough": "A also crossed with 3 values of the nested-spec field 'w' and all 8 eventAsText flag "
                      "combinations; B with all flag combinations and B2 with <= 3 non-default system fields"}
ASSUMPTIONS = [
    "hostile objects raise Exception subclasses or a harness-defined BaseException subclass (standing for "
    "GeneratorExit-like exceptions); KeyboardInterrupt/SystemExit are not used (they would end the worker)",
    "log_failure is a real Failure, None, a non-Failure without getTraceback, or an object whose getTraceback "
    "raises; duck-typed objects returning non-text tracebacks are not failures",
    "formatEventAsClassicLogText and textFromEventDict may return None where their documentation says so",
    "legacy event dicts always carry 'message' (a tuple) and 'isError', as twisted.python.log guarantees",
]
MIN = {"quick": {"evaluations": 840000, "nontrivial": 820000, "outcomes": 8},
       "thorough": {"evaluations": 2600000, "nontrivial": 2550000, "outcomes": 8}}


# ----------------------------------------------------------------- hostile values

class Hostile(Exception):
    pass


class HostileBase(BaseException):
    """A BaseException that is not an Exception (like GeneratorExit), but harmless to the worker process."""


class AllRaiseBase:
    def __str__(self):
        raise HostileBase("str")

    def __repr__(self):
        raise HostileBase("repr")

    def __format__(self, spec):
        raise HostileBase("format")

    def __getattr__(self, name):
        raise HostileBase("getattr")

    def __getitem__(self, k):
        raise HostileBase("getitem")

    def __call__(self):
        raise HostileBase("call")

    def __index__(self):
        raise HostileBase("index")

    def __float__(self):
        raise HostileBase("float")


class StrRaisesBase:
    def __str__(self):
        raise HostileBase("str")


class ReprRaisesBase:
    def __repr__(self):
        raise HostileBase("repr")


class FormatRaisesBase:
    def __format__(self, spec):
        raise HostileBase("format")


class TracebackRaisesBase:
    def getTraceback(self, *a, **k):
        raise HostileBase("getTraceback")


def _raise_call_base():
    raise HostileBase("call")


class BoolRaises:
    """Cannot be truth-tested (like an array with an ambiguous truth value); str/repr/format are fine."""

    def __bool__(self):
        raise Hostile("bool")


class BoolRaisesBase:
    def __bool__(self):
        raise HostileBase("bool")


class LenRaises:
    def __len__(self):
        raise Hostile("len")


# labels added for truth-testing; they are crossed pairwise (space B3), not in the full product B1
TRUTH = {"bool-raises": ("truth-hostile", BoolRaises), "bool-raises-base": ("truth-hostile-base", BoolRaisesBase),
         "len-raises": ("truth-hostile", LenRaises), "falsy-zero": ("falsy", lambda: 0),
         "falsy-empty-str": ("falsy", lambda: ""), "falsy-empty-list": ("falsy", lambda: [])}


class VeryHostile(Exception):
    """An exception that cannot itself be rendered."""

    def __str__(self):
        raise Hostile("str of exception")

    __repr__ = __str__


class StrRaises:
    def __str__(self):
        raise Hostile("str")


class ReprRaises:
    def __repr__(self):
        raise Hostile("repr")


class FormatRaises:
    def __format__(self, spec):
        raise Hostile("format")


class StrNonText:
    def __str__(self):
        return b"bytes"


class ReprNonText:
    def __repr__(self):
        return None


class FormatNonText:
    def __format__(self, spec):
        return 5


class AllRaise:
    def __str__(self):
        raise Hostile("str")

    def __repr__(self):
        raise Hostile("repr")

    def __format__(self, spec):
        raise Hostile("format")

    def __getattr__(self, name):
        raise Hostile("getattr")

    def __getitem__(self, k):
        raise Hostile("getitem")

    def __call__(self):
        raise Hostile("call")


class RaisesVeryHostile:
    def __str__(self):
        raise VeryHostile()

    __repr__ = __str__

    def __format__(self, spec):
        raise VeryHostile()


class GetattrRaises:
    def __getattr__(self, name):
        raise RuntimeError("getattr")

    def __getitem__(self, k):
        raise RuntimeError("getitem")


class Obj:
    def __init__(self, **kw):
        self.__dict__.update(kw)

    def __repr__(self):
        return "<Obj>"


class TracebackRaises:
    def getTraceback(self, *a, **k):
        raise Hostile("getTraceback")


def _raised_failure(exc):
    from twisted.python.failure import Failure
    try:
        raise exc
    except Exception:
        return Failure()


def _failure(exc):
    from twisted.python.failure import Failure
    return Failure(exc)


def _level(name):
    from twisted.logger import LogLevel
    return LogLevel.lookupByName(name)


def _foreign_constant():
    from twisted.logger import PredicateResult
    return PredicateResult.maybe


def _raise_call():
    raise Hostile("call")


ABSENT = object()

# label -> (class, factory).  class "ok" = benign member of the domain.
VALUES = {
    "str": ("ok", lambda: "xy"),
    "int": ("ok", lambda: 7),
    "none": ("ok", lambda: None),
    "list": ("ok", lambda: [1, "x"]),
    "dict": ("ok", lambda: {"k": 1, "0": 2}),
    "obj": ("ok", lambda: Obj(b=Obj(c=1), k=3)),
    "callable": ("ok", lambda: (lambda: Obj(b=2))),
    "bytes-invalid": ("ok", lambda: b"\xff\xfe"),
    "str-raises": ("hostile", StrRaises),
    "repr-raises": ("hostile", ReprRaises),
    "format-raises": ("hostile", FormatRaises),
    "str-nontext": ("hostile", StrNonText),
    "repr-nontext": ("hostile", ReprNonText),
    "format-nontext": ("hostile", FormatNonText),
    "all-raise": ("hostile", AllRaise),
    "raises-unrenderable-exception": ("hostile", RaisesVeryHostile),
    "getattr-raises": ("hostile", GetattrRaises),
    "call-raises": ("hostile", lambda: _raise_call),
    "call-returns-hostile": ("hostile", lambda: (lambda: AllRaise())),
    "list-of-hostile": ("hostile", lambda: [AllRaise()]),
    "dict-of-hostile": ("hostile", lambda: {"k": AllRaise(), "0": StrRaises()}),
    "attr-hostile": ("hostile", lambda: Obj(b=AllRaise())),
    "failure": ("ok", lambda: _failure(ValueError("v"))),
    "failure-unrenderable": ("hostile", lambda: _raised_failure(VeryHostile())),
    "str-raises-base": ("hostile-base", StrRaisesBase),
    "repr-raises-base": ("hostile-base", ReprRaisesBase),
    "format-raises-base": ("hostile-base", FormatRaisesBase),
    "all-raise-base": ("hostile-base", AllRaiseBase),
    "call-raises-base": ("hostile-base", lambda: _raise_call_base),
    "list-of-base-raisers": ("hostile-base", lambda: [AllRaiseBase()]),
    "attr-base-raiser": ("hostile-base", lambda: Obj(b=AllRaiseBase())),
}

FORMATS = {
    "absent": ("ok", lambda: ABSENT),
    "none": ("ok", lambda: None),
    "empty": ("ok", lambda: ""),
    "plain": ("ok", lambda: "plain"),
    "{a}": ("field", lambda: "<{a}>"),
    "{a.b}": ("field", lambda: "{a.b}"),
    "{a.b.c}": ("field", lambda: "{a.b.c}"),
    "{a[0]}": ("field", lambda: "{a[0]}"),
    "{a[k]}": ("field", lambda: "{a[k]}"),
    "{a!r}": ("field", lambda: "{a!r}"),
    "{a!s}": ("field", lambda: "{a!s}"),
    "{a!a}": ("field", lambda: "{a!a}"),
    "{a:>5}": ("field", lambda: "{a:>5}"),
    "{a:>{w}}": ("field", lambda: "{a:>{w}}"),
    "{a!r:>{w}}": ("field", lambda: "{a!r:>{w}}"),
    "{a()}": ("field", lambda: "{a()}"),
    "{a.b()}": ("field", lambda: "{a.b()}"),
    "{a().b}": ("field", lambda: "{a().b}"),
    "{a}{a}": ("field", lambda: "{a} {a!r} {a}"),
    "{a:zz}": ("malformed", lambda: "{a:zz}"),
    "{a!x}": ("malformed", lambda: "{a!x}"),
    "{a!}": ("malformed", lambda: "{a!}"),
    "{": ("malformed", lambda: "x{"),
    "}": ("malformed", lambda: "}x"),
    "{}": ("malformed", lambda: "{}"),
    "{0}": ("malformed", lambda: "{0}"),
    "{a": ("malformed", lambda: "{a"),
    "{a.}": ("malformed", lambda: "{a.}"),
    "{a[}": ("malformed", lambda: "{a[}"),
    "{a[0]x}": ("malformed", lambda: "{a[0]x}"),
    "{{a}}": ("ok", lambda: "{{a}}"),
    "{missing}": ("malformed", lambda: "{missing}"),
    "{log_time}": ("field", lambda: "{log_time} {log_level} {log_system}"),
    "{a:{a}}": ("field", lambda: "{a:{a}}"),
    "deep-nesting": ("malformed", lambda: "{a:{a:{a:{a}}}}"),
    "bytes": ("field", lambda: b"<{a}>"),
    "bytes-invalid-utf8": ("malformed", lambda: b"\xff{a}"),
    "int": ("malformed", lambda: 5),
    "tuple": ("malformed", lambda: ("{a}",)),
    "hostile-object": ("malformed", AllRaise),
}

FLATTENED = {
    "absent": ("ok", lambda a: ABSENT),
    "empty": ("odd", lambda a: {}),
    "none": ("odd", lambda a: None),
    "holds-value": ("odd", lambda a: {"a!s:": a, "a!r:": a, "a.b!s:": a, "a!s:>5": a}),
}

TIMES = {
    "absent": ("ok", lambda: ABSENT),
    "none": ("ok", lambda: None),
    "zero": ("valid", lambda: 0.0),
    "now": ("valid", lambda: 1.0e9 + 0.5),
    "int": ("valid", lambda: 86400),
    "negative": ("valid", lambda: -86400.0),
    "nan": ("unrepresentable", lambda: float("nan")),
    "inf": ("unrepresentable", lambda: float("inf")),
    "-inf": ("unrepresentable", lambda: float("-inf")),
    "1e30": ("unrepresentable", lambda: 1e30),
    "-1e30": ("unrepresentable", lambda: -1e30),
    "2**70": ("unrepresentable", lambda: 2 ** 70),
    "str": ("non-number", lambda: "12"),
    "hostile": ("non-number", AllRaise),
    "raises-base": ("hostile-base", AllRaiseBase),
}

SYSTEMS = {
    "absent": ("ok", lambda: ABSENT),
    "none": ("ok", lambda: None),
    "str": ("ok", lambda: "sys"),
    "empty": ("ok", lambda: ""),
    "int": ("non-str", lambda: 5),
    "bytes": ("non-str", lambda: b"\xff"),
    "str-raises": ("hostile", AllRaise),
    "str-nontext": ("hostile", StrNonText),
    "str-raises-base": ("hostile-base", AllRaiseBase),
}

LEVELS = {
    "absent": ("ok", lambda: ABSENT),
    "none": ("ok", lambda: None),
    "info": ("ok", lambda: _level("info")),
    "critical": ("ok", lambda: _level("critical")),
    "foreign-constant": ("ok", _foreign_constant),
    "str": ("non-constant", lambda: "info"),
    "int": ("non-constant", lambda: 5),
    "hostile": ("non-constant", AllRaise),
    "raises-base": ("hostile-base", AllRaiseBase),
}

NAMESPACES = {
    "absent": ("ok", lambda: ABSENT),
    "none": ("ok", lambda: None),
    "str": ("ok", lambda: "ns.sub"),
    "int": ("non-str", lambda: 5),
    "str-raises": ("hostile", StrRaises),
    "format-raises": ("hostile", FormatRaises),
    "str-raises-base": ("hostile-base", AllRaiseBase),
}

FAILURES = {
    "absent": ("ok", lambda: ABSENT),
    "none": ("not-a-failure", lambda: None),
    "str": ("not-a-failure", lambda: "x"),
    "failure": ("ok", lambda: _failure(ValueError("v"))),
    "raised-failure": ("ok", lambda: _raised_failure(ValueError("v"))),
    "failure-unrenderable": ("hostile", lambda: _raised_failure(VeryHostile())),
    "getTraceback-raises": ("hostile", TracebackRaises),
    "getTraceback-raises-base": ("hostile-base", TracebackRaisesBase),
}

EXTRA = {
    "absent": ("ok", lambda: ABSENT),
    "hostile-key": ("hostile", lambda: 0),
}

for _dom in (VALUES, TIMES, SYSTEMS, LEVELS, NAMESPACES, FAILURES):
    _dom.update(TRUTH)
FORMATS.update({"falsy-zero": ("malformed", lambda: 0), "falsy-empty-list": ("malformed", lambda: []),
                "bool-raises": ("malformed", BoolRaises), "bool-raises-base": ("malformed", BoolRaisesBase)})

DOMAINS = {"log_format": FORMATS, "a": VALUES, "w": VALUES, "log_flattened": FLATTENED, "log_time": TIMES,
           "log_system": SYSTEMS, "log_level": LEVELS, "log_namespace": NAMESPACES, "log_failure": FAILURES,
           "extra": EXTRA}
DEFAULTS = {"log_format": "plain", "a": "str", "w": "int", "log_flattened": "absent", "log_time": "absent",
            "log_system": "absent", "log_level": "absent", "log_namespace": "absent", "log_failure": "absent",
            "extra": "absent"}
ORDER = ["log_failure", "log_flattened", "extra", "log_system", "log_namespace", "log_level", "log_time", "w", "a",
         "log_format"]


def build(spec):
    """Fresh event dict from {field: label}."""
    ev = {}
    a = VALUES[spec.get("a", "str")][1]()
    for field in ("log_format", "log_time", "log_system", "log_level", "log_namespace", "log_failure"):
        v = DOMAINS[field][spec.get(field, DEFAULTS[field])][1]()
        if v is not ABSENT:
            ev[field] = v
    ev["a"] = a
    w = VALUES[spec.get("w", "int")][1]()
    ev["w"] = 4 if spec.get("w", "int") == "int" else w
    fl = FLATTENED[spec.get("log_flattened", "absent")][1](a)
    if fl is not ABSENT:
        ev["log_flattened"] = fl
    if spec.get("extra", "absent") == "hostile-key":
        ev[AllRaise()] = "v"
        ev[None] = AllRaise()
    return ev


def apis(which):
    from twisted.logger import formatEvent, eventAsText, formatEventAsClassicLogText
    from twisted.logger._format import formatUnformattableEvent
    out = [("formatEvent", lambda ev: formatEvent(ev), False)]

    def mk(tb, ts, sy):
        return lambda ev: eventAsText(ev, includeTraceback=tb, includeTimestamp=ts, includeSystem=sy)
    flags = list(itertools.product((True, False), repeat=3))
    if which == "B-quick":
        flags = [(True, True, True), (True, False, True), (True, True, False)]
    elif which == "A-quick":
        flags = [(True, True, True)]     # the flags only select system-field handling, which space B covers
    for tb, ts, sy in flags:
        name = "eventAsText" if (tb, ts, sy) == (True, True, True) else \
            "eventAsText(tb=%d,ts=%d,sys=%d)" % (tb, ts, sy)
        out.append((name, mk(tb, ts, sy), False))
    out.append(("formatEventAsClassicLogText", lambda ev: formatEventAsClassicLogText(ev), True))
    if which.startswith("A"):
        out.append(("formatUnformattableEvent", lambda ev: formatUnformattableEvent(ev, ValueError("e")), False))
        out.append(("formatUnformattableEvent(unrenderable-error)",
                    lambda ev: formatUnformattableEvent(ev, VeryHostile()), False))
    return out


def judge(fn, ev, none_ok):
    """None if fine, else (kind, detail)."""
    try:
        r = fn(ev)
    except (Exception, HostileBase) as e:
        return ("raises", type(e).__name__), None
    if type(r) is str or (r is None and none_ok):
        return None, r
    return ("returns-non-text", type(r).__name__), r


def canonical_api(spec, name, fn, none_ok, kind, table):
    """First API (formatEvent, eventAsText, then the one that failed) showing the same kind of failure."""
    for n2, f2, nok2 in table[:2] + [(name, fn, none_ok)]:
        b, _ = judge(f2, build(spec), nok2)
        if b and b[0] == kind:
            return n2.split("(")[0] if n2.startswith("eventAsText") else n2
    return name


def minimise(spec, fn, none_ok, kind):
    """Greedy 1-minimal witness: reset fields to their defaults while the same kind of failure persists."""
    spec = dict(spec)
    changed = True
    while changed:
        changed = False
        for field in ORDER:
            if spec.get(field, DEFAULTS[field]) == DEFAULTS[field]:
                continue
            trial = dict(spec)
            trial[field] = DEFAULTS[field]
            b, _ = judge(fn, build(trial), none_ok)
            if b and b[0] == kind:
                spec = trial
                changed = True
    return {f: l for f, l in spec.items() if l != DEFAULTS[f]}


def covered(spec, cores):
    """An already minimised failing core (same API, same kind) that this event contains."""
    for core in cores:
        if all(spec.get(f, DEFAULTS[f]) == l for f, l in core.items()):
            return True
    return False


def describe(spec):
    """Minimal shape by class: field=class for every field that is not at its default."""
    parts = []
    for field in sorted(spec):
        lab = spec[field]
        if lab == DEFAULTS[field]:
            continue
        cls = DOMAINS[field][lab][0]
        parts.append("%s=%s" % (field, lab if field == "log_flattened" else cls))
    return ",".join(parts) or "default-event"


def classify_text(st, r):
    if r is None:
        st.outcome("none")
    elif r == "":
        st.outcome("empty")
    elif "MESSAGE LOST" in r:
        st.outcome("message-lost-fallback")
    elif "Unable to format event" in r:
        st.outcome("unformattable-fallback")
    elif "UNFORMATTABLE" in r:
        st.outcome("system-unformattable")
    elif "UNABLE TO OBTAIN TRACEBACK" in r:
        st.outcome("traceback-unavailable")
    elif "Traceback" in r:
        st.outcome("with-traceback")
    else:
        st.outcome("formatted")


def nontrivial(spec):
    return any(DOMAINS[f][spec[f]][0] not in ("ok", "valid", "field") for f in spec)


def eval_spec(st, spec, table, space):
    ev = build(spec)
    nt = nontrivial(spec)
    for name, fn, none_ok in table:
        st.evaluations += 1
        bad, r = judge(fn, ev, none_ok)
        if nt:
            st.nt((space, name, tuple(sorted(spec.items()))))
        if bad is None:
            classify_text(st, r)
            continue
        (kind, what) = bad
        st.outcome(kind)
        cores = st.cores.setdefault((name, kind), [])
        if covered(spec, cores):
            # same API, same failure kind, and the event contains an already reported minimal failing core:
            # every other field combination of this event also occurs without that core elsewhere in the product
            st.count("violating_executions")
            continue
        small = minimise(spec, fn, none_ok, kind)
        cores.append(small)
        api = canonical_api(small, name, fn, none_ok, kind, table)
        sig = "%s:%s:%s" % (api, kind, describe(small))
        st.violation(sig, "%s %s (%s) for event built from %r (minimised from %r)" % (name, kind, what, small, spec),
                     {"space": space, "spec": small, "api": name})


# ----------------------------------------------------------------- legacy (space C)

L_MESSAGE = {"empty": lambda: (), "text": lambda: ("x", "y"), "hostile": lambda: (AllRaise(), StrNonText()),
             "base-raiser": lambda: ("x", AllRaiseBase()),
             "bytes": lambda: (b"\xff", b"ok")}
L_FAILURE = {"absent": lambda: ABSENT, "none": lambda: None, "failure": lambda: _raised_failure(ValueError("v")),
             "failure-unrenderable": lambda: _raised_failure(VeryHostile()), "getTraceback-raises": TracebackRaises,
             "getTraceback-raises-base": TracebackRaisesBase}
L_WHY = {"bool-raises": BoolRaises, "falsy-zero": lambda: 0, "absent": lambda: ABSENT, "none": lambda: None, "text": lambda: "why", "hostile": AllRaise,
         "base-raiser": AllRaiseBase,
         "bytes": lambda: b"\xffwhy"}
L_FORMAT = {"absent": lambda: ABSENT, "none": lambda: None, "%(a)s": lambda: "%(a)s", "%(a)r": lambda: "<%(a)r>",
            "%(a)d": lambda: "%(a)d", "%(missing)s": lambda: "%(missing)s", "%": lambda: "50%", "%s": lambda: "%s %s",
            "plain": lambda: "plain", "bytes": lambda: b"%(a)s", "bytes-plain": lambda: b"plain", "int": lambda: 5, "hostile-object": AllRaise,
            "%(a)": lambda: "%(a)"}
L_DEFAULTS = {"message": "empty", "isError": 0, "failure": "absent", "why": "absent", "format": "absent", "a": "str"}
L_ORDER = ["failure", "why", "a", "isError", "message", "format"]


def l_build(spec):
    ev = {"message": L_MESSAGE[spec["message"]](), "isError": spec["isError"], "a": VALUES[spec["a"]][1](),
          "system": "-", "time": 0.0}
    for k, dom in (("failure", L_FAILURE), ("why", L_WHY), ("format", L_FORMAT)):
        v = dom[spec[k]]()
        if v is not ABSENT:
            ev[k] = v
    return ev


def l_judge(spec):
    from twisted.python.log import textFromEventDict
    try:
        r = textFromEventDict(l_build(spec))
    except (Exception, HostileBase) as e:
        return ("raises", type(e).__name__), None
    if type(r) is str:
        return None, r
    if r is None and spec["message"] == "empty" and spec["format"] == "absent" and not (
            spec["isError"] and spec["failure"] != "absent"):
        return None, r     # documented: "If it cannot handle the dict, it returns None"
    return ("returns-non-text", type(r).__name__), r


def l_describe(spec):
    return ",".join("%s=%s" % (k, VALUES[spec[k]][0] if k == "a" else spec[k])
                    for k in sorted(spec) if spec[k] != L_DEFAULTS[k])


def l_eval(st, spec):
    st.evaluations += 1
    bad, r = l_judge(spec)
    if spec["message"] == "hostile" or spec["a"] != "str" or spec["why"] in ("hostile", "bytes") or \
            spec["failure"] not in ("absent", "failure") or spec["format"] not in ("absent", "plain", "%(a)s"):
        st.nt(("C", tuple(sorted(spec.items()))))
    if bad is None:
        if r is None:
            st.outcome("none")
        elif "UNFORMATTABLE" in r or "PATHOLOGICAL" in r or "Invalid format string" in r:
            st.outcome("legacy-fallback")
        else:
            st.outcome("formatted")
        return
    kind = bad[0]
    small = dict(spec)
    for field in L_ORDER:
        if small[field] == L_DEFAULTS[field]:
            continue
        trial = dict(small)
        trial[field] = L_DEFAULTS[field]
        b, _ = l_judge(trial)
        if b and b[0] == kind:
            small = trial
    if small["failure"] not in ("absent", "failure"):
        trial = dict(small, failure="failure")      # simplest member of the domain that keeps the failure
        b, _ = l_judge(trial)
        if b and b[0] == kind:
            small = trial
    desc = l_describe(small)
    st.outcome(kind)
    st.violation("textFromEventDict:%s:%s" % (kind, desc), "%s (%s) for legacy event %r (minimised from %r)" % (
        kind, bad[1], small, spec), {"space": "C", "spec": small})


# ----------------------------------------------------------------- enumeration

def space_a(tier):
    vals = list(VALUES)
    ws = ["int"] if tier == "quick" else ["int", "all-raise", "str-nontext"]
    for fmt in FORMATS:
        for a in vals:
            for w in ws:
                for fl in FLATTENED:
                    for sysf in (0, 1):
                        spec = {"log_format": fmt, "a": a, "w": w, "log_flattened": fl}
                        if sysf:
                            spec.update(log_time="now", log_system="str", log_level="info", log_namespace="str")
                        yield spec
                yield {"log_format": fmt, "a": a, "w": w, "extra": "hostile-key"}


SYS_FIELDS = ["log_time", "log_system", "log_level", "log_namespace", "log_failure"]


def space_b(tier):
    # B1: formats that do not take the (slow) unformattable fallback x the full product of the system fields
    core = lambda dom: [l for l in dom if l not in TRUTH]
    for fmt in ("plain", "absent", "none"):
        for t in core(TIMES):
            for s in core(SYSTEMS):
                for lv in core(LEVELS):
                    for ns in core(NAMESPACES):
                        for f in core(FAILURES):
                            yield {"log_format": fmt, "a": "str", "log_time": t, "log_system": s, "log_level": lv,
                                   "log_namespace": ns, "log_failure": f}
    # B2: an unformattable event (fallback text reprs the whole event) x every assignment in which at most
    # 2 (thorough: 3) system fields leave their default
    k = 2 if tier == "quick" else 3
    for r in range(k + 1):
        for fields in itertools.combinations(SYS_FIELDS, r):
            doms = [[l for l in DOMAINS[f] if l != DEFAULTS[f]] for f in fields]
            for labels in itertools.product(*doms):
                spec = {"log_format": "{a}", "a": "all-raise"}
                spec.update(zip(fields, labels))
                yield spec
    # B3: formattable events x every assignment (all labels, including the truth-testing ones: __bool__/__len__
    # raising, falsy-but-valid values) in which at most 2 (thorough: 3) system fields leave their default
    for fmt in ("plain", "absent", "none"):
        for r in range(1, k + 1):
            for fields in itertools.combinations(SYS_FIELDS, r):
                doms = [[l for l in DOMAINS[f] if l != DEFAULTS[f]] for f in fields]
                for labels in itertools.product(*doms):
                    if not any(l in TRUTH for l in labels):
                        continue    # already in B1
                    spec = {"log_format": fmt, "a": "str"}
                    spec.update(zip(fields, labels))
                    yield spec


def space_c():
    for m in L_MESSAGE:
        for e in (0, 1):
            for f in L_FAILURE:
                for w in L_WHY:
                    for fmt in L_FORMAT:
                        for a in (VALUES if "(a)" in fmt else ("str",)):   # 'a' is only reachable through %(a)
                            yield {"message": m, "isError": e, "failure": f, "why": w, "format": fmt, "a": a}


NSH = {"A": 12, "B": 28, "C": 4}


def shards(tier, seed):
    return [[sp, k] for sp in ("A", "B", "C") for k in range(NSH[sp])]


def run_shard(shard, tier, seed):
    sp, k = shard
    st = Stats()
    st.cores = {}
    n = NSH[sp]
    last = None
    if sp == "C":
        for i, spec in enumerate(space_c()):
            if i % n == k:
                l_eval(st, spec)
                last = spec
    else:
        table = apis(("A-quick" if tier == "quick" else "A") if sp == "A" else ("B-quick" if tier == "quick" else "B"))
        gen = space_a(tier) if sp == "A" else space_b(tier)
        for i, spec in enumerate(gen):
            if i % n == k:
                eval_spec(st, spec, table, sp)
                last = spec
    st.sample({"space": sp, "spec": last})
    return st


def replay(w):
    spec = w["spec"]
    if w["space"] == "C":
        bad, _ = l_judge(spec)
        if not bad:
            return []
        desc = l_describe(spec)
        return [("textFromEventDict:%s:%s" % (bad[0], desc), bad[1])]
    out = []
    table = apis("A")
    for name, fn, none_ok in table:
        if name != w["api"]:
            continue
        bad, _ = judge(fn, build(spec), none_ok)
        if bad:
            api = canonical_api(spec, name, fn, none_ok, bad[0], table)
            out.append(("%s:%s:%s" % (api, bad[0], describe(spec)), bad[1]))
    return out
