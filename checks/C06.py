"""C06 DeferredLock / DeferredSemaphore: explicit-state search over the real objects with a
list-based FIFO reference (capacity, grant order, cancellation, run() release accounting)."""
from mc.bfs import bfs
from mc.runner import Stats

ID = "C06"
LEVEL = "model_checking"
TECHNIQUE = "explicit-state BFS over real DeferredLock/DeferredSemaphore objects, lock-step list reference"
RULE = ("BFS over histories of new request (acquire; acquire whose callback releases re-entrantly; run(f) with f "
        "returning / raising / returning an unfired Deferred / returning an already fired Deferred that still waits "
        "on an inner unfired Deferred or is pause()d), release by a holder, cancel of a pending, granted or "
        "running request, fire (ok/fail) of a run function's Deferred, on a real DeferredLock and "
        "DeferredSemaphore(1..3). Every transition runs on the real object; the global grant order, the holder "
        "count at every grant (also inside re-entrant cascades), the documented tokens/locked attributes and the "
        "run() results are compared with a FIFO list reference. non-trivial = distinct (canonical state, "
        "exercised case) pairs for transitions in which a request had to wait, a release or a run() result "
        "granted none / one / a re-entrant cascade of waiters, or a pending / granted / running request was cancelled")
BOUNDS = {"quick": "lock + semaphore limits 1..3; depth 8 (5 basic request kinds) and depth 6 (all 7 kinds, incl. "
                   "fired-but-chained and fired-but-paused function Deferreds)",
          "thorough": "lock + semaphore limits 1..3; depth 9 (5 basic request kinds) and depth 7 (all 7 kinds)"}
ASSUMPTIONS = [
    "canonical state = live (pending / held / running) requests in request order with kind and observed status, the "
    "real waiting list mapped to those requests, tokens/locked; completed, released and cancelled requests are "
    "dropped because neither the primitive nor the harness references them again; states are deduplicated on a "
    "64-bit hash of that tuple (PYTHONHASHSEED fixed by ./check)",
    "a run() whose function has been invoked counts as a holder until the function's result exists; cancelling a "
    "running run() is followed by observing whether the function's Deferred now has a result (either is accepted)",
]
MIN = {"quick": {"states": 600000, "nontrivial": 650000, "outcomes": 14},
       "thorough": {"states": 600000, "nontrivial": 650000, "outcomes": 14}}

LEVEL_TEXT = ("every history of the alphabet up to the depth bound is executed on the real primitive and compared "
              "step by step with a FIFO list reference; a pass means no such history breaks capacity, FIFO grant "
              "order, cancellation or run() release accounting")
LEVEL_NOTE = ("bounded: limits 1..3, depth 8/9; callbacks re-enter only through release(); acquire() from inside a "
              "callback and user cancellers are outside the alphabet")

CONFIGS = [("lock", 1), ("sem", 1), ("sem", 2), ("sem", 3)]
KINDS = ["A", "AR", "RV", "RX", "RD"]
# RC: f returns a Deferred that is already fired (.called) but whose chain waits on an inner unfired
#     Deferred (fired ok/fail later); RP: f returns a Deferred that is already fired but pause()d
#     (unpaused later).  In both the function's result is not available yet although .called is True.
KINDS_ALL = KINDS + ["RC", "RP"]
LATE = ("RD", "RC", "RP")     # run() kinds whose function result arrives later
# families (request kinds, depth) per tier
FAMILIES = {"quick": [(KINDS, 8), (KINDS_ALL, 6)], "thorough": [(KINDS, 9), (KINDS_ALL, 7)]}


class FnError(Exception):
    pass


class Req:
    __slots__ = ("idx", "kind", "m", "d", "granted", "released", "inside", "fn_calls", "fn_d", "fn_res",
                 "res", "exp", "inner")

    def __init__(self, idx, kind):
        self.idx, self.kind = idx, kind
        self.m = "pending"      # reference status: pending / held / running / done / cancelled
        self.d = None           # Deferred returned by acquire()/run()
        self.granted = False    # observed: acquire callback ran / run function was invoked
        self.released = False   # harness released it (A, AR)
        self.inside = False     # currently inside the grant callback / the run function
        self.fn_calls = 0
        self.fn_d = None        # Deferred returned by an RD/RC/RP function
        self.inner = None       # RC: the unfired Deferred the returned one is waiting on
        self.fn_res = []        # observed results of fn_d
        self.res = []           # observed results of d: ("ok", v) / ("err", type)
        self.exp = None         # expected result of a run(): ("ok", v) / ("err", type)


class St:
    def __init__(self, cfg):
        from twisted.internet.defer import DeferredLock, DeferredSemaphore
        self.cfg = cfg
        self.limit = cfg[1]
        self.p = DeferredLock() if cfg[0] == "lock" else DeferredSemaphore(cfg[1])
        self.reqs = []
        self.grants = []      # observed global grant order (request indices)
        self.m_grants = []    # reference grant order
        self.bad = []
        self.last_flags = set()   # what the last transition exercised (coverage only)

    # ---- reference ----
    def m_holders(self):
        return sum(1 for q in self.reqs if q.m in ("held", "running"))

    def m_pump(self):
        n = 0
        while self.m_holders() < self.limit:
            nxt = next((q for q in self.reqs if q.m == "pending"), None)
            if nxt is None:
                break
            self.m_grants.append(nxt.idx)
            n += 1
            if nxt.kind == "A":
                nxt.m = "held"
            elif nxt.kind in LATE:
                nxt.m = "running"
            else:
                nxt.m = "done"      # AR releases inside its callback; RV/RX finish synchronously
                if nxt.kind == "RV":
                    nxt.exp = ("ok", ("v", nxt.idx))
                elif nxt.kind == "RX":
                    nxt.exp = ("err", FnError)
        return n

    # ---- observation ----
    def real_holders_now(self):
        """Requests that are certainly holding right now (lower bound)."""
        n = 0
        for q in self.reqs:
            if not q.granted:
                continue
            if q.kind in ("A", "AR"):
                if not q.released:
                    n += 1
            elif q.kind in LATE:
                if q.inside or (q.fn_d is not None and not q.fn_res):
                    n += 1
            elif q.inside:
                n += 1
        return n

    def on_grant(self, q):
        if q.granted:
            self.bad.append(("granted-twice", "request #%d (%s) granted twice" % (q.idx, q.kind)))
        q.granted = True
        self.grants.append(q.idx)
        h = self.real_holders_now()
        if h > self.limit:
            self.bad.append(("holders-exceed-limit", "%d holders at the grant of #%d, limit %d" % (
                h, q.idx, self.limit)))


def _record(q):
    q.d.addCallbacks(lambda v, q=q: q.res.append(("ok", v)) or None,
                     lambda f, q=q: q.res.append(("err", f.type)) or None)


def _guard(st, what, fn, *a):
    """Run a real operation; an exception escaping it is a finding with a narrow signature."""
    try:
        return fn(*a)
    except Exception as e:  # noqa
        st.bad.append(("%s-raised-%s" % (what, type(e).__name__), "%s: %r" % (what, e)))


def apply(st, ev):
    from twisted.internet.defer import Deferred
    op = ev[0]
    p = st.p
    fl = st.last_flags = set()
    if op == "new":
        kind = ev[1]
        q = Req(len(st.reqs), kind)
        st.reqs.append(q)
        if kind == "A":
            def cb(lock, q=q):
                st.on_grant(q)
                return None
            q.d = _guard(st, "acquire", p.acquire)
            if q.d is not None:
                q.d.addCallback(cb)
        elif kind == "AR":
            def cb(lock, q=q):
                q.inside = True
                st.on_grant(q)
                q.released = True
                q.inside = False
                _guard(st, "reentrant-release", p.release)
                return None
            q.d = _guard(st, "acquire", p.acquire)
            if q.d is not None:
                q.d.addCallback(cb)
        else:
            def f(q=q):
                q.fn_calls += 1
                q.inside = True
                st.on_grant(q)
                q.inside = False
                if q.kind == "RV":
                    return ("v", q.idx)
                if q.kind == "RX":
                    raise FnError()
                q.fn_d = Deferred()

                def seen(r, q=q):
                    q.fn_res.append(r)
                    return r
                if q.kind == "RC":
                    q.inner = Deferred()
                    q.fn_d.addCallback(lambda _, q=q: q.inner)
                    q.fn_d.addBoth(seen)
                    q.fn_d.callback(None)      # .called is True, the chain waits on q.inner
                elif q.kind == "RP":
                    q.fn_d.pause()
                    q.fn_d.callback(("late", q.idx))   # .called is True, delivery waits for unpause()
                    q.fn_d.addBoth(seen)
                else:
                    q.fn_d.addBoth(seen)
                return q.fn_d
            q.d = _guard(st, "run", p.run, f)
        if q.d is not None:
            _record(q)
        else:
            q.m = "cancelled"
            return
        st.m_pump()
        if q.m == "pending":
            fl.add("waited")
        for r in q.res:
            fl.add("sync-result-%s-%s" % (kind, r[0]))
    elif op == "rel":
        held = [q for q in st.reqs if q.m == "held"]
        q = held[ev[1]]
        q.m = "done"
        q.released = True
        _guard(st, "release", p.release)
        n = st.m_pump()
        fl.add("release-grants-%s" % ("none" if not n else "one" if n == 1 else "cascade"))
    elif op == "cancel":
        live = [q for q in st.reqs if q.m in ("pending", "held", "running")]
        q = live[ev[1]]
        fl.add("cancel-%s-%s" % (q.m, "run" if q.kind[0] == "R" else "acquire"))
        _guard(st, "cancel", q.d.cancel)
        if q.m == "pending":
            q.m = "cancelled"
            if q.kind[0] == "R":
                from twisted.internet.defer import CancelledError
                q.exp = ("err", CancelledError)
        elif q.m == "running":
            # the statement does not say whether cancelling a running run() reaches the function's
            # Deferred: observe, and let the reference follow the function's result
            if q.fn_d is not None and q.fn_res:
                _fn_done(st, q)
        # held: cancelling an already granted acquisition changes nothing
    elif op == "fire":
        running = [q for q in st.reqs if q.m == "running"]
        q = running[ev[1]]
        if q.kind == "RP":
            _guard(st, "fire", q.fn_d.unpause)
        else:
            target = q.inner if q.kind == "RC" else q.fn_d
            if ev[2]:
                _guard(st, "fire", target.callback, ("late", q.idx))
            else:
                _guard(st, "fire", target.errback, FnError())
        _fn_done(st, q)


def _fn_done(st, q):
    from twisted.python.failure import Failure
    r = q.fn_res[0] if q.fn_res else None
    q.exp = ("err", r.type) if isinstance(r, Failure) else ("ok", r)
    q.m = "done"
    n = st.m_pump()
    st.last_flags.add("run-%s-grants-%s" % (q.exp[0], "none" if not n else "one" if n == 1 else "cascade"))


def enabled(st, kinds=KINDS):
    evs = [("new", k) for k in kinds]
    for k, q in enumerate(q for q in st.reqs if q.m == "held"):
        evs.append(("rel", k))
    for k, q in enumerate(q for q in st.reqs if q.m in ("pending", "held", "running")):
        evs.append(("cancel", k))
    for k, q in enumerate(q for q in st.reqs if q.m == "running"):
        evs.append(("fire", k, 1))
        if q.kind != "RP":
            evs.append(("fire", k, 0))
    return evs


def invariant(st, hist):
    out = list(st.bad)
    g, m = st.grants, st.m_grants
    if g != m:
        byidx = {q.idx: q for q in st.reqs}
        cancelled = [i for i in g if byidx[i].m == "cancelled"]
        if cancelled:
            out.append(("cancelled-acquisition-granted", "granted %r, reference %r" % (g, m)))
        elif g == m[:len(g)]:
            out.append(("pending-not-granted-with-free-capacity", "granted %r, reference %r" % (g, m)))
        elif m == g[:len(m)]:
            out.append(("granted-beyond-capacity", "granted %r, reference %r" % (g, m)))
        else:
            out.append(("grant-order-not-fifo", "granted %r, reference %r" % (g, m)))
    holders = st.m_holders()
    if st.cfg[0] == "sem":
        tokens = getattr(st.p, "tokens", None)
        if tokens is not None and tokens != st.limit - holders:
            out.append(("capacity-accounting", "tokens=%r with %d holders of limit %d" % (tokens, holders, st.limit)))
    else:
        locked = getattr(st.p, "locked", None)
        if locked is not None and bool(locked) != (holders == 1):
            out.append(("capacity-accounting", "locked=%r with %d holders" % (locked, holders)))
    for q in st.reqs:
        if q.fn_calls > 1:
            out.append(("run-function-invoked-twice", "run #%d" % q.idx))
        if q.kind[0] == "R":
            if q.exp is None:
                if q.res:
                    out.append(("run-result-before-function-result", "run #%d (%s, %s) fired %r" % (
                        q.idx, q.kind, q.m, q.res)))
            elif q.res != [q.exp]:
                out.append(("run-result-differs", "run #%d (%s) fired %r, expected %r" % (
                    q.idx, q.kind, q.res, q.exp)))
    return out


def canon(st):
    live = [q for q in st.reqs if q.m in ("pending", "held", "running")]
    pos = {id(q.d): i for i, q in enumerate(live)}
    waiting = tuple(pos.get(id(d), -1) for d in getattr(st.p, "waiting", ()))
    return (tuple((q.kind, q.m, q.granted, bool(q.fn_res)) for q in live), waiting,
            getattr(st.p, "tokens", None), getattr(st.p, "locked", None))


SPLIT = 2   # shards are the distinct states first reached at this BFS level


def _prefix_initial(cfg, prefix):
    def make():
        st = St(cfg)
        for ev in prefix:
            apply(st, ev)
        return st
    return make


def _en(fam):
    kinds = fam[0]
    return lambda st: enabled(st, kinds)


def shards(tier, seed):
    out = []
    for fi, fam in enumerate(FAMILIES[tier]):
        for cfg in CONFIGS:
            out.append(["pre", list(cfg), [], fi])
            front = []
            bfs(_prefix_initial(cfg, []), apply, _en(fam), canon, lambda st, h: (), SPLIT,
                on_state=lambda st, h: front.append([list(e) for e in h]) if len(h) == SPLIT else None)
            out.extend(["sub", list(cfg), h, fi] for h in front)
    return out


def run_shard(shard, tier, seed):
    mode, cfg, prefix = shard[0], tuple(shard[1]), [tuple(e) for e in shard[2]]
    fam = FAMILIES[tier][shard[3]]
    depth = SPLIT if mode == "pre" else fam[1] - SPLIT
    stats = Stats()

    def inv(st, hist):
        # coverage bookkeeping per executed transition (a cancelled request leaves no trace in the state)
        fl = st.last_flags
        if fl:
            stats.nt((cfg, hash(canon(st)), tuple(sorted(fl))))
            for f in fl:
                stats.outcome(f)
        return invariant(st, hist)

    res = bfs(_prefix_initial(cfg, prefix), apply, _en(fam), lambda st: hash(canon(st)), inv, depth)
    pre = [list(e) for e in prefix]
    for i, (sig, detail, hist) in enumerate(res.violations):
        res.violations[i] = (sig, detail, pre + [list(e) for e in hist])
    res.samples = [pre + [list(e) for e in h] for h in res.samples[-2:]]
    stats.add_bfs(res, {"config": list(cfg)})
    stats.samples = [{"config": list(cfg), "history": h} for h in res.samples]
    return stats


def replay(w):
    st = St(tuple(w["config"]))
    for ev in w["history"]:
        apply(st, tuple(ev))
    return invariant(st, w["history"])
