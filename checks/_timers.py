"""Shared driver + reference timer model for C08 (ReactorBase timed calls) and C09 (task.Clock).

The reference is a dict of call records (scheduled time, status); every operation is executed on the
real scheduler and mirrored on the records.  Verdicts come from the run log (which call ran, at what
clock time, in which iteration/advance), ``getDelayedCalls()`` and ``timeout()`` only; the private
heap / list layout is read defensively and only to canonicalise states.
"""
from __future__ import annotations

# ---- alphabet -------------------------------------------------------------------------------------
DELAYS = (0, 1, 2)
RESETS = (0, 1, 3)
DELTAS = (-1, 1, 2)
ADVANCES = (0, 1, 2, 8)

# one-step scripts executed by a call when it runs; targets are ranks among the *other* pending
# targetable calls in creation order (0 = oldest, -1 = newest); out of range -> no-op
SCRIPTS = (
    None,
    ("spawn", 0),              # schedule from inside a running call
    ("cancel", 0), ("cancel", -1),
    ("reset", 0, 0), ("reset", -1, 0),     # sooner (sift-up inside the run loop)
    ("reset", 0, 2), ("reset", -1, 2),     # later (a due call is pushed back)
    ("delay", 0, 1), ("delay", -1, 1),
    ("delay", 0, -1), ("delay", -1, -1),
    ("spawn", 1),
)


class Call:
    __slots__ = ("cid", "sched", "status", "script", "epoch", "resched", "targetable", "dc", "user")

    def __init__(self, cid, sched, script, epoch, targetable, user):
        self.cid = cid
        self.sched = sched          # reference: currently scheduled time
        self.status = "pending"     # pending / ran / cancelled
        self.script = script
        self.epoch = epoch          # iteration in which it was created (-1: outside an iteration)
        self.resched = False        # ever reset()/delay()ed
        self.targetable = targetable
        self.user = user            # created by an alphabet event (counts towards the live-call cap)
        self.dc = None              # the real IDelayedCall


_RC = []


def _reactor_class():
    """ReactorBase with a harness clock and no waker; never run(), only runUntilCurrent()/timeout()."""
    if not _RC:
        from twisted.internet.base import ReactorBase

        class HarnessReactor(ReactorBase):
            _harness = None

            def installWaker(self):
                pass

            def seconds(self):
                return self._harness._now

        _RC.append(HarnessReactor)
    return _RC[0]


class Timers:
    """One real scheduler + its reference.  kind = 'reactor' | 'clock'."""

    def __init__(self, kind):
        self.kind = kind
        self.calls = []
        self.epoch = 0
        self.in_iter = False
        self.bad = []
        self.harness_exc = []
        self.scripted_used = 0
        self.ops = 0
        self.runlog = []           # (cid, now, epoch)
        self.last_flags = set()
        self._now = 0
        if kind == "reactor":
            self.r = _reactor_class()()
            self.r._harness = self
        else:
            from twisted.internet.task import Clock
            self.r = Clock()

    # ---- clock ----
    @property
    def now(self):
        return self._now if self.kind == "reactor" else self.r.seconds()

    # ---- helpers ----
    def pending(self):
        return [c for c in self.calls if c.status == "pending"]

    def targets(self, exclude=None):
        return [c for c in self.calls if c.status == "pending" and c.targetable and c is not exclude]

    def viol(self, sig, detail):
        self.bad.append((self.kind + ":" + sig, detail))

    def _guard(self, what, fn, *a):
        try:
            return fn(*a)
        except Exception as e:  # noqa
            self.viol("%s-raised-%s" % (what, type(e).__name__), "%s%r: %r" % (what, a, e))
            return None

    # ---- operations (real + reference) ----
    def new_call(self, d, script=None, targetable=True, user=True):
        cid = len(self.calls)
        c = Call(cid, self.now + d, script, self.epoch if self.in_iter else -1, targetable, user)
        self.calls.append(c)
        c.dc = self._guard("callLater", self.r.callLater, d, self._fire, cid)
        if c.dc is None:
            c.status = "cancelled"
        return c

    def raw_call(self, d):
        """A real call without a reference record, for calls the initial state cancels before the
        exploration starts (never pending in an explored state; running one is reported by
        ``_fire_raw``, getDelayedCalls listing one is reported as non-pending)."""
        return self.r.callLater(d, self._fire_raw)

    def _fire_raw(self):
        self.viol("cancelled-call-ran", "a call cancelled in the initial state ran")

    def op_cancel(self, c):
        self._guard("cancel", c.dc.cancel)
        c.status = "cancelled"

    def op_reset(self, c, s):
        self._guard("reset", c.dc.reset, s)
        c.sched = self.now + s
        c.resched = True

    def op_delay(self, c, delta):
        self._guard("delay", c.dc.delay, delta)
        c.sched = c.sched + delta
        c.resched = True

    # ---- the function every scheduled call runs ----
    def _fire(self, cid):
        try:
            self._on_run(self.calls[cid])
        except Exception as e:  # a harness bug must not be swallowed by the reactor's log handler
            import traceback
            self.harness_exc.append(traceback.format_exc())

    def _on_run(self, c):
        now = self.now
        reactor = self.kind == "reactor"
        self.runlog.append((c.cid, now, self.epoch))
        if not self.in_iter:
            self.viol("ran-outside-iteration", "call #%d ran outside an iteration/advance" % c.cid)
        if c.status == "ran":
            self.viol("ran-twice", "call #%d ran twice" % c.cid)
            return
        if c.status == "cancelled":
            self.viol("cancelled-call-ran", "call #%d was cancelled and ran" % c.cid)
            return
        if c.sched > now:
            self.viol("ran-early", "call #%d scheduled for %s ran at %s" % (c.cid, c.sched, now))
        if reactor and c.epoch == self.epoch:
            self.viol("ran-in-creating-iteration", "call #%d ran in the iteration that scheduled it" % c.cid)
        for o in self.calls:
            if o is c or o.status != "pending":
                continue
            if reactor and o.epoch == self.epoch:
                continue   # not runnable in this iteration: the two clauses of the statement collide
            if o.sched < c.sched:
                self.viol("ran-while-earlier-pending", "call #%d (time %s) ran while #%d (time %s) was pending at %s" % (
                    c.cid, c.sched, o.cid, o.sched, now))
                break
            if (not reactor and o.sched == c.sched and not o.resched and not c.resched
                    and o.cid < c.cid):
                self.viol("same-time-not-in-creation-order", "call #%d ran before older #%d, both for %s" % (
                    c.cid, o.cid, c.sched))
                break
        c.status = "ran"
        self.check_delayed_calls(running=c)
        s = c.script
        if s is None:
            return
        self.last_flags.add("script-" + s[0])
        if s[0] == "spawn":
            self.new_call(s[1], None, True, True)
            return
        tg = self.targets(exclude=c)
        if not tg:
            return
        try:
            t = tg[s[1]]
        except IndexError:
            return
        due = t.sched <= now and not (reactor and t.epoch == self.epoch)
        self.last_flags.add("script-%s-%s" % (s[0], "due-target" if due else "future-target"))
        if s[0] == "cancel":
            self.op_cancel(t)
        elif s[0] == "reset":
            self.op_reset(t, s[2])
        elif s[0] == "delay":
            self.op_delay(t, s[2])

    # ---- observations ----
    def check_delayed_calls(self, running=None):
        try:
            got = list(self.r.getDelayedCalls())
        except Exception as e:  # noqa
            self.viol("getDelayedCalls-raised-%s" % type(e).__name__, repr(e))
            return
        # fast path: exactly the pending calls, each once
        want_ids = {id(c.dc) for c in self.calls if c.status == "pending"}
        if len(got) == len(want_ids) and all(id(dc) in want_ids for dc in got) \
                and len({id(dc) for dc in got}) == len(got):
            return
        bydc = {id(c.dc): c for c in self.calls if c.dc is not None}
        ids = []
        for dc in got:
            c = bydc.get(id(dc))
            ids.append(c.cid if c is not None else -1)
        want = sorted(c.cid for c in self.calls if c.status == "pending")
        if len(set(ids)) != len(ids):
            self.viol("getDelayedCalls-duplicates", "%r" % (sorted(ids),))
            return
        have = sorted(ids)
        if running is not None and running.cid in have:
            have.remove(running.cid)     # whether the running call still counts as pending is not stated
        if have != want:
            missing = [i for i in want if i not in have]
            extra = [i for i in have if i not in want]
            kind = "missing-pending" if missing else "lists-non-pending"
            self.viol("getDelayedCalls-" + kind, "missing %r extra %r (%s)" % (
                missing, extra, "inside a running call" if running is not None else "between operations"))

    def advance(self, t):
        """Advance the clock by t and run one iteration (reactor) / Clock.advance(t)."""
        self.epoch += 1
        self.in_iter = True
        n0 = len(self.runlog)
        try:
            if self.kind == "reactor":
                self._now += t
                self._guard("runUntilCurrent", self.r.runUntilCurrent)
            else:
                self._guard("advance", self.r.advance, t)
            to = self._guard("timeout", self.r.timeout) if self.kind == "reactor" else None
        finally:
            self.in_iter = False
        now = self.now
        reactor = self.kind == "reactor"
        for c in self.calls:
            if c.status == "pending" and c.sched <= now and not (reactor and c.epoch == self.epoch):
                self.viol("due-call-not-run", "call #%d scheduled for %s still pending after the iteration at %s" % (
                    c.cid, c.sched, now))
                break
        if reactor:
            pend = [c.sched for c in self.calls if c.status == "pending"]
            if pend:
                lim = max(0, min(pend) - now)
                if to is None or to > lim:
                    self.viol("timeout-exceeds-earliest-pending", "timeout()=%r, earliest pending call in %s" % (
                        to, min(pend) - now))
        nrun = len(self.runlog) - n0
        self.last_flags.add("ran-%s" % ("none" if nrun == 0 else "one" if nrun == 1 else "many"))
        if self.harness_exc:
            raise RuntimeError("harness exception inside a timed call:\n" + self.harness_exc[0])

    # ---- alphabet ----
    def enabled(self, cap, max_scripted, scripts, scripted_delays=DELAYS):
        evs = []
        nuser = sum(1 for c in self.calls if c.status == "pending" and c.user)
        if nuser < cap:
            for d in DELAYS:
                evs.append(("call", d, 0))
            if self.scripted_used < max_scripted:
                for d in scripted_delays:
                    for si in scripts:
                        evs.append(("call", d, si))
        for k in range(len(self.targets())):
            evs.append(("cancel", k))
            for s in RESETS:
                evs.append(("reset", k, s))
            for dl in DELTAS:
                evs.append(("delay", k, dl))
        for t in ADVANCES:
            evs.append(("adv", t))
        return evs

    def apply(self, ev):
        self.last_flags = fl = set()
        self.ops += 1
        op = ev[0]
        if op == "call":
            if ev[2]:
                self.scripted_used += 1
            self.new_call(ev[1], SCRIPTS[ev[2]])
        elif op == "adv":
            self.advance(ev[1])
        else:
            c = self.targets()[ev[1]]
            where = "staged" if self._is_staged(c) else "queued"
            if op == "cancel":
                self.op_cancel(c)
                fl.add("cancel-" + where)
            elif op == "reset":
                sooner = self.now + ev[2] < c.sched
                self.op_reset(c, ev[2])
                fl.add("reset-%s-%s" % ("sooner" if sooner else "later", where))
            elif op == "delay":
                self.op_delay(c, ev[2])
                fl.add("delay-%s-%s" % ("minus" if ev[2] < 0 else "plus", where))
        self.check_delayed_calls()

    def _is_staged(self, c):
        new = getattr(self.r, "_newTimedCalls", None)
        return bool(new) and any(x is c.dc for x in new)

    # ---- canonical state ----
    def canon(self):
        now = self.now
        pend = [c for c in self.calls if c.status == "pending"]
        rank = {id(c.dc): i for i, c in enumerate(pend)}
        model = tuple((c.sched - now, c.script, c.targetable, c.user, c.resched if self.kind == "clock" else None)
                      for c in pend)

        def slot(dc):
            return (rank.get(id(dc), -1), getattr(dc, "time", 0) - now, getattr(dc, "delayed_time", 0),
                    getattr(dc, "cancelled", 0), getattr(dc, "called", 0))
        if self.kind == "reactor":
            real = (tuple(slot(dc) for dc in getattr(self.r, "_pendingTimedCalls", ())),
                    tuple(slot(dc) for dc in getattr(self.r, "_newTimedCalls", ())),
                    getattr(self.r, "_cancellations", None))
        else:
            real = tuple(slot(dc) for dc in getattr(self.r, "calls", ()))
        return (model, real, self.scripted_used)
