"""C51 DirDBM crash safety: every crash point of the last operation of every short history,
nested with every crash point of the recovery performed on reopen."""
import itertools, os, shutil
from mc.crashfs import CrashFS, Crash, crash_plans
from mc.runner import Stats, split

ID = "C51"
LEVEL = "fault_enumeration"
ENGINE = "mc.crashfs"
RULE = ("all histories of length 1..N over {set(k,v), delete(k)} with k in {a,b}, v in {x, yyyy} (and the empty value for a); the prefix runs uncrashed, "
        "the last operation is crashed before every mutating system call and after every partial write length; the database "
        "is reopened, itself crashed at every system call of the recovery (one nesting level), and finally reopened cleanly and "
        "compared with a dict reference. non-trivial = distinct (history, crash plan, recovery crash plan) triples where the "
        "first crash left at least one file of the interrupted operation on disk (.new/.rpl or missing key)")
BOUNDS = {"quick": "histories <= 5 operations, 2 keys, values x / yyyy / empty", "thorough": "histories <= 6 operations"}
ASSUMPTIONS = ["process-crash model: completed system calls persist, user-space buffers are lost, rename/unlink atomic"]
MIN = {"quick": {"evaluations": 150000, "nontrivial": 70000, "outcomes": 3}}

OPS = [("set", b"a", b"x"), ("set", b"a", b"yyyy"), ("set", b"b", b"x"), ("set", b"b", b"yyyy"), ("del", b"a"), ("del", b"b"),
       ("set", b"a", b"")]     # the empty value: an empty data file is still a value


def _aliases():
    from twisted.persisted import dirdbm
    return [(dirdbm, "_open", "open")]


def _apply(db, op):
    if op[0] == "set":
        db[op[1]] = op[2]
    else:
        try:
            del db[op[1]]
        except KeyError:
            pass


def _model(hist):
    m = {}
    for op in hist:
        if op[0] == "set":
            m[op[1]] = op[2]
        else:
            m.pop(op[1], None)
    return m


def _prepare(base, hist):
    from twisted.persisted.dirdbm import DirDBM
    d = os.path.join(base, "db")
    shutil.rmtree(d, ignore_errors=True)
    db = DirDBM(d)
    for op in hist[:-1]:
        _apply(db, op)
    return d, db


def _snapshot(d):
    from twisted.persisted.dirdbm import DirDBM
    db = DirDBM(d)
    return dict(db.items()), sorted(os.listdir(d))


def run_one(base, hist, plan, rplan):
    """Returns (violations, info).  plan=None: no crash in the last op."""
    from twisted.persisted.dirdbm import DirDBM
    d, db = _prepare(base, hist)
    before = _model(hist[:-1])
    after = _model(hist)
    key = hist[-1][1]
    fs = CrashFS(plan, _aliases(), root=base)
    with fs:
        try:
            _apply(db, hist[-1])
        except Crash:
            pass
    ops1 = fs.ops
    debris = sorted(os.listdir(d))
    rops = []
    if rplan is not False:
        fs2 = CrashFS(rplan, _aliases(), root=base)
        with fs2:
            try:
                DirDBM(d)
            except Crash:
                pass
        rops = fs2.ops
    got, files = _snapshot(d)
    bad = []
    crashed = fs.crashed
    allowed_for_key = [after.get(key)] if not crashed else [before.get(key), after.get(key)]
    for k in set(got) | set(after) | set(before):
        if k == key:
            if got.get(k) not in allowed_for_key:
                v = got.get(k)
                kind = "lost" if v is None else ("partial-or-foreign-value" if v not in (before.get(key), after.get(key)) else "wrong-version")
                bad.append(("interrupted-key:%s" % kind, "key %r holds %r, allowed %r" % (k, v, allowed_for_key)))
        else:
            exp = after.get(k)
            if k not in after and k not in before and k in got:
                bad.append(("stray-file-visible-as-data", "unexpected key %r -> %r" % (k, got[k])))
            elif got.get(k) != exp:
                bad.append(("other-key-damaged", "key %r holds %r, expected %r" % (k, got.get(k), exp)))
    return bad, {"ops": ops1, "recovery_ops": rops, "debris": debris, "crashed": crashed, "files": files}


def explore_history(base, hist, st):
    out = []
    bad, info = run_one(base, hist, None, False)
    st.evaluations += 1
    for b in bad:
        out.append((b, None, False))
    st.outcome("completed")
    for plan in crash_plans(info["ops"]):
        # clean reopen
        bad, info1 = run_one(base, hist, plan, False)
        st.evaluations += 1
        for b in bad:
            out.append((b, plan, False))
        # recovery uncrashed but under CrashFS to learn its op list
        bad, info2 = run_one(base, hist, plan, None)
        st.evaluations += 1
        interesting = any(f.endswith((".new", ".rpl")) for f in info1["debris"]) or \
            (len(info1["debris"]) != len(_model(hist[:-1])))
        st.outcome("debris" if interesting else "no-debris")
        for b in bad:
            out.append((b, plan, None))
        for rplan in crash_plans(info2["recovery_ops"]):
            bad, info3 = run_one(base, hist, plan, rplan)
            st.evaluations += 1
            st.outcome("nested-crash")
            if interesting:
                st.nt((tuple(hist), plan, rplan))
            for b in bad:
                out.append((b, plan, rplan))
        if interesting:
            st.nt((tuple(hist), plan, None))
    return out


def histories(n):
    for L in range(1, n + 1):
        for h in itertools.product(range(len(OPS)), repeat=L):
            yield h


def shards(tier, seed):
    n = 5 if tier == "quick" else 6
    return split(list(histories(n)), 96 if tier == "quick" else 256)


def run_shard(shard, tier, seed):
    st = Stats()
    base = "/dev/shm/verif-C51-%d" % os.getpid()
    shutil.rmtree(base, ignore_errors=True)
    os.makedirs(base)
    try:
        for h in shard:
            hist = [OPS[i] for i in h]
            for (sig, detail), plan, rplan in explore_history(base, hist, st):
                st.violation(sig, {"what": detail, "history": [list(map(repr, o)) for o in hist], "plan": plan, "recovery_plan": rplan},
                             {"history": list(h), "plan": plan, "rplan": rplan})
            if len(st.samples) < 2 and len(h) >= 2:
                st.sample({"history": [[o[0]] + [x.decode() for x in o[1:]] for o in hist]})
    finally:
        shutil.rmtree(base, ignore_errors=True)
    return st


def replay(w):
    base = "/dev/shm/verif-C51-%d" % os.getpid()
    shutil.rmtree(base, ignore_errors=True)
    os.makedirs(base)
    try:
        hist = [OPS[i] for i in w["history"]]
        plan = tuple(w["plan"]) if w["plan"] is not None else None
        rplan = w["rplan"] if w["rplan"] in (None, False) else tuple(w["rplan"])
        return run_one(base, hist, plan, rplan)[0]
    finally:
        shutil.rmtree(base, ignore_errors=True)
