"""C44 Banana: encode/decode round trip under every segmentation, with and without the pb dialect, and the
encode-side / decode-side limits.

A real server ``Banana`` and a real client ``Banana`` negotiate the dialect over in-memory transports; the
sender's ``sendEncoded`` output is fed to the receiver's ``dataReceived`` cut in every way inside the bound.
The oracle is structural equality (tuples -> lists, floats by bit pattern) and, for the limits, "an exception
is raised" -- nothing else is demanded.
"""
import itertools
import struct

from mc.choice import compositions
from mc.runner import Stats

ID = "C44"
LEVEL = "exploration"
TECHNIQUE = "exhaustive enumeration of expression shapes x boundary atoms x stream segmentations; enumerated over-limit streams"
RULE = ("(a) every nested list with <= N nodes over the atoms {1, b'a', 1.5}; (b) every boundary atom (integers at "
        "each base-128 digit-count / INT-NEG-LONGINT-LONGNEG boundary and at the prefix limit, floats incl. "
        "+-0/inf/NaN payloads, strings incl. empty, high-bit, 127/128 bytes, pb vocabulary words) in 6 list contexts, "
        "every ordered pair of 16 atoms in one list and as two consecutive expressions; each encoded by a real "
        "Banana after real dialect negotiation (pb and none) and decoded by the peer under all compositions of the "
        "stream when short, else every 1-cut, every 2-cut (bounded length) + byte-at-a-time; (c) values just inside / outside the "
        "encode limits; (d) hand-built streams with 63..100 prefix digits x every type byte, and string/list lengths "
        "around SIZE_LIMIT, in 3 contexts, whole / every 1-cut / byte-at-a-time.  non-trivial = a cut strictly inside "
        "an item (prefix, payload or float), a refusal, or a limit-boundary acceptance")
BOUNDS = {"quick": "shapes <= 5 nodes; all compositions for streams <= 10 bytes, 2-cuts for streams <= 20 bytes; SIZE_LIMIT string with cuts near its frame boundaries",
          "thorough": "shapes <= 6 nodes; all compositions <= 12 bytes; 2-cuts for streams <= 40 bytes; 3-cuts for streams <= 16 bytes"}
ASSUMPTIONS = [
    "the supported integer range is the one implied by the decoder's prefix limit: |n| <= 2**(7*prefixLimit) - 1",
    "size limits are banana.SIZE_LIMIT for string lengths and list counts (read from the module, not patched)",
    "a list of SIZE_LIMIT elements is only checked on the encode side and as a bare header on the decode side "
    "(the decoder is quadratic in the number of buffered items, a full decode would take hours)",
    "refusal = any exception out of sendEncoded / dataReceived; the statement does not name the type",
    "empty deliveries are not generated (transports never deliver b'')",
]
MIN = {"quick": {"evaluations": 440000, "nontrivial": 400000, "outcomes": 6},
       "thorough": {"evaluations": 440000, "nontrivial": 400000, "outcomes": 6}}

LIST, INT, STRING, NEG, FLOAT, LONGINT, LONGNEG, VOCAB = (bytes([0x80 + i]) for i in range(8))
TYPEBYTES = {"LIST": LIST, "INT": INT, "STRING": STRING, "NEG": NEG, "FLOAT": FLOAT, "LONGINT": LONGINT,
             "LONGNEG": LONGNEG, "VOCAB": VOCAB}


# ----------------------------------------------------------------------------------------------
def make_pair(dialect):
    """(sender, sender transport, receiver) after a real negotiation of ``dialect``."""
    from twisted.spread import banana
    from mc.net import MemTransport

    class Recv(banana.Banana):
        def expressionReceived(self, e):
            self.got.append(e)

    server, client = Recv(isClient=0), Recv(isClient=1)
    server.got, client.got = [], []
    if dialect == "none":
        client.knownDialects = [b"none"]
    ts, tc = MemTransport(), MemTransport()
    server.makeConnection(ts)
    client.makeConnection(tc)
    client.dataReceived(ts.value())
    ts.clear()
    server.dataReceived(tc.value())
    tc.clear()
    want = dialect.encode()
    if server.currentDialect != want or client.currentDialect != want or server.got or client.got:
        raise RuntimeError("negotiation did not select %r" % dialect)
    return server, ts, client


def limits():
    from twisted.spread import banana
    b = banana.Banana()
    from mc.net import MemTransport
    b.makeConnection(MemTransport())
    pl = getattr(b, "prefixLimit", None) or 64
    return pl, banana.SIZE_LIMIT


def bits(f):
    return struct.pack("!d", f)


def fl(hexbits):
    return struct.unpack("!d", bytes.fromhex(hexbits))[0]


def same(a, b):
    if isinstance(a, (list, tuple)):
        return type(b) is list and len(a) == len(b) and all(same(x, y) for x, y in zip(a, b))
    if isinstance(a, float):
        return type(b) is float and bits(a) == bits(b)
    if isinstance(a, int):
        return type(b) is int and a == b
    if isinstance(a, bytes):
        return type(b) is bytes and a == b
    return False


def short(x, lim=160):
    if isinstance(x, (list, tuple)):
        r = "[" + ", ".join(short(i, 40) for i in x[:8]) + (", ...%d more" % (len(x) - 8) if len(x) > 8 else "") + "]"
        return r if isinstance(x, list) else "t" + r
    if isinstance(x, bytes) and len(x) > 16:
        return "<%d bytes %r..>" % (len(x), x[:4])
    if isinstance(x, float):
        return "float:" + bits(x).hex()
    if isinstance(x, int) and abs(x) >= 2 ** 64:
        return "%sint(%d bits, low byte %d)" % ("-" if x < 0 else "", abs(x).bit_length(), abs(x) & 255)
    return repr(x)[:lim]


def item_bounds(stream):
    """Offsets at which an item (header or header+payload) starts/ends -- reference walker, used only to classify
    cuts as inside/outside an item."""
    out, i, n = {0}, 0, len(stream)
    while i < n:
        j = i
        while j < n and stream[j] < 0x80:
            j += 1
        if j >= n:
            break
        t = stream[j]
        num = sum(d << (7 * k) for k, d in enumerate(stream[i:j]))
        end = j + 1
        if t == 0x82:
            end += num
        elif t == 0x84:
            end += 8
        out.add(end)
        i = end
    return out


def wenc(x):
    """JSON-safe witness form of an expression (floats by bit pattern, long homogeneous strings compressed)."""
    if isinstance(x, (list, tuple)):
        return [wenc(i) for i in x]
    if isinstance(x, float):
        return {"f": bits(x).hex()}
    if isinstance(x, bytes) and len(x) > 64 and x == x[:1] * len(x):
        return {"rep": x[0], "n": len(x)}
    return x


def wdec(x):
    if isinstance(x, list):
        return [wdec(i) for i in x]
    if isinstance(x, dict):
        if "f" in x:
            return fl(x["f"])
        return bytes([x["rep"]]) * x["n"]
    return x


def split_at(stream, pos):
    out, last = [], 0
    for p in pos:
        out.append(stream[last:p])
        last = p
    out.append(stream[last:])
    return out


def plans(n, tier, near=None):
    if n <= (10 if tier == "quick" else 12):
        for comp in compositions(n):
            pos, acc = [], 0
            for c in comp[:-1]:
                acc += c
                pos.append(acc)
            yield tuple(pos)
        return
    yield ()
    if n <= 4000:
        for p in range(1, n):
            yield (p,)
        lim2 = 20 if tier == "quick" else 40
        if n <= lim2:
            for pos in itertools.combinations(range(1, n), 2):
                yield pos
        if tier == "thorough" and n <= 16:
            for pos in itertools.combinations(range(1, n), 3):
                yield pos
        yield tuple(range(1, n))
    else:
        ps = sorted(set(p for b in (near or ()) for p in range(b - 3, b + 4) if 0 < p < n) | {n // 2})
        for p in ps:
            yield (p,)
        for pos in itertools.combinations(ps[::2], 2):
            yield pos
        yield tuple(range(65536, n, 65536))


def roundtrip(stats, exprs, dialect, tier, tag):
    """Encode the expressions one after the other, decode the concatenation under every plan."""
    sender, ts, _ = make_pair(dialect)
    for e in exprs:
        try:
            sender.sendEncoded(e)
        except Exception as ex:
            stats.violation("banana.encode:in-range-value-refused", "sendEncoded(%s) raised %r (dialect %s)" % (
                short(e), ex, dialect), {"mode": "rt", "exprs": wenc(exprs), "dialect": dialect, "cuts": None})
            return
    stream = ts.value()
    ib = item_bounds(stream)
    key = hash((tag, dialect, stream if len(stream) < 200 else (len(stream), stream[:64])))
    for pos in plans(len(stream), tier, near=sorted(ib)):
        stats.evaluations += 1
        bad = decode_check(stream, pos, exprs, dialect)
        if pos and any(p not in ib for p in pos):
            stats.nt((key, pos))
        if bad:
            stats.violation(bad[0], bad[1], {"mode": "rt", "exprs": wenc(exprs), "dialect": dialect, "cuts": list(pos)})
            stats.outcome("mismatch")
        else:
            stats.outcome("roundtrip-" + dialect)


def decode_check(stream, pos, exprs, dialect):
    _, _, recv = make_pair(dialect)
    try:
        for seg in split_at(stream, pos):
            recv.dataReceived(seg)
    except Exception as ex:
        return ("banana.decode:valid-stream-raised", "%s: %s while decoding %s" % (
            type(ex).__name__, str(ex)[:80], short(list(exprs))))
    if len(recv.got) != len(exprs) or not all(same(a, b) for a, b in zip(exprs, recv.got)):
        kind = "count" if len(recv.got) != len(exprs) else "value"
        return ("banana.decode:roundtrip-differs-" + kind, "sent %s, decoded %s" % (short(list(exprs)), short(recv.got)))
    return None


# ----------------------------------------------------------------------------------------------
# alphabets

def shapes(n, atoms):
    """All expressions with exactly n nodes (a list counts 1 + its children)."""
    if n == 1:
        for a in atoms:
            yield a
        yield []
        return
    for comp in compositions(n - 1):
        for kids in itertools.product(*[list(shapes(c, atoms)) for c in comp]):
            yield list(kids)


def int_atoms(pl):
    top = 2 ** (7 * pl) - 1
    pos = [0, 1, 127, 128, 2 ** 14 - 1, 2 ** 14, 2 ** 21 - 1, 2 ** 21, 2 ** 28, 2 ** 31 - 1, 2 ** 31, 2 ** 32, 2 ** 63,
           2 ** 64, 2 ** (7 * (pl - 1)) - 1, 2 ** (7 * (pl - 1)), top - 1, top]
    neg = [-1, -127, -128, -2 ** 14, -2 ** 21, -2 ** 31 + 1, -2 ** 31, -2 ** 31 - 1, -2 ** 32, -2 ** 64,
           -(2 ** (7 * (pl - 1))), -top + 1, -top]
    return pos + neg


def float_atoms():
    return [1.5, 0.0, -0.0, float("inf"), float("-inf"), fl("7ff8000000000000"), fl("7ff8000000000001"),
            fl("fff8000000000000"), 5e-324, 1.7976931348623157e308, 0.1, fl("8182838485868780"), fl("0000000000000080")]


def bytes_atoms(seed):
    f = bytes([ord("a") + seed % 20])
    return [f, b"", b"\x80", b"\x82\x01", b"\x00", f * 127, f * 128, f * 16384, b"\xff" * 3,
            b"None", b"list", b"uncache", b"class", b"Nonex", b"none"]


def all_vocab():
    from twisted.spread import banana
    return sorted(banana.Banana.outgoingVocabulary)


# ----------------------------------------------------------------------------------------------
def shards(tier, seed):
    out = [["shape", i] for i in range(32)]
    out += [["atom", i] for i in range(16)]
    out += [["pair", i] for i in range(16)]
    out += [["big", i] for i in range(4)] + [["enc", i] for i in range(6)]
    out += [["dec", i] for i in range(12)]
    return out


def run_shard(shard, tier, seed):
    kind, idx = shard
    stats = Stats()
    pl, size_limit = limits()
    if kind == "shape":
        nmax = 5 if tier == "quick" else 6
        atoms = [1, bytes([ord("a") + seed % 20]), 1.5]
        n = 0
        for size in range(1, nmax + 1):
            for e in shapes(size, atoms):
                if not isinstance(e, list):
                    continue
                n += 1
                if n % 32 != idx:
                    continue
                for d in ("pb", "none"):
                    roundtrip(stats, (e,), d, tier, "shape")
                if n % 4 == 0:
                    roundtrip(stats, (tuplify_alt(e),), "pb", tier, "shape-tuple")
                if n % 211 == 0:
                    stats.sample(short(e))
        for depth in (6, 40, 200):
            if idx == depth % 32:
                c = 1
                for _ in range(depth):
                    c = [c]
                roundtrip(stats, (c,), "pb", tier, "chain")
    elif kind == "atom":
        A = int_atoms(pl) + float_atoms() + bytes_atoms(seed) + [w for w in all_vocab()]
        f = bytes([ord("a") + seed % 20])
        for n, a in enumerate(A):
            if n % 16 != idx:
                continue
            for ctx in ([a], [a, 1], [f, a], [[a]], [a, a], [[], a, []], (a, (a,))):
                for d in ("pb", "none"):
                    roundtrip(stats, (ctx,), d, tier, "atom")
            stats.sample(short([a]))
    elif kind == "pair":
        M = [0, 127, 128, 2 ** 31 - 1, 2 ** 31, -1, -2 ** 31, -2 ** 31 - 1, 2 ** (7 * pl) - 1, 1.5, fl("8182838485868780"),
             b"", b"\x80\x81", bytes([ord("a") + seed % 20]) * 128, b"None", []]
        n = 0
        for a in M:
            for b in M:
                n += 1
                if n % 16 != idx:
                    continue
                for d in ("pb", "none"):
                    roundtrip(stats, ([a, b],), d, tier, "pair")
                    roundtrip(stats, ([a], [b]), d, tier, "pair-seq")
                roundtrip(stats, ([[a], b], [b, [a]]), "pb", tier, "pair-nest")
    elif kind == "big":
        f = bytes([ord("a") + seed % 20])
        big = f * size_limit
        d = "pb" if idx % 2 == 0 else "none"
        if idx < 2:
            roundtrip(stats, ([big],), d, tier, "big")
        else:
            roundtrip(stats, ([1, big, [big[:70000]]], [2]), d, tier, "big")
        stats.nt(("big", d))
        stats.outcome("size-limit-string-accepted")
    elif kind == "enc":
        run_encode_limits(stats, idx, pl, size_limit)
    elif kind == "dec":
        run_decode_limits(stats, idx, 12, pl, size_limit, tier)
    stats.count("evals_" + kind, stats.evaluations)
    return stats


def tuplify_alt(e, depth=0):
    """Same structure with tuples at even depths (tuples must decode as lists)."""
    if isinstance(e, list):
        kids = [tuplify_alt(k, depth + 1) for k in e]
        return tuple(kids) if depth % 2 == 0 else kids
    return e


# ----------------------------------------------------------------------------------------------
def encode_cases(pl, size_limit):
    top = 2 ** (7 * pl) - 1
    # (label, builder, must_refuse)
    return [
        ("int=max", lambda: top, False), ("int=min", lambda: -top, False),
        ("int=max+1", lambda: top + 1, True), ("int=min-1", lambda: -top - 1, True),
        ("int=2^(7*limit+7)", lambda: 2 ** (7 * pl + 7), True), ("int=-2^(7*limit+7)", lambda: -(2 ** (7 * pl + 7)), True),
        ("int=10^300", lambda: 10 ** 300, True),
        ("bytes=SIZE_LIMIT", lambda: b"x" * size_limit, False), ("bytes=SIZE_LIMIT+1", lambda: b"x" * (size_limit + 1), True),
        ("bytes=2*SIZE_LIMIT", lambda: b"x" * (2 * size_limit), True),
        ("list=SIZE_LIMIT", lambda: [0] * size_limit, False), ("list=SIZE_LIMIT+1", lambda: [0] * (size_limit + 1), True),
        ("tuple=SIZE_LIMIT+1", lambda: (0,) * (size_limit + 1), True),
    ]


def run_encode_limits(stats, idx, pl, size_limit):
    for n, (label, build, must_refuse) in enumerate(encode_cases(pl, size_limit)):
        for ctx_name, wrap in (("top", lambda v: v), ("in-list", lambda v: [1, v]), ("nested", lambda v: [[b"a", [v]]])):
            for d in ("pb", "none"):
                if (2 * n + (d == "pb")) % 6 != idx:
                    continue
                bad = encode_limit_check(label, build, must_refuse, ctx_name, wrap, d)
                stats.evaluations += 1
                stats.nt(("enc", label, ctx_name, d))
                stats.outcome("encode-refused" if must_refuse else "encode-accepted-at-limit")
                if bad:
                    stats.violation(bad[0], bad[1], {"mode": "enc", "label": label, "ctx": ctx_name, "dialect": d})
    stats.sample({"encode-limit-cases": [c[0] for c in encode_cases(pl, size_limit)]})


def encode_limit_check(label, build, must_refuse, ctx_name, wrap, d):
    sender, ts, _ = make_pair(d)
    try:
        sender.sendEncoded(wrap(build()))
        raised = None
    except Exception as ex:
        raised = ex
    kind = label.split("=")[0]
    if must_refuse and raised is None:
        return ("banana.encode:over-limit-%s-not-refused" % kind, "%s (%s, dialect %s) was encoded (%d bytes)" % (
            label, ctx_name, d, len(ts.value())))
    if not must_refuse and raised is not None:
        return ("banana.encode:at-limit-%s-refused" % kind, "%s (%s, dialect %s) raised %r" % (label, ctx_name, d, raised))
    return None


# ----------------------------------------------------------------------------------------------
def b128(n, width=None):
    out = []
    while n:
        out.append(n & 0x7F)
        n >>= 7
    if not out:
        out = [0]
    if width is not None:
        out += [0] * (width - len(out))
    return bytes(out)


def decode_cases(pl, size_limit):
    """(label, stream pieces..., expectation) where expectation is ('refuse',) or ('accept', [expected exprs],
    pending?) -- pending means the stream ends inside an accepted item (nothing more is demanded than 'no
    exception and exactly the listed expressions')."""
    cases = []
    # prefix-length cases
    for ndig in (pl - 1, pl, pl + 1, pl + 2, pl + 36):
        for fill in ("pad", "max"):
            digits = b128(1, ndig) if fill == "pad" else b"\x7f" * ndig
            val = 1 if fill == "pad" else 2 ** (7 * ndig) - 1
            over = ndig > pl
            for tname, tb in sorted(TYPEBYTES.items()):
                label = "prefix=%s%+d/%s/%s" % ("limit", ndig - pl, fill, tname)
                if over:
                    exp = ("refuse",)
                    tail = b"z" * 9
                elif tname == "LIST":
                    if val > size_limit:
                        exp, tail = ("refuse",), b""
                    else:
                        exp, tail = ("accept", [[7]], False), b"\x07" + INT
                elif tname == "STRING":
                    if val > size_limit:
                        exp, tail = ("refuse",), b"q"
                    else:
                        exp, tail = ("accept", [b"q"], False), b"q"
                elif tname in ("INT", "LONGINT"):
                    exp, tail = ("accept", [val], False), b""
                elif tname in ("NEG", "LONGNEG"):
                    exp, tail = ("accept", [-val], False), b""
                elif tname == "FLOAT":
                    # a prefix in front of FLOAT is meaningless; the statement only covers *oversized* prefixes
                    exp, tail = ("any",), bits(1.5)
                else:  # VOCAB with an index: only meaningful for real vocabulary numbers
                    exp, tail = ("any",), b""
                cases.append((label, digits + tb + tail, exp))
            label = "prefix=limit%+d/%s/no-type-byte" % (ndig - pl, fill)
            cases.append((label, digits, ("refuse",) if over else ("accept", [], True)))
    # length cases
    for tname, tb in (("STRING", STRING), ("LIST", LIST)):
        for lab, ln in (("SIZE_LIMIT", size_limit), ("SIZE_LIMIT+1", size_limit + 1), ("2*SIZE_LIMIT", 2 * size_limit),
                        ("2^21", 2 ** 21), ("2^32", 2 ** 32), ("2^63", 2 ** 63), ("max-prefix", 2 ** (7 * pl) - 1)):
            exp = ("accept", [], True) if ln <= size_limit else ("refuse",)
            cases.append(("length=%s/%s" % (lab, tname), b128(ln) + tb + (b"abc" if tname == "STRING" else b"\x01" + INT), exp))
    return cases


def contexts(stream, exp):
    """The mutated item alone, inside an open list, and after a complete expression."""
    yield "top", stream, exp
    pre = b"\x02" + LIST + b"\x05" + INT          # [5, <item>
    if exp[0] == "accept":
        if exp[2]:
            yield "in-list", pre + stream, ("accept", [], True)
        else:
            yield "in-list", pre + stream, ("accept", [[5] + exp[1]], False)
    else:
        yield "in-list", pre + stream, exp
    done = b"\x01" + LIST + b"\x01" + STRING + b"k"   # [b"k"] complete, then the item
    if exp[0] == "accept":
        yield "after-expr", done + stream, ("accept", [[b"k"]] + exp[1], exp[2])
    elif exp[0] == "refuse":
        yield "after-expr", done + stream, ("refuse-after", [[b"k"]])
    else:
        yield "after-expr", done + stream, exp


def run_decode_limits(stats, idx, nsh, pl, size_limit, tier):
    n = 0
    for label, stream, exp in decode_cases(pl, size_limit):
        for cname, s, e in contexts(stream, exp):
            n += 1
            if n % nsh != idx:
                continue
            seglist = [()] + [(p,) for p in range(1, len(s))] + [tuple(range(1, len(s)))]
            if tier == "thorough" and len(s) <= 80:
                seglist += list(itertools.combinations(range(1, len(s)), 2))
            for pos in seglist:
                stats.evaluations += 1
                for d in (("none",) if len(pos) > 1 and tier == "quick" else ("pb", "none")):
                    bad = decode_limit_check(s, pos, e, d)
                    stats.outcome({"refuse": "decode-refused", "refuse-after": "decode-refused", "accept": "decode-accepted-at-limit",
                                   "any": "decode-unspecified"}[e[0]])
                    if e[0] != "any":
                        stats.nt(("dec", label, cname, pos if len(pos) < 2 else "bytewise"))
                    if bad:
                        kind = label.split("/")[0].split("=")[0] + ":" + label.split("/")[-1]
                        stats.violation("banana.decode:%s:%s" % (kind, bad[0]), "%s in context %s, dialect %s: %s" % (
                            label, cname, d, bad[1]), {"mode": "dec", "label": label, "ctx": cname, "cuts": list(pos), "dialect": d})
    stats.sample({"decode-limit-cases": len(decode_cases(pl, size_limit))})


def decode_limit_check(stream, pos, exp, d):
    _, _, recv = make_pair(d)
    raised = None
    try:
        for seg in split_at(stream, pos):
            recv.dataReceived(seg)
    except Exception as ex:
        raised = ex
    if exp[0] == "any":
        return None
    if exp[0] in ("refuse", "refuse-after"):
        if raised is None:
            return ("over-limit-not-refused", "no exception; delivered %s" % short(recv.got))
        if exp[0] == "refuse-after":
            # nothing is demanded about expressions completed before the offending item except that
            # they are not corrupted: whatever was delivered must be a prefix of the valid expressions
            if not all(same(a, b) for a, b in zip(exp[1], recv.got)) or len(recv.got) > len(exp[1]):
                return ("refused-but-delivered-garbage", "delivered %s" % short(recv.got))
        elif recv.got:
            return ("refused-but-delivered-garbage", "delivered %s" % short(recv.got))
        return None
    if raised is not None:
        return ("at-limit-refused", "%s: %s" % (type(raised).__name__, str(raised)[:80]))
    if len(recv.got) != len(exp[1]) or not all(same(a, b) for a, b in zip(exp[1], recv.got)):
        return ("at-limit-decoded-wrong", "expected %s, delivered %s" % (short(exp[1]), short(recv.got)))
    return None


# ----------------------------------------------------------------------------------------------
def replay(w):
    pl, size_limit = limits()
    mode = w["mode"]
    if mode == "rt":
        exprs = wdec(w["exprs"])
        out = []
        if w.get("cuts") is None:
            sender, ts, _ = make_pair(w["dialect"])
            for e in exprs:
                try:
                    sender.sendEncoded(e)
                except Exception as ex:
                    out.append(("banana.encode:in-range-value-refused", repr(ex)))
                    break
            return out
        sender, ts, _ = make_pair(w["dialect"])
        for e in exprs:
            sender.sendEncoded(e)
        bad = decode_check(ts.value(), tuple(w["cuts"]), exprs, w["dialect"])
        return [bad] if bad else []
    if mode == "enc":
        for label, build, must_refuse in encode_cases(pl, size_limit):
            if label == w["label"]:
                wrap = {"top": lambda v: v, "in-list": lambda v: [1, v], "nested": lambda v: [[b"a", [v]]]}[w["ctx"]]
                bad = encode_limit_check(label, build, must_refuse, w["ctx"], wrap, w["dialect"])
                return [bad] if bad else []
        return []
    if mode == "dec":
        for label, stream, exp in decode_cases(pl, size_limit):
            if label != w["label"]:
                continue
            for cname, s, e in contexts(stream, exp):
                if cname == w["ctx"]:
                    bad = decode_limit_check(s, tuple(w["cuts"]), e, w["dialect"])
                    if bad:
                        kind = label.split("/")[0].split("=")[0] + ":" + label.split("/")[-1]
                        return [("banana.decode:%s:%s" % (kind, bad[0]), bad[1])]
        return []
    return []
