"""C31 AMP: every callRemote Deferred fires exactly once, with its own answer / error or the loss reason.

Explicit-state search (mc.bfs) over two real ``amp.AMP`` peers joined by ``mc.net.MemTransport``s whose bytes
the harness moves.  Events: callRemote (4 responder behaviours, 2 commands), deliver (all pending bytes / up to
the end of the first complete box / half of that), complete a pending responder (answer / declared error /
undeclared error, any order), connectionLost on either side at any time (so after every enumerated byte prefix),
callRemote after the loss and re-entrantly from inside a failing call's errback.

Reference model (written here, lock step): the harness parses the bytes it moves with its own int16/box walker
to know *which* question or answer has been completely delivered to whom, and from that predicts, for every
call, the exact list of results its Deferred must have produced so far (none / own answer / own error / the
loss reason) and, for every peer, the exact list of responder invocations.
"""
import struct

from mc.bfs import bfs, build
from mc.net import MemTransport
from mc.runner import Stats

from twisted.internet import defer, error
from twisted.protocols import amp
from twisted.python.failure import Failure

def _quiet_log():
    """Undeclared responder errors are logged by AMP; with no observer twisted prints every one to stderr."""
    from twisted.logger import globalLogBeginner
    try:
        globalLogBeginner.beginLoggingTo([lambda event: None], redirectStandardIO=False, discardBuffer=True)
    except Exception:
        pass


_quiet_log()

ID = "C31"
LEVEL = "model_checking"
TECHNIQUE = "explicit-state BFS over two real AMP peers with harness-controlled delivery, lock-step reference model"
RULE = ("BFS over histories of {call(side, kind in ok/later/declared-error/undeclared-error/subclass-of-declared-error), deliver(direction, "
        "all | first box | half of first box), complete(side, pending responder k, answer | declared | undeclared | declared-subclass), "
        "lose(side), call-after-loss(side)} on two real AMP instances; after every transition every call's recorded "
        "results and every peer's responder invocations are compared with the reference model driven by an independent "
        "parse of the delivered bytes.  States are merged on (per side: lost, disconnecting, undelivered bytes, partial "
        "box received, call kinds+results, responder invocations+completion).  non-trivial = distinct states in which "
        "two calls were outstanding at once, an answer overtook another, a loss hit an outstanding call, or a box was "
        "partially delivered; plus an exhaustive error-mapping matrix: every responder behaviour incl. a command hierarchy's "
        "own / inherited, plain / fatal declared errors, immediate and late, from either side, as full single-call scenarios; "
        "plus a volume family: one long-lived connection carrying n calls in 3 answer patterns (all outstanding then answered in "
        "reverse; all outstanding, all but the first 50 answered, then loss; one early call outstanding while every later call is "
        "answered at once, then loss): every Deferred fires exactly once with its own answer or the loss reason and no two "
        "outstanding questions share a tag")
BOUNDS = {"quick": "<= 3 calls in total (any split between the sides), depth 6 (sharded on the first 2 events); immediate declared error raised as a subclass, late one as the exact class; volume n = 4097, 65537 (one deterministic history per n and pattern)",
          "thorough": "<= 3 calls per side, <= 4 in total, depth 7 (sharded on the first 2 events); volume n = 4097, 65537, 2**20+1"}
ASSUMPTIONS = [
    "the peers talk over MemTransport: bytes written after loseConnection are dropped (a real TCP transport would still "
    "send them); the reference follows the bytes actually on the wire, so both behaviours are accepted",
    "a transport that asked to close is delivered no further data (Twisted stops reading on loseConnection)",
    "responder behaviour is selected by the call's argument, so the search controls it without touching the peers",
    "merged states have equal futures: the peers' behaviour depends only on outstanding tags, tag counter, parser "
    "buffer, pending responder Deferreds and transport flags, all determined by the canonical tuple",
]
MIN = {"quick": {"states": 70000, "transitions": 130000, "nontrivial": 30000, "outcomes": 6},
       "thorough": {"states": 70000, "transitions": 130000, "nontrivial": 30000, "outcomes": 6}}

KINDS = ["ok", "later", "decl", "undecl", "declsub"]            # BFS alphabet (thorough)
# error kinds only used by the (exhaustive) error-mapping matrix: own / inherited, plain / fatal, on the derived command
MATRIX_KINDS = ["own", "inh", "fatalinh", "fatalown"]
ALLKINDS = KINDS + MATRIX_KINDS
KCODE = {k: i for i, k in enumerate(ALLKINDS)}
HOWS = ["ok", "decl", "undecl", "declsub"]


class DeclErr(Exception):
    pass


class DeclSub(DeclErr):
    """A subclass of the declared error: must reach the caller exactly like the declared error itself."""


class Sum(amp.Command):
    arguments = [(b"a", amp.Integer())]
    response = [(b"total", amp.Integer())]
    errors = {DeclErr: b"DECL"}


class OwnErr(Exception):
    pass


class FatalBase(Exception):
    pass


class FatalOwn(Exception):
    pass


class EchoBase(amp.Command):
    """Base of a command hierarchy: declares one plain and one fatal error."""
    arguments = [(b"s", amp.String())]
    response = [(b"s", amp.String())]
    errors = {DeclErr: b"DECL"}
    fatalErrors = {FatalBase: b"FATALBASE"}


class Echo(EchoBase):
    """Derived command: overrides both tables with further errors; the inherited ones must still be declared."""
    errors = {OwnErr: b"OWN"}
    fatalErrors = {FatalOwn: b"FATALOWN"}


# responder behaviour / late completion -> (exception to raise, name of the exception the caller must get)
ERRORS = {
    "decl": (lambda: DeclErr("declared"), "DeclErr"),
    "declsub": (lambda: DeclSub("declared subclass"), "DeclErr"),
    "inh": (lambda: DeclErr("inherited declared"), "DeclErr"),
    "own": (lambda: OwnErr("own declared"), "OwnErr"),
    "fatalinh": (lambda: FatalBase("inherited fatal"), "FatalBase"),
    "fatalown": (lambda: FatalOwn("own fatal"), "FatalOwn"),
    "undecl": (lambda: RuntimeError("undeclared"), "UnknownRemoteError"),
}


class LossA(error.ConnectionLost):
    pass


class LossB(error.ConnectionDone):
    pass


class PeerProto(amp.AMP):
    def __init__(self, side):
        amp.AMP.__init__(self)
        self.side = side

    def sum(self, a):
        return self.side.respond("Sum", a)
    Sum.responder(sum)

    def echo(self, s):
        return self.side.respond("Echo", int(s))
    Echo.responder(echo)


class Side:
    def __init__(self, name, base):
        self.name = name
        self.base = base                  # call ids are base+1, base+2, ...
        self.proto = PeerProto(self)
        self.tr = MemTransport()
        self.proto.makeConnection(self.tr)
        self.lost = False
        self.reason_cls = LossA if name == "A" else LossB
        self.calls = []                   # Call records made by this side (incl. after-loss and re-entrant ones)
        self.ncalls = 0                   # calls made while connected
        self.after_loss = False
        self.invocations = []             # (cmd, arg) responder invocations observed on this side
        self.pending = []                 # dicts: arg, d, done
        self.wire = b""                   # written by this side, not yet delivered to the peer
        self.rx = b""                     # delivered to this side since the last complete box (reference parse)
        self.peer = None
        # reference model
        self.m_invocations = []
        self.flags = set()

    def respond(self, cmd, arg):
        self.invocations.append((cmd, arg))
        kind = ALLKINDS[arg % 10]
        if kind == "ok":
            return answer_for(cmd, arg)
        if kind in ERRORS:
            raise ERRORS[kind][0]()
        d = defer.Deferred()
        self.pending.append({"cmd": cmd, "arg": arg, "d": d, "done": None})
        return d

    def drain(self):
        if self.tr.written:
            self.wire += b"".join(self.tr.written)
            self.tr.clear()


def answer_for(cmd, arg):
    return {"total": 1000 + arg} if cmd == "Sum" else {"s": b"echo:%d" % arg}


class Call:
    def __init__(self, side, cmd, arg, kind, phase):
        self.side, self.cmd, self.arg, self.kind = side, cmd, arg, kind
        self.results = []
        self.tag = None
        self.phase = phase      # asked | invoked | answered | delivered | unsent | afterloss
        self.how = None
        self.made_lost = False


class St:
    def __init__(self):
        self.A = Side("A", 0)
        self.B = Side("B", 50)
        self.A.peer, self.B.peer = self.B, self.A
        self.bad = []
        self.maxcalls = 2
        self.maxtotal = 4
        self.hows = HOWS
        self.kinds = KINDS

    def side(self, n):
        return self.A if n == "A" else self.B


# ----------------------------------------------------------------------------------------------
# reference box walker

def walk_boxes(data):
    """Parse complete AMP boxes from ``data``; return ([dict], tail)."""
    boxes, i, n = [], 0, len(data)
    cur, start, key = {}, 0, None
    while i + 2 <= n:
        (ln,) = struct.unpack("!H", data[i:i + 2])
        if i + 2 + ln > n:
            break
        s = data[i + 2:i + 2 + ln]
        i += 2 + ln
        if key is None:
            if not s:
                boxes.append(cur)
                cur, start = {}, i
            else:
                key = s
        else:
            cur[key] = s
            key = None
    return boxes, data[start:]


def first_box_end(data):
    """Offset just past the first complete box in ``data`` or None."""
    i, n, key = 0, len(data), None
    while i + 2 <= n:
        (ln,) = struct.unpack("!H", data[i:i + 2])
        if i + 2 + ln > n:
            return None
        s = data[i + 2:i + 2 + ln]
        i += 2 + ln
        if key is None:
            if not s:
                return i
            key = s
        else:
            key = None
    return None


# ----------------------------------------------------------------------------------------------
def record(call):
    def ok(v):
        call.results.append(("ok", tuple(sorted(v.items())) if isinstance(v, dict) else repr(v)))

    def err(f):
        call.results.append(("err", f.type.__name__))
        side = call.side
        # re-entrant call from inside the errback of a call that failed because the connection went away
        if f.check(side.reason_cls) and call.phase != "afterloss" and not getattr(side, "_recalled", False):
            side._recalled = True
            make_call(side, "ok", reentrant=True)
        return None
    return ok, err


def make_call(side, kind, reentrant=False):
    n = len(side.calls) + 1
    arg = (side.base + n) * 10 + KCODE[kind]
    cmd = "Sum" if kind in ("ok", "decl") else "Echo"      # later / undecl / declsub use Echo
    if reentrant or side.lost:
        phase = "afterloss"
    else:
        phase = "asked"
    c = Call(side, cmd, arg, kind, phase)
    side.calls.append(c)
    before = len(b"".join(side.tr.written))
    if cmd == "Sum":
        d = side.proto.callRemote(Sum, a=arg)
    else:
        d = side.proto.callRemote(Echo, s=b"%d" % arg)
    ok, err = record(c)
    fired_before = len(c.results)
    d.addCallbacks(ok, err)
    if phase == "afterloss":
        c.immediate = len(c.results) > fired_before
    else:
        new = b"".join(side.tr.written)[before:]
        boxes, tail = walk_boxes(new)
        asks = [b for b in boxes if b.get(b"_ask") is not None]
        if len(asks) == 1 and not tail:
            c.tag = asks[0][b"_ask"]
        else:
            c.phase = "unsent"      # nothing (or nothing parseable) reached the wire: it can only end by loss
    return c


def apply(st, ev):
    op = ev[0]
    if op == "call":
        side = st.side(ev[1])
        make_call(side, ev[2])
        if not side.lost:
            side.ncalls += 1
            if sum(1 for c in side.calls if expected(c) == []) > 1:
                side.flags.add("two-outstanding")
        else:
            side.after_loss = True
    elif op == "deliver":
        src = st.side(ev[1])
        dst = src.peer
        n = amount(src, dst, ev[2])
        chunk, src.wire = src.wire[:n], src.wire[n:]
        # reference: which boxes does this complete?
        boxes, tail = walk_boxes(dst.rx + chunk)
        dst.rx = tail
        if tail:
            dst.flags.add("partial-box")
        for b in boxes:
            model_box_delivered(st, src, dst, b)
        dst.proto.dataReceived(chunk)
    elif op == "complete":
        side = st.side(ev[1])
        p = [x for x in side.pending if x["done"] is None][ev[2]]
        how = ev[3]
        p["done"] = how
        if [x for x in side.pending if x["done"] is None and x["arg"] < p["arg"]]:
            side.flags.add("overtook")
        for c in side.peer.calls:
            if c.arg == p["arg"] and c.phase == "invoked":
                c.phase, c.how = "answered", how
        if how == "ok":
            p["d"].callback(answer_for(p["cmd"], p["arg"]))
        else:
            p["d"].errback(Failure(ERRORS[how][0]()))
    elif op == "lose":
        side = st.side(ev[1])
        side.lost = True
        if any(expected_before_loss(c) == [] for c in side.calls):
            side.flags.add("loss-hit-outstanding")
        side.proto.connectionLost(Failure(side.reason_cls("harness")))
    st.A.drain()
    st.B.drain()


def model_box_delivered(st, src, dst, box):
    if box.get(b"_ask") is not None and b"_command" in box:
        for c in src.calls:
            if c.tag == box[b"_ask"] and c.phase == "asked":
                c.phase = "invoked"
                dst.m_invocations.append((c.cmd, c.arg))
                if c.kind != "later":
                    c.phase, c.how = "answered", c.kind
    tag = box.get(b"_answer", box.get(b"_error"))
    if tag is not None:
        for c in dst.calls:
            if c.tag == tag and c.phase == "answered":
                c.phase = "delivered"
                c.how_delivered = "error" if b"_error" in box else "answer"


def amount(src, dst, which):
    total = len(src.wire)
    if which == "all":
        return total
    e = first_box_end(dst.rx + src.wire)
    if e is None:
        box = total
    else:
        box = e - len(dst.rx)
    if which == "box":
        return box
    return max(1, box // 2)


def expected_before_loss(c):
    if c.phase == "delivered":
        if c.how == "ok":
            return [("ok", tuple(sorted(answer_for(c.cmd, c.arg).items())))]
        return [("err", ERRORS[c.how][1])]
    return []


def expected(c):
    """The exact list of results the call's Deferred must have produced so far."""
    e = expected_before_loss(c)
    if e:
        return e
    if c.phase == "afterloss" or c.side.lost:
        return [("err", c.side.reason_cls.__name__)]
    return []


def kind_of_result(r):
    if r[0] == "ok":
        return "answer"
    return {"DeclErr": "declared-error", "OwnErr": "declared-error", "FatalBase": "fatal-declared-error",
            "FatalOwn": "fatal-declared-error", "UnknownRemoteError": "unknown-remote-error", "LossA": "loss-reason",
            "LossB": "loss-reason"}.get(r[1], "other-error")


def invariant(st, hist):
    out = list(st.bad)
    for side in (st.A, st.B):
        for c in side.calls:
            exp, got = expected(c), c.results
            if got == exp:
                if c.phase == "afterloss" and not getattr(c, "immediate", True):
                    out.append(("amp.call:after-loss-not-failed-immediately", "call %d on %s" % (c.arg, side.name)))
                continue
            who = "call %s(%d) by %s [%s]" % (c.cmd, c.arg, side.name, c.phase)
            if len(got) > 1:
                out.append(("amp.call:fired-%d-times" % len(got), "%s results %r, reference %r" % (who, got, exp)))
            elif not exp:
                out.append(("amp.call:fired-without-its-answer:%s" % kind_of_result(got[0]),
                            "%s fired %r, reference: still outstanding" % (who, got)))
            elif not got:
                what = "after-loss-call" if c.phase == "afterloss" else kind_of_result(exp[0])
                out.append(("amp.call:not-fired:%s-due" % what, "%s has no result, reference %r" % (who, exp)))
            else:
                ek, gk = kind_of_result(exp[0]), kind_of_result(got[0])
                if ek == gk == "answer":
                    gk = "another-calls-answer"
                out.append(("amp.call:wrong-result:expected-%s-got-%s" % (ek, gk), "%s fired %r, reference %r" % (who, got, exp)))
        if side.invocations != side.m_invocations:
            n_real, n_ref = len(side.invocations), len(side.m_invocations)
            kind = "missing" if n_real < n_ref else "extra" if n_real > n_ref else "wrong-arguments"
            out.append(("amp.responder:%s-invocation" % kind, "%s responders saw %r, reference %r" % (
                side.name, side.invocations, side.m_invocations)))
    return out


def enabled(st):
    evs = []
    total = st.A.ncalls + st.B.ncalls
    for side in (st.A, st.B):
        peer = side.peer
        if not side.lost:
            if side.ncalls < st.maxcalls and total < st.maxtotal:
                for k in st.kinds:
                    evs.append(["call", side.name, k])
        elif not side.after_loss:
            evs.append(["call", side.name, "ok"])
        if side.wire and not peer.lost and not peer.tr.disconnecting:
            seen = set()
            for which in ("all", "box", "half"):
                n = amount(side, peer, which)
                if n not in seen and n > 0:
                    seen.add(n)
                    evs.append(["deliver", side.name, which])
        npend = sum(1 for x in side.pending if x["done"] is None)
        for i in range(npend):
            for how in (st.hows if not side.lost else HOWS[:1]):
                evs.append(["complete", side.name, i, how])
        if not side.lost:
            evs.append(["lose", side.name])
    return evs


def canon(st):
    out = []
    for s in (st.A, st.B):
        out.append((s.lost, s.tr.disconnecting, s.wire, s.rx, s.after_loss, s.ncalls,
                    tuple((c.kind, c.phase, c.how, tuple(c.results)) for c in s.calls),
                    tuple((p["arg"], p["done"]) for p in s.pending),
                    tuple(s.invocations)))
    return tuple(out)


# ----------------------------------------------------------------------------------------------
def config(tier):
    return {"quick": (3, 3, 6, 2), "thorough": (3, 4, 7, 2)}[tier]   # per-side calls, total calls, depth, prefix len


def initial_for(tier, prefix):
    mc_, mt, depth, plen = config(tier)

    def initial():
        st = St()
        st.maxcalls, st.maxtotal = mc_, mt
        # quick: an immediate declared error is the subclass form, a late one the exact class (one of each);
        # thorough: both forms both ways
        st.hows = HOWS if tier == "thorough" else ["ok", "decl", "undecl"]
        st.kinds = KINDS if tier == "thorough" else ["ok", "later", "declsub", "undecl"]
        for ev in prefix:
            apply(st, ev)
        return st
    return initial


def prefixes(tier):
    mc_, mt, depth, plen = config(tier)
    found = []

    def on_state(st, h):
        if len(h) == plen:
            found.append(h)
    bfs(initial_for(tier, []), apply, enabled, canon, invariant, plen, on_state=on_state)
    return found


VOLUMES = {"quick": [4097, 65537], "thorough": [4097, 65537, (1 << 20) + 1]}
VOLUME_MODES = ["all-outstanding-answer-reverse", "all-outstanding-answer-forward-keep-first-50",
                "one-early-call-outstanding-others-answered-at-once"]


def shards(tier, seed):
    return ([["matrix"], ["root"]] + [["prefix", p] for p in prefixes(tier)]
            + [["volume", n, m] for n in VOLUMES[tier] for m in VOLUME_MODES])


def _box(d):
    out = b""
    for k, v in d.items():
        out += struct.pack("!H", len(k)) + k + struct.pack("!H", len(v)) + v
    return out + b"\x00\x00"


def run_volume(n, mode):
    """Long-lived connection (round-10 miss C31-m): ``n`` calls on one connection, so that any bound on the
    space of question tags is crossed (2**12, 2**16, thorough 2**20).  Deterministic single history per
    (n, mode); oracle = the statement: every Deferred fires exactly once, with its own answer, or with the
    loss reason if unanswered at disconnect; plus the wire-level cause: no two outstanding questions share a tag."""
    bad = []
    side = Side("A", 0)
    proto, tr = side.proto, side.tr
    results = {}          # i -> list of outcomes
    tags = {}             # i -> tag
    outstanding = {}      # tag -> i

    def ask(i):
        tr.clear()
        d = proto.callRemote(Sum, a=i)
        results[i] = []
        d.addCallbacks(lambda v, i=i: results[i].append(("ok", v.get("total"))),
                       lambda f, i=i: results[i].append(("err", f.type.__name__)))
        boxes, tail = walk_boxes(b"".join(tr.written))
        asks = [b for b in boxes if b.get(b"_ask") is not None]
        if len(asks) != 1 or tail:
            bad.append(("AMP:volume:question-not-written", "call %d of %d (%s)" % (i, n, mode)))
            return False
        t = asks[0][b"_ask"]
        if t in outstanding:
            bad.append(("AMP:volume:outstanding-questions-share-a-tag",
                        "call %d reuses tag %r of unanswered call %d (%d calls made, %s)" % (i, t, outstanding[t], i, mode)))
            return False
        tags[i] = t
        outstanding[t] = i
        return True

    def answer(i):
        t = tags[i]
        del outstanding[t]
        proto.dataReceived(_box({b"_answer": t, b"total": b"%d" % (1000 + i)}))

    keep = set()
    if mode == "all-outstanding-answer-reverse":
        for i in range(1, n + 1):
            if not ask(i):
                return bad
        for i in range(n, 0, -1):
            answer(i)
    elif mode == "all-outstanding-answer-forward-keep-first-50":
        keep = set(range(1, 51))
        for i in range(1, n + 1):
            if not ask(i):
                return bad
        for i in range(51, n + 1):
            answer(i)
    else:
        keep = {1}
        if not ask(1):
            return bad
        for i in range(2, n + 1):
            if not ask(i):
                return bad
            answer(i)
    for i in sorted(results):
        if i in keep:
            if results[i]:
                bad.append(("AMP:volume:unanswered-call-fired", "call %d of %d (%s): %r" % (i, n, mode, results[i][:2])))
                return bad
        elif results[i] != [("ok", 1000 + i)]:
            bad.append(("AMP:volume:call-did-not-get-its-own-answer-exactly-once",
                        "call %d of %d (%s): %r" % (i, n, mode, results[i][:3])))
            return bad
    proto.connectionLost(Failure(LossA()))
    for i in sorted(keep):
        if results[i] != [("err", "LossA")]:
            bad.append(("AMP:volume:unanswered-call-not-failed-once-with-loss-reason",
                        "call %d of %d (%s): %r" % (i, n, mode, results[i][:3])))
            return bad
    for i in sorted(results):
        if len(results[i]) != 1:
            bad.append(("AMP:volume:fired-more-than-once", "call %d of %d (%s): %r" % (i, n, mode, results[i][:3])))
            return bad
    return bad


def matrix_histories():
    """Every (caller side, responder behaviour incl. the command hierarchy's own / inherited, plain / fatal errors,
    immediate / late) as a complete single-call scenario followed by both losses."""
    for side, other in (("A", "B"), ("B", "A")):
        for kind in ["ok"] + sorted(ERRORS):
            yield [["call", side, kind], ["deliver", side, "all"], ["deliver", other, "all"], ["lose", other], ["lose", side]]
            yield [["call", side, "later"], ["deliver", side, "all"], ["complete", other, 0, kind],
                   ["deliver", other, "all"], ["lose", side], ["lose", other]]
            # two calls, second one decides the connection's fate, answers delivered box by box
            yield [["call", side, "later"], ["call", side, kind], ["deliver", side, "all"], ["complete", other, 0, "ok"],
                   ["deliver", other, "box"], ["lose", side]]


def run_matrix(stats, tier):
    for hist in matrix_histories():
        st = initial_for(tier, [])()
        done = []
        for ev in hist:
            if ev[0] == "deliver":
                src = st.side(ev[1])
                if not src.wire or src.peer.lost or src.peer.tr.disconnecting:
                    continue            # nothing to deliver / receiver already closing: skip the step
            if ev[0] == "complete" and not [x for x in st.side(ev[1]).pending if x["done"] is None]:
                continue
            apply(st, ev)
            done.append(ev)
            stats.transitions += 1
            stats.traces += 1
            bad = list(invariant(st, done))
            for sig, detail in bad:
                stats.violation(sig, detail, {"prefix": [], "history": list(done), "tier": tier})
            if bad:
                break
        stats.states += 1
        stats.nt(("matrix", repr(hist)))
        for s_ in (st.A, st.B):
            for c in s_.calls:
                for r in c.results:
                    stats.outcome("result:" + kind_of_result(r))


def run_shard(shard, tier, seed):
    mc_, mt, depth, plen = config(tier)
    stats = Stats()
    if shard[0] == "matrix":
        run_matrix(stats, tier)
        return stats
    if shard[0] == "volume":
        for sig, detail in run_volume(shard[1], shard[2]):
            stats.violation(sig, detail, {"volume": [shard[1], shard[2]], "tier": tier})
        stats.states += 1
        stats.transitions += 2 * shard[1]
        stats.traces += 1
        stats.nt(("volume", shard[1], shard[2]))
        stats.outcome("volume:" + shard[2])
        return stats
    if shard[0] == "root":
        prefix, d = [], plen
    else:
        prefix, d = shard[1], depth - plen

    def on_state(st, h):
        flags = st.A.flags | st.B.flags
        if flags:
            stats.nt(canon(st))
        for f in flags:
            stats.outcome(f)
        for s in (st.A, st.B):
            for c in s.calls:
                for r in c.results:
                    stats.outcome("result:" + kind_of_result(r))
            if s.tr.disconnecting:
                stats.outcome("quit-box-closed-transport")

    res = bfs(initial_for(tier, prefix), apply, enabled, canon, invariant, d, on_state=on_state, max_violations=40)
    stats.add_bfs(res, {"prefix": prefix, "tier": tier})
    stats.samples = [{"prefix": prefix, "history": h} for h in res.samples[-1:]]
    stats.count("max_depth_max", len(prefix) + res.max_depth)
    return stats


def replay(w):
    if "volume" in w:
        return run_volume(*w["volume"])
    st = initial_for(w.get("tier", "quick"), w.get("prefix", []))()
    for ev in w["history"]:
        apply(st, ev)
    return invariant(st, w["history"])
